"""C02 — Compression is transparent, lossless and atomically published
(spikeglx.Reader.compress_file / decompress_file / decompress_to_scratch / __init__ / open / read).

Two families of cases, both run on the REAL code in a scratch directory and on the Lean model:

* file-system sequences: a recording (synthetic metadata, 1..385 channels, n chunks, short last chunk) and a sequence of
  calls made by fresh or stale readers opened through x.bin / x.cbin / x.meta, with an exception injected into mtscomp
  while chunk k is compressed / decompressed.  After every call the outcome, the reader's file_bin and the directory
  (every file classified by the chunks it holds, byte-exactly) are compared with `FsCompress.step`; after every state the
  three entry points are opened and compared with `FsCompress.openReader`.
* reads: `.bin` and `.cbin` readers of the same recording, sample selectors placed on / next to / across chunk bounds;
  the rows returned by both backends are compared with `ChunkRead.rawCbin` / `rawBin`, and the calibrated reads
  `sr[nsel, csel]` of the two readers with each other, bit for bit.
* interruptions BETWEEN two file-system effects of a call (after the last chunk / after the header / after the rename, before
  each unlink): the directory is compared with the PREFIX of the model's effect list (`FsCompressEffects.crash…`), and every
  second fired chunk fault is compared in that prefix form as well.
* path names: `PurePath.suffix / stem / with_suffix`, `Reader.is_mtscomp`, `_get_companion_file` and the data file chosen by
  `Reader.__init__` on generated names and real directories vs `FsPath.*`.

The order of the file-system calls of the three functions is additionally re-read from the source text on every run
(harness/tiespecs/c02.py -> lean/IblVerif/Generated/SrcC02.lean) and proved equal to the model's call lists (Tie/C02.lean).
"""
import contextlib
import gc
import hashlib
import json
import logging
import os
import shutil
import tempfile
from pathlib import Path

import numpy as np

ID = 'C02'
DRIVER = 'C02'
LEAN_TARGETS = ['IblVerif.Properties.C02']
THEOREMS = [
    'IblVerif.C02.final_names_complete',
    'IblVerif.C02.source_outlives_replacement',
    'IblVerif.C02.final_names_complete_after_rewrites',
    'IblVerif.C02.compress_publishes_current_content',
    'IblVerif.C02.rename_failure_next_to_stale_cbin_counterexample',
    'IblVerif.C02.clean_directories_published',
    'IblVerif.C02.hdr_consistent',
    'IblVerif.C02.compress_failure_touches_only_tmp',
    'IblVerif.C02.toScratch_failure_touches_only_temp',
    'IblVerif.C02.decompress_failure_keeps_source',
    'IblVerif.C02.inplace_compress_removes_source_only_after_complete',
    'IblVerif.C02.inplace_decompress_removes_source_only_after_complete',
    'IblVerif.C02.roundtrip',
    'IblVerif.C02.decompress_refuses_existing_output',
    'IblVerif.C02.resolve_agree',
    'IblVerif.C02.resolve_meta_iff_data_exists',
    'IblVerif.C02.resolve_meta_same_file',
    'IblVerif.C02.resolve_meta_same_recording',
    'IblVerif.C02.all_entries_same_recording',
    'IblVerif.C02.transparent_read',
    'IblVerif.C02.transparent_shape',
    'IblVerif.C02.transparent_shape_any_meta',
    'IblVerif.C02.negative_step_empty_on_cbin',
    'IblVerif.C02.negative_step_counterexample',
    'IblVerif.C02.int_below_minus_n_counterexample',
    'IblVerif.C02.plain_decompress_not_atomic',
    'IblVerif.C02.torn_bin_recompressed_counterexample',
    'IblVerif.C02.steps_interpret_effect_lists',
    'IblVerif.C02.compress_interrupted_anywhere',
    'IblVerif.C02.toScratch_interrupted_anywhere',
    'IblVerif.C02.decompress_interrupted_anywhere',
    'IblVerif.C02.final_names_complete_any_interruption',
    'IblVerif.C02.interrupted_after_header_next_to_stale_cbin_counterexample',
    'IblVerif.C02.call_order',
    'IblVerif.C02.derived_names_are_siblings',
    'IblVerif.C02.is_mtscomp_on_derived_names',
    'IblVerif.C02.companions_agree',
    'IblVerif.C02.resolve_on_names',
]
RULE = ('(1) file-system sequences: recording = metadata flavour (nidq with 1..385 channels boundary-biased; 3A/3B/NP2.1/NP2.4/NPultra '
        'ap, 3B lf, the 277-channel subset) x chunk size 8..60 samples x 1..7 chunks with a short or full last chunk x random int16 '
        'content x initial directory {bin, cbin+ch, both}; 3..8 calls per case, each by a reader opened through bin/cbin/meta '
        '(80 % through a file that exists) or by an earlier, possibly stale reader: compress_file(keep_original, n_threads 1..3), '
        'decompress_file(keep_original, overwrite, n_threads), decompress_to_scratch(None | dir) with mtscomp default n_threads '
        'in {1,2,3,16}; about half of the calls with an exception injected at a uniformly chosen chunk (mtscomp.Writer._compress_chunk / '
        'mtscomp.Reader._decompress_chunk). One comparison per call and per (state, entry point). Non-trivial: a fault fired or the '
        'recording has >= 2 chunks; distinct by (recording parameters, call prefix). '
        'About 12 % of the steps of a sequence REPLACE x.bin by another version of the recording (same shape, other content) while earlier outputs (.cbin/.ch, .cbin_tmp, scratch .bin) stay on disk; the exhaustive box contains every call after [compress(keep), rewrite] and related prefixes. '
        '(2) reads: same recording family, compressed by compress_file; sample selectors: slices with start/stop from '
        '{None, 0, chunk bound +-1, ns +-1, their negatives, beyond the end, random}, step from {None, 1, 2, 3, chunk size +-1, > ns}, '
        'ints in [-ns, ns + 5]; channel selectors slice/int/list/strided; through x.cbin, and x.meta with only x.cbin present. '
        'Non-trivial: the selector touches >= 2 chunks or has a step > 1 or is negative; distinct by (recording, selector). '
        '(3) interruptions between two effects: 30 % of the compress_file / decompress_file calls without another fault carry one of '
        '{after the last chunk before x.ch, after x.ch before the check, after the rename before the unlink of x.bin; before the unlink of x.cbin, '
        'before the unlink of x.ch}; the exhaustive box holds each of them for every entry point, flag and initial directory; every second fired chunk '
        'fault is sent to the model as "k primitive effects of the effect list" instead of "fault at chunk j". '
        '(4) path names: stems from a list of SpikeGLX-like names (several dots, leading / trailing dot, the word cbin inside the stem) or random '
        'over {a, b, ., _, cbin, bin, c, tmp, -, 1}, 30 % with a UUID part, x 15 suffixes (the six literals of the source, none, upper case, cbin as an '
        'infix, two dots); real directories holding a random subset of {x.bin, x.cbin, x.cbin_tmp, x.ch, x.meta, x.bin_temp, x.lf.bin, x.extra.meta, '
        'x.ap.ch, x2.meta, x2.bin} with and without UUID parts, queried through every present name and the four siblings, argument as Path / str. '
        'Non-trivial: >= 2 dots, or cbin in the name, or a directory query.')
ASSUMPTIONS = [
    'the content of x.bin may be REPLACED between calls (same ns/nc, other samples: an environment event `rewrite`), earlier outputs staying on disk; '
    'the "current content" of the recording is what the last rewrite - or the last successful decompress_file - put into x.bin',
    'input forms (drawn independently of the values, tagged): path as pathlib.Path / str, absolute / relative to the cwd; keep_original and '
    'scratch_dir positionally or by keyword; dtype of Reader spelled \'int16\' / np.int16 / \'<i2\' / np.dtype; file names with a UUID part '
    '(the same UUID in all names everywhere; one UUID per dataset for the data-file entry points). Unsupported by the API and excluded: scratch_dir '
    'given as str (AttributeError: str has no mkdir); other dtypes than int16 (another value, not another form). Known finding, excluded: '
    'Reader(x.<uuid>.meta) when every dataset has its own UUID',
    'the .meta may announce more or fewer samples than are on disk (whole frames); both readers must expose the frames on disk (Reader.open fudges '
    'meta[fileTimeSecs]); reading ns back from fileTimeSecs relies on round(fl(fl(k/fs)*fs)) = k (C11)',
    'x.meta exists and is never touched; one chunk size per recording (compress_file is always called with the same chunk_duration)',
    'interruptions between two effects are injected as exceptions raised by whatever comes next before it acts: the pool join after the last chunk '
    '(stand-in pool only), mtscomp.check, the removal primitive (Path.unlink / os.unlink / os.remove) for *.bin / *.cbin / *.ch; the theorems state '
    'the same for a process crash (a prefix of the primitive effects), which the harness cannot inject; x.ch is modelled as written in one step '
    '(mtscomp opens it under its final name and dumps the JSON: a crash inside that step can leave an empty / partial x.ch next to the complete '
    'x.cbin_tmp — not modelled, dependency); "after x.ch before the check" is not injected next to a stale x.cbin (same excluded class as the failing rename)',
    'path names: file names without "/" other than "." and ".."; CPython 3.12 pathlib semantics (suffix = from the last dot, unless it is the first or '
    'the last character); glob patterns made from stems without glob metacharacters (* ? [); _get_companion_file with several glob candidates and no '
    'direct hit: WHICH candidate is returned (directory order) is not a demand — both sides must return one of them; which exception a missing data '
    'file raises in Reader.__init__ is not a demand; the UUID recogniser of the ONE library is a parameter of the model (its result is handed over)',
    'faults are exceptions: (a) raised inside mtscomp while chunk k is produced, (b) raised by the rename (compress_file) / shutil.move '
    '(decompress_to_scratch) that publishes the finished temporary file - injected by refusing every publishing primitive (Path.rename / Path.replace / os.rename / os.replace / shutil.move) for that destination, '
    'or for real by a directory sitting at x.cbin, (c) raised between two effects (previous item); process crashes themselves are not injected (the prefix theorems cover them); '
    'with n_threads = T the chunks of one batch are produced before any is written, so (k // T) * T chunks have reached the file',
    'the atomicity trace theorems exclude a fault inside the PLAIN decompress_file (mtscomp writes straight to x.bin; the property claims atomic '
    'publication only for compression and decompress_to_scratch); the model reproduces the partial x.bin and the correspondence covers it',
    'x.ch is written under its final name by mtscomp before the rename of x.cbin_tmp (modelled); a failing rename is not injected when an x.cbin that is not exactly the compressed image of the current x.bin '
    '(stale: other content or another length) is present: x.ch then stops describing that x.cbin and mtscomp\'s behaviour on the pair is unspecified '
    '(known finding compress_rename_failure_next_to_stale_cbin_orphans_header, Lean: rename_failure_next_to_stale_cbin_counterexample)',
    'sample selectors of the transparency claim: Python int >= -ns and slices with positive or absent step (list/array sample selectors raise '
    'NotImplementedError on .cbin; negative steps, ints < -ns and numpy-integer indices are the recorded findings)',
    'readers are opened with the default open=True; the reader object left behind by an in-place compress_file / decompress_file(keep_original=False) is '
    're-opened (open()) and must show the same shape and values as a fresh Reader on the new file; it is not read from without re-opening (its backend is closed)',
]
TRUSTED = [
    'the translator harness/pyfn2lean.py and the event patterns of harness/tiespecs/c02.py (which call statements are read as which event; '
    'path-valued locals as opaque integers); the refinement of a call into primitive effects (expandCall: mtscomp writes its output chunk by chunk, '
    'then the header) is hand-written from the mtscomp 1.0.2 source and compared with the real code at every injectable point',
    'mtscomp 1.0.2 / zlib as the chunk codec: decode(encode(chunk)) = chunk (the hypothesis Codec.Lossless; exercised byte-exactly every run)',
    'POSIX rename replaces atomically, unlink removes (os level, not modelled below the call)',
    'classification of a file by the chunks it holds uses reference chunk byte strings produced by calling mtscomp.compress directly',
]
LEVEL_TEXT = ('Lean 4 theorems over a file-state machine transcribed from compress_file / decompress_file / decompress_to_scratch / Reader.__init__ / '
              'open, for every recording, every lossless codec, every sequence of calls by fresh or stale readers and every fault point: final names '
              '(x.cbin + x.ch, x.bin / scratch x.bin from decompress_to_scratch) absent or complete, the recording always held by a complete file, failures touch '
              'only .cbin_tmp / .bin_temp, in-place variants remove the source only after the replacement is complete, byte-exact round trip, path '
              'resolution through bin/cbin/meta, and the chunked read path of the compressed backend equals NumPy slicing for every start/stop and positive step. '
              'The ORDER of file-system calls of the three functions is data (call lists) proved equal to the event sequence regenerated from the source text on '
              'every run (translator tie); the step functions are proved to be the interpretation of the refined effect lists at every fault point; and the '
              'atomicity statements are proved for an interruption between ANY two primitive effects (every prefix of the effect list), also inside arbitrary '
              'call sequences. Path-name logic (with_suffix on names with several dots, is_mtscomp, companion lookup, the data file chosen from x.meta) is '
              'modelled on character lists and proved for every stem. Model tied to the real code by an exact differential run with injected faults')
LEVEL_NOTE = ('trusted: Lean kernel; mtscomp/zlib as a lossless chunk codec (parameter + law); rename/unlink; the Python harness; the translator and its '
              'event patterns. The mtscomp slicing algorithm and the refinement of mtscomp.compress / decompress into primitive effects are modelled from the '
              'installed 1.0.2 source (external dependency). Translator tie covers: the sequence of file-system calls of compress_file, decompress_file, '
              'decompress_to_scratch for every value of keep_original / scratch_dir is None / bin_file.exists() / "out" in kwargs, with the variables they '
              'act on and the suffix literals the path variables are made from. NOT covered by the tie (correspondence run only): the assertions on is_mtscomp, '
              'the re-pointing self.file_bin = ..., which variable a binding statement binds, Reader.__init__ / open / _get_companion_file (path- and '
              'None-valued expressions are outside the translator subset). Only numeric / sampled: that the hand-written path model equals pathlib / glob '
              '(compared on thousands of names per run), the glob order, the UUID recogniser (parameter). Not carried: a crash INSIDE the writing of x.ch '
              '(one step in the model), faults inside plain decompress_file on x.bin itself (non-atomic by design, reproduced by the model and by the '
              'prefix theorem: a partial x.bin only ever sits next to the intact source).')
TECHNIQUE = ('Lean 4 proof: case analysis of each call into refused / interrupted / completed, invariant by induction over arbitrary call+fault sequences; '
             'effect lists + prefix (crash) semantics: closed form of the state after k primitive effects, frame lemmas over traces, step = prefix at every '
             'fault point; list lemmas (take/drop/flatten, bisect) for the chunked read; character-list model of pathlib suffix logic; translator tie '
             '(event sequence of the source = call list of the model); exact differential run with fault injection at chunks, at the publishing '
             'rename / move and between effects')

FIX = None  # set in _setup


class Boom(Exception):
    """The injected fault."""


_SETUP = {}


def _setup():
    """Silence progress bars/logging of the dependency; locate fixtures."""
    global FIX
    if _SETUP:
        return
    import mtscomp
    import spikeglx
    FIX = Path(spikeglx.__file__).resolve().parent / 'tests' / 'fixtures'
    mtscomp.tqdm = lambda it, **kw: it
    logging.getLogger('ibllib').setLevel(logging.CRITICAL)
    logging.getLogger('mtscomp').setLevel(logging.CRITICAL)
    _SETUP['default_config'] = list(mtscomp.DEFAULT_CONFIG)
    _SETUP['ok'] = True


# ---------------------------------------------------------------------------------------------
# recordings
# ---------------------------------------------------------------------------------------------
FLAVOURS = {
    # name: (fixture, kind, stem, fixed nc or None)
    'nidq': ('sample3B_g0_t0.nidq.meta', 'nidq', 'rec_g0_t0.nidq', None),
    '3A': ('sample3A_g0_t0.imec.ap.meta', 'ap', 'rec_g0_t0.imec.ap', 385),
    '3A_277': ('sample3A_376_channels.ap.meta', 'ap', 'rec_g0_t0.imec.ap', 277),
    '3B': ('sample3B_g0_t0.imec1.ap.meta', 'ap', 'rec_g0_t0.imec1.ap', 385),
    '3B_lf': ('sample3B_g0_t0.imec1.lf.meta', 'lf', 'rec_g0_t0.imec1.lf', 385),
    'NP2.1': ('sampleNP2.1_g0_t0.imec.ap.meta', 'ap', 'rec_g0_t0.imec.ap', 385),
    'NP2.4': ('sampleNP2.4_4shanks_g0_t0.imec.ap.meta', 'ap', 'rec_g0_t0.imec0.ap', 385),
    'NPultra': ('sampleNPultra_g0_t0.imec0.ap.meta', 'ap', 'rec_g0_t0.imec0.ap', 385),
}
NAMES = ['bin', 'cbin_tmp', 'cbin', 'ch', 'bin_temp', 'sbin', 'sbin_temp', 'smeta']
# valid version-4 UUID strings (one.alf.spec.is_uuid_string), fixed so that runs are reproducible
UUIDS = ['12345678-90ab-4def-9234-567890abcdef', '2468acf1-2157-4bde-a468-acf121579bde',
         '369d0369-b203-49cd-b69d-0369b20369cd', '48d159e2-42af-47bc-88d1-59e242af37bc']
PATH_FORMS = ['Path', 'str', 'rel_Path', 'rel_str']
DTYPE_FORMS = [None, 'int16', 'np.int16', '<i2', 'np.dtype']


def _path_form(p, form):
    """The same file handed over as pathlib.Path / str, absolute / relative to the current directory."""
    p = Path(p)
    if form in ('rel_Path', 'rel_str'):
        p = Path(os.path.relpath(p))
    return str(p) if form in ('str', 'rel_str') else p


def _dtype_form(form):
    return {'int16': 'int16', 'np.int16': np.int16, '<i2': '<i2', 'np.dtype': np.dtype('int16')}[form]


def _same_file(a, b):
    return Path(a).resolve() == Path(b).resolve()



def _meta_text(flavour, nc, ns):
    import spikeglx
    src, kind, _, _ = FLAVOURS[flavour]
    md = spikeglx.read_meta_data(FIX / src)
    fs = spikeglx._get_fs_from_meta(md)
    out = []
    for line in (FIX / src).read_text().splitlines():
        k, v = line.split('=', 1)
        if k == 'fileSizeBytes':
            v = str(ns * nc * 2)
        elif k == 'fileTimeSecs':
            v = np.format_float_positional(ns / fs, unique=True)   # never scientific notation (that is C09's F12)
        elif kind == 'nidq' and k == 'nSavedChans':
            v = str(nc)
        elif kind == 'nidq' and k == 'snsMnMaXaDw':
            v = f'0,0,{nc - 1},1'
        out.append(f'{k}={v}')
    return '\n'.join(out) + '\n', float(fs)


class Rec:
    """One recording directory on disk plus everything needed to classify its files."""

    def __init__(self, p):
        """p: dict(flavour, nc, cs, sizes(list of chunk lengths), seed)"""
        import mtscomp
        _setup()
        self.p = p
        self.dir = Path(tempfile.mkdtemp(prefix='c02_'))
        self.scratch = self.dir / 'scratch'
        self.stem = FLAVOURS[p['flavour']][2]
        self.meta_stem = self.stem
        if p.get('uuid'):      # file names with a UUID part (as on SDSC): the same one everywhere, or one per dataset
            self.stem = self.stem + '.' + UUIDS[0]
            self.meta_stem = self.meta_stem + '.' + (UUIDS[0] if p['uuid'] == 'same' else UUIDS[3])
        self.nc, self.cs, self.sizes = p['nc'], p['cs'], list(p['sizes'])
        self.ns = sum(self.sizes)
        # the metadata may announce MORE or FEWER samples than are on disk (interrupted acquisition / late flush)
        self.meta_ns = max(1, self.ns + int(p.get('meta_delta', 0)))
        txt, self.fs = _meta_text(p['flavour'], self.nc, self.meta_ns)
        self.chunk_duration = self.cs / self.fs
        assert int(np.round(self.chunk_duration * self.fs)) == self.cs
        self.bounds = np.r_[0, np.cumsum(self.sizes)].astype(int)
        self.ver = {}
        v0 = self.ensure_version(0)
        self.D, self.raw_chunks, self.comp_chunks = v0['D'], v0['raw'], v0['comp']
        self.orig, self.ref_cbin, self.ref_ch = v0['bytes'], v0['cbin'], v0['ch']
        (self.dir / (self.meta_stem + '.meta')).write_text(txt)
        self.meta_text = txt

    def ensure_version(self, v):
        """Version v of the recording: same shape, other samples (v = 0 is the initial content).  Chunk ids of version v
        are 100 v + i (uncompressed) and 1000 + 100 v + i (compressed)."""
        import mtscomp
        if v in self.ver:
            return self.ver[v]
        rng = np.random.default_rng([int(self.p['seed']), 2, int(v)])
        D = rng.integers(-32768, 32768, size=(self.ns, self.nc), dtype=np.int16)
        if self.ns <= 32767:
            D[:, 0] = np.arange(self.ns, dtype=np.int16)      # row id in the first column: rows are identifiable
            if self.nc == 1 and v:
                D[:, 0] = np.arange(self.ns, dtype=np.int16) + np.int16(1000 * v)   # keep single-column versions distinct
        raw = [D[a:b].tobytes() for a, b in zip(self.bounds[:-1], self.bounds[1:])]
        assert len(set(raw)) == len(raw)
        # reference compressed chunks, produced by the dependency itself (not through the code under test)
        ref = self.dir / f'ref{v}'
        ref.mkdir()
        (ref / 'r.bin').write_bytes(D.tobytes())
        with _pool('serial'):
            mtscomp.compress(ref / 'r.bin', out=ref / 'r.cbin', outmeta=ref / 'r.ch', sample_rate=self.fs, n_channels=self.nc,
                             dtype=np.int16, chunk_duration=self.chunk_duration, n_threads=1)
        ch = json.loads((ref / 'r.ch').read_text())
        assert ch['chunk_bounds'] == [int(x) for x in self.bounds]
        cb = (ref / 'r.cbin').read_bytes()
        off = ch['chunk_offsets']
        comp = [cb[a:b] for a, b in zip(off[:-1], off[1:])]
        shutil.rmtree(ref)
        for w in self.ver.values():
            assert not (set(w['raw']) & set(raw)), 'versions must not share chunks'
        self.ver[v] = {'D': D, 'raw': raw, 'comp': comp, 'bytes': D.tobytes(), 'cbin': cb, 'ch': ch}
        return self.ver[v]

    def rewrite(self, v):
        """The environment replaces x.bin by version v (same ns, same nc)."""
        self.path('bin').write_bytes(self.ensure_version(v)['bytes'])

    # -- paths
    def path(self, name):
        d = {'bin': self.dir / (self.stem + '.bin'), 'cbin_tmp': self.dir / (self.stem + '.cbin_tmp'),
             'cbin': self.dir / (self.stem + '.cbin'), 'ch': self.dir / (self.stem + '.ch'),
             'bin_temp': self.dir / (self.stem + '.bin_temp'), 'meta': self.dir / (self.meta_stem + '.meta'),
             'sbin': self.scratch / (self.stem + '.bin'), 'sbin_temp': self.scratch / (self.stem + '.bin_temp'),
             'smeta': self.scratch / (self.stem + '.meta')}
        # (decompress_to_scratch names the copied metadata after the DATA file: bin_file.with_suffix('.meta'))
        return d[name]

    def header_for(self, k, v=0):
        """The .ch mtscomp writes for the first k chunks of version v."""
        w = self.ver[v]
        h = dict(w['ch'])
        h['chunk_bounds'] = [int(x) for x in self.bounds[:k + 1]]
        h['chunk_offsets'] = [int(x) for x in np.r_[0, np.cumsum([len(c) for c in w['comp'][:k]])]]
        h['sha1_compressed'] = hashlib.sha1(b''.join(w['comp'][:k])).hexdigest()
        h['sha1_uncompressed'] = hashlib.sha1(b''.join(w['raw'][:k])).hexdigest()
        h['shape'] = [int(self.bounds[k]), self.nc]
        return h

    def init(self, pattern):
        if pattern in ('bin', 'both'):
            self.path('bin').write_bytes(self.orig)
        if pattern in ('cbin', 'both'):
            self.path('cbin').write_bytes(self.ref_cbin)
            self.path('ch').write_text(json.dumps(self.header_for(len(self.sizes)), indent=2, sort_keys=True))

    # -- observation
    def snapshot(self):
        """name -> bytes | None for every modelled file."""
        out = {}
        for n in NAMES:
            p = self.path(n)
            out[n] = p.read_bytes() if p.exists() else None
        return out

    def extra_files(self):
        known = {self.path(n) for n in NAMES} | {self.path('meta')}
        return sorted(str(p.relative_to(self.dir)) for p in self.dir.rglob('*') if p.is_file() and p not in known)

    def _classify_raw(self, b):
        if b is None:
            return 'x'
        if len(b) == 0:
            return 'e'
        ids, pos = [], 0
        cands = [(100 * v + i, c) for v, w in sorted(self.ver.items()) for i, c in enumerate(w['raw'])]
        while pos < len(b):
            for i, c in cands:
                if b.startswith(c, pos):
                    ids.append(i); pos += len(c); break
            else:
                return '?' + '.'.join(map(str, ids)) + f'+{len(b) - pos}B'
        return '.'.join(map(str, ids))

    def _classify_comp(self, b):
        if b is None:
            return 'x'
        if len(b) == 0:
            return 'e'
        ids, pos = [], 0
        cands = [(1000 + 100 * v + i, c) for v, w in sorted(self.ver.items()) for i, c in enumerate(w['comp'])]
        while pos < len(b):
            for i, c in cands:
                if b.startswith(c, pos):
                    ids.append(i); pos += len(c); break
            else:
                return '?' + '.'.join(map(str, ids)) + f'+{len(b) - pos}B'
        return '.'.join(map(str, ids))

    def _classify_ch(self, b):
        if b is None:
            return 'x'
        try:
            h = json.loads(b.decode())
        except Exception:
            return '?json'
        for v in sorted(self.ver):
            for k in range(len(self.sizes) + 1):
                if h == self.header_for(k, v):
                    return '.'.join(str(1000 + 100 * v + i) for i in range(k)) if k else 'e'
        return '?hdr'

    def state_string(self, snap=None):
        s = snap or self.snapshot()
        smeta = 'x' if s['smeta'] is None else ('1' if s['smeta'].decode() == self.meta_text else '?')
        return (f"bin={self._classify_raw(s['bin'])} cbin_tmp={self._classify_comp(s['cbin_tmp'])} cbin={self._classify_comp(s['cbin'])} "
                f"ch={self._classify_ch(s['ch'])} bin_temp={self._classify_raw(s['bin_temp'])} sbin={self._classify_raw(s['sbin'])} "
                f"sbin_temp={self._classify_raw(s['sbin_temp'])} smeta={'0' if smeta == 'x' else smeta}")

    def n_chunks_of(self, name):
        """Number of chunks the file holds (for deciding whether an injected fault can fire)."""
        p = self.path(name)
        if not p.exists():
            return 0
        if name == 'bin':
            size = p.stat().st_size
            frame = self.cs * self.nc * 2
            return -(-size // frame)
        txt = self._classify_comp(p.read_bytes())
        return 0 if txt in ('x', 'e') or txt.startswith('?') else len(txt.split('.'))

    def close(self):
        import mtscomp
        _SETUP['closed'] = _SETUP.get('closed', 0) + 1
        if mtscomp.ThreadPool is not _SerialPool or _SETUP['closed'] % 25 == 0:
            gc.collect()       # pools leaked by calls that raised are terminated here
        shutil.rmtree(self.dir, ignore_errors=True)


# ---------------------------------------------------------------------------------------------
# running calls on the real code
# ---------------------------------------------------------------------------------------------
@contextlib.contextmanager
def _inject(kind, k, fired):
    """Raise Boom while chunk k is compressed (kind='c') / decompressed (kind='d')."""
    import mtscomp
    if k is None:
        yield
        return
    if kind == 'c':
        orig = mtscomp.Writer._compress_chunk

        def patched(self, idx):
            if idx == k:
                fired.append(idx)
                raise Boom(f'injected at compression chunk {k}')
            return orig(self, idx)
        mtscomp.Writer._compress_chunk = patched
        try:
            yield
        finally:
            mtscomp.Writer._compress_chunk = orig
    else:
        orig = mtscomp.Reader._decompress_chunk

        def patched(self, idx):
            if idx == k:
                fired.append(idx)
                raise Boom(f'injected at decompression chunk {k}')
            return orig(self, idx)
        mtscomp.Reader._decompress_chunk = patched
        try:
            yield
        finally:
            mtscomp.Reader._decompress_chunk = orig


class _SerialPool:
    """Stand-in for multiprocessing.pool.ThreadPool inside mtscomp: same batch semantics (all chunks of a batch are
    produced before any is written; an exception in one of them aborts the batch), no threads.  mtscomp creates one pool
    per call and leaks it when the call raises; with real pools most of the run time is spent starting/terminating them."""

    def __init__(self, n=None):
        self.n = n

    def map(self, f, it):
        return [f(x) for x in it]

    def close(self):
        pass

    def join(self):
        pass

    def terminate(self):
        pass


@contextlib.contextmanager
def _pool(mode):
    """mode 'serial': mtscomp runs with the stand-in pool; 'real': with multiprocessing's ThreadPool."""
    import mtscomp
    orig = mtscomp.ThreadPool
    if mode != 'real':
        mtscomp.ThreadPool = _SerialPool
    try:
        yield
    finally:
        mtscomp.ThreadPool = orig


@contextlib.contextmanager
def _default_threads(t):
    """mtscomp's default n_threads (what a ~/.mtscomp file would set); used by decompress_to_scratch."""
    import mtscomp
    base = _SETUP['default_config']
    mtscomp.DEFAULT_CONFIG = [(k, (t if k == 'n_threads' else v)) for k, v in base]
    try:
        yield
    finally:
        mtscomp.DEFAULT_CONFIG = list(base)


def _err_name(e):
    if isinstance(e, Boom):
        return 'err Fault'
    if isinstance(e, OSError) and not isinstance(e, FileNotFoundError):
        return 'err OSError'          # PermissionError, IsADirectoryError, ... raised by a rename / move
    return 'err ' + type(e).__name__


@contextlib.contextmanager
def _publish_fault(how, rec, kind):
    """Make the system call that PUBLISHES the finished temporary file fail.
    how = 'patch': pathlib.Path.rename (compress_file: destination *.cbin) / shutil.move (decompress_to_scratch: destination
    *.bin) raise PermissionError for that destination only;  how = 'dir' (compress_file only): a directory sits at x.cbin,
    so the real rename raises IsADirectoryError — no monkeypatching; the obstacle is removed after the call."""
    import pathlib
    import shutil as _sh
    if not how:
        yield
        return
    if how == 'dir':
        rec.path('cbin').mkdir()
        try:
            yield
        finally:
            if rec.path('cbin').is_dir():
                _sh.rmtree(rec.path('cbin'))
        return
    # Whatever primitive the code uses to publish (Path.rename, Path.replace, os.rename, os.replace, shutil.move) is refused
    # for the final destination only: the fault point is "the publishing step", not one particular library call, so that a
    # rewrite from shutil.move to Path.replace (same directory) keeps meeting the same fault.
    import os as _os
    suffix = '.cbin' if kind == 'compress' else '.bin'

    def refuse(dst):
        try:
            return Path(_os.fspath(dst)).suffix == suffix
        except TypeError:
            return False

    def guard(orig, dst_index):
        def wrapped(*a, **kw):
            dst = a[dst_index] if len(a) > dst_index else kw.get('target', kw.get('dst'))
            if dst is not None and refuse(dst):
                raise PermissionError(13, 'injected: publishing the finished file under its final name refused', str(dst))
            return orig(*a, **kw)
        return wrapped
    saved = [(pathlib.Path, 'rename', pathlib.Path.rename, 1), (pathlib.Path, 'replace', pathlib.Path.replace, 1),
             (_os, 'rename', _os.rename, 1), (_os, 'replace', _os.replace, 1), (_sh, 'move', _sh.move, 1)]
    for obj, name, orig, di in saved:
        setattr(obj, name, guard(orig, di))
    try:
        yield
    finally:
        for obj, name, orig, di in saved:
            setattr(obj, name, orig)


XF_COMPRESS = ('pre_header', 'pre_check', 'pre_unlink')
XF_DECOMPRESS = ('pre_unlink_cbin', 'pre_unlink_ch')


@contextlib.contextmanager
def _inject_x(xf, fired):
    """Interruption BETWEEN two file-system effects of a call (an exception raised by whatever comes next, before it acts):
    compress_file:  'pre_header'  all chunks are in x.cbin_tmp, x.ch not yet opened (raised by the pool's join(): stand-in pool only)
                    'pre_check'   x.ch written, mtscomp's check not yet run (mtscomp.check raises)
                    'pre_unlink'  x.cbin_tmp renamed to x.cbin, the source not yet removed (the unlink of *.bin raises)
    decompress_file(keep_original=False): 'pre_unlink_cbin' / 'pre_unlink_ch'  x.bin complete, the unlink of *.cbin / *.ch raises
    Whatever primitive removes a file (Path.unlink, os.unlink, os.remove) is refused for that suffix only."""
    import mtscomp
    import pathlib
    import os as _os
    if not xf:
        yield
        return
    if xf == 'pre_header':
        orig = _SerialPool.join

        def join(self):
            fired.append(xf)
            raise Boom('injected between the last chunk and the header')
        _SerialPool.join = join
        try:
            yield
        finally:
            _SerialPool.join = orig
        return
    if xf == 'pre_check':
        orig = mtscomp.check

        def check(*a, **kw):
            fired.append(xf)
            raise Boom('injected between the header and the check')
        mtscomp.check = check
        try:
            yield
        finally:
            mtscomp.check = orig
        return
    suffix = {'pre_unlink': '.bin', 'pre_unlink_cbin': '.cbin', 'pre_unlink_ch': '.ch'}[xf]

    def guard(orig):
        def wrapped(*a, **kw):
            try:
                hit = Path(_os.fspath(a[0])).suffix == suffix
            except Exception:
                hit = False
            if hit:
                fired.append(xf)
                raise Boom(f'injected before the removal of {a[0]}')
            return orig(*a, **kw)
        return wrapped
    saved = [(pathlib.Path, 'unlink', pathlib.Path.unlink), (_os, 'unlink', _os.unlink), (_os, 'remove', _os.remove)]
    for obj, name, orig in saved:
        setattr(obj, name, guard(orig))
    try:
        yield
    finally:
        for obj, name, orig in saved:
            setattr(obj, name, orig)


def _stale_cbin(rec):
    """x.bin and x.cbin both present and x.cbin is not exactly the compressed image of the current x.bin (other version,
    or another number of chunks)."""
    pb, pc = rec.path('bin'), rec.path('cbin')
    if not (pb.is_file() and pc.is_file()):
        return False
    raw = rec._classify_raw(pb.read_bytes())
    comp = rec._classify_comp(pc.read_bytes())
    if raw in ('x', 'e') or raw.startswith('?'):
        return True
    return comp != '.'.join(str(1000 + int(i)) for i in raw.split('.'))


def _suffix_name(p):
    if p is None:
        return 'none'
    s = Path(p).suffix
    return {'.bin': 'bin', '.cbin': 'cbin'}.get(s, s)


def _reopen_same_object(sr):
    """'' when sr.open() on the object left by an in-place call shows the same recording as a fresh Reader on sr.file_bin,
    else a description (appended to the outcome, so that it disagrees with the model's plain 'ok')"""
    import spikeglx
    try:
        fresh = spikeglx.Reader(sr.file_bin)
    except Exception:     # the published file itself is judged elsewhere
        return ''
    try:
        try:
            sr.close()
        except Exception:
            pass
        sr.open()
        if tuple(sr.shape) != tuple(fresh.shape):
            return f' reopen-differs: the same reader object re-opened has shape {tuple(sr.shape)}, a fresh Reader on {Path(sr.file_bin).name} has {tuple(fresh.shape)}'
        n = fresh.shape[0]
        for sl in (slice(0, min(n, 50)), slice(max(0, n - 50), n)):
            a, b = sr[sl, :], fresh[sl, :]
            if a.shape != b.shape or not np.array_equal(a, b):
                return f' reopen-differs: the same reader object re-opened returns other values / shape {a.shape} for rows {sl.start}:{sl.stop} than a fresh Reader ({b.shape})'
        return ''
    except Exception as e:     # noqa
        return f' reopen-differs: re-opening the same reader object raised {type(e).__name__}: {e}'[:200]
    finally:
        try:
            fresh.close()
        except Exception:
            pass


class Engine:
    """Executes the calls of one case on the real code."""

    def __init__(self, rp, init, tdef):
        self.rec = Rec(rp)
        self.rec.init(init)
        self.tdef = tdef
        self.readers = []

    def open_entry(self, entry, form='Path', dtype=None):
        """spikeglx.Reader(path) -> (result string, reader or None); `form`: how the path is spelled, `dtype`: how int16 is spelled"""
        import spikeglx
        path = _path_form(self.rec.path({'bin': 'bin', 'cbin': 'cbin', 'meta': 'meta'}[entry]), form)
        kw = {'dtype': _dtype_form(dtype)} if dtype else {}
        try:
            sr = spikeglx.Reader(path, **kw)
        except Exception as e:
            return _err_name(e), None
        if sr.file_bin is None:
            return 'ok none', sr
        return 'ok ' + _suffix_name(sr.file_bin), sr

    def call(self, sr, op):
        """op: dict(op, keep, overwrite, scratch, k, T).  Returns (outcome string, model line)."""
        rec = self.rec
        fb = _suffix_name(sr.file_bin)
        kind = op['op']
        k, T = op.get('k'), op.get('T', 1)
        fired = []
        pf = op.get('pf')
        if kind == 'compress' and pf:
            if _stale_cbin(rec):
                pf = None      # excluded class (known finding compress_rename_failure_next_to_stale_cbin_orphans_header)
            elif pf == 'dir' and rec.path('cbin').exists():
                pf = 'patch'
        if kind == 'decompress':
            pf = None
        # interruption between two effects (only on calls without another fault; 'pre_header' needs the stand-in pool)
        import mtscomp as _m
        xf = op.get('xf') if (k is None and not pf) else None
        if xf == 'pre_header' and _m.ThreadPool is not _SerialPool:
            xf = None
        if kind == 'compress' and xf == 'pre_check' and _stale_cbin(rec):
            xf = None          # x.ch already rewritten, x.cbin_tmp not yet renamed, next to a stale x.cbin: the same excluded class as the failing rename
        xfired = []
        stale_out = (kind == 'decompress' and bool(op.get('overwrite')) and rec.path('bin').exists())
        stale_tmp = (kind == 'toscratch' and rec.path('sbin_temp' if op.get('scratch') else 'bin_temp').exists())
        try:
            if kind == 'compress':
                n_src = rec.n_chunks_of('bin')
                with _inject('c', k, fired), _publish_fault(pf, rec, 'compress'), _inject_x(xf if xf in XF_COMPRESS else None, xfired):
                    if op.get('pos'):     # keep_original passed positionally
                        ret = sr.compress_file(bool(op['keep']), chunk_duration=rec.chunk_duration, n_threads=T)
                    else:
                        ret = sr.compress_file(keep_original=bool(op['keep']), chunk_duration=rec.chunk_duration, n_threads=T)
                out = 'ok' if _same_file(ret, rec.path('cbin')) else f'ok(ret={Path(ret).name})'
            elif kind == 'decompress':
                n_src = rec.n_chunks_of('cbin')
                kw = dict(n_threads=T)
                if op['overwrite']:
                    kw['overwrite'] = True
                with _inject('d', k, fired), _inject_x(xf if xf in XF_DECOMPRESS else None, xfired):
                    if op.get('pos'):
                        ret = sr.decompress_file(bool(op['keep']), **kw)
                    else:
                        ret = sr.decompress_file(keep_original=bool(op['keep']), **kw)
                out = 'ok' if _same_file(ret, rec.path('bin')) else f'ok(ret={Path(ret).name})'
            else:
                n_src = rec.n_chunks_of('cbin')
                T = self.tdef
                with _default_threads(self.tdef), _inject('d', k, fired), _publish_fault('patch' if pf else None, rec, 'toscratch'):
                    sdir = _path_form(rec.scratch, 'rel_Path' if op.get('srel') else 'Path') if op['scratch'] else None
                    if op.get('pos') and op['scratch']:
                        ret = sr.decompress_to_scratch(sdir)
                    else:
                        ret = sr.decompress_to_scratch(scratch_dir=sdir)
                want = rec.path('sbin') if op['scratch'] else rec.path('bin')
                out = 'ok' if _same_file(ret, want) else f'ok(ret={Path(ret).name})'
        except Exception as e:   # noqa
            out = _err_name(e)
        # "the current Reader object is modified in place": after a successful in-place call the SAME object, re-opened, must show
        # the recording exactly as a fresh Reader on the new file does (shape and every value)
        # Demanded only where the property speaks: the call ran to completion without an injected fault (the published file is
        # complete) on a reader opened for this call.  (Corrected after a false alarm of the thorough tier: a reader object
        # opened EARLIER in the history caches the size of a file that later calls rewrote or left partial — plain decompress_file
        # is not atomic and the property does not claim it — and fails to re-open for that reason, not because of this call.)
        if (out == 'ok' and kind in ('compress', 'decompress') and not op['keep'] and op.get('reopen', 1)
                and not fired and not xfired and not pf and k is None and str(op.get('reader', 'new')).startswith('new')):
            out += _reopen_same_object(sr)
        j = 'N' if (k is None or k >= n_src) else str((k // T) * T)
        # the model line: the call with its fault point (FsCompress.step), or — for an interruption between two effects, and for
        # every second fired chunk fault — the PREFIX of the effect list (FsCompressEffects.crash…: k primitive effects)
        as_prefix = bool(fired) and j != 'N' and op.get('as_prefix')
        self.last_crash = None
        if kind == 'compress':
            line = f"compress {fb} {int(op['keep'])} {j} {int(bool(pf))}"
            if xfired:
                kk = n_src + {'pre_header': 1, 'pre_check': 2, 'pre_unlink': 3}[xfired[0]]
                line = f"crash compress {fb} {int(op['keep'])} {kk}"
            elif as_prefix:
                line = f"crash compress {fb} {int(op['keep'])} {int(j) + 1}"
        elif kind == 'decompress':
            line = f"decompress {fb} {int(op['keep'])} {int(op['overwrite'])} {j}"
            if xfired:
                kk = int(stale_out) + n_src + {'pre_unlink_cbin': 1, 'pre_unlink_ch': 2}[xfired[0]]
                line = f"crash decompress {fb} {int(op['keep'])} {int(op['overwrite'])} {kk}"
            elif as_prefix:
                line = f"crash decompress {fb} {int(op['keep'])} {int(op['overwrite'])} {int(stale_out) + int(j) + 1}"
        else:
            line = f"toscratch {fb} {int(op['scratch'])} {j} {int(bool(pf))}"
            if as_prefix:
                line = f"crash toscratch {fb} {int(op['scratch'])} {int(bool(op['scratch'])) + int(stale_tmp) + int(j) + 1}"
        if line.startswith('crash'):
            self.last_crash = line
        self.last_pf = pf
        self.last_xf = xfired[0] if xfired else None
        return out, _suffix_name(sr.file_bin), line, bool(fired) or bool(xfired) or (bool(pf) and out == 'err OSError')

    def close(self):
        for sr in self.readers:
            try:
                sr.close()
            except Exception:
                pass
        self.readers = []
        self.rec.close()


# ---------------------------------------------------------------------------------------------
# generators
# ---------------------------------------------------------------------------------------------
def _gen_recording(rng, small=False):
    fl = rng.choice(['nidq'] * 6 + ['3A', '3A_277', '3B', '3B_lf', 'NP2.1', 'NP2.4', 'NPultra'])
    fixed = FLAVOURS[fl][3]
    if fixed:
        nc = fixed
    else:
        nc = int(rng.choice([1, 2, 3, 4, 16, 17, 383, 384, 385, int(rng.integers(1, 386)), int(rng.integers(1, 40))]))
    cs = int(rng.integers(8, 61)) if nc > 100 else int(rng.integers(8, 200 if not small else 61))
    n = int(rng.choice([1, 2, 2, 3, 3, 4, 5, 6, 7]))
    last = cs if rng.random() < 0.2 else int(rng.choice([1, cs - 1, int(rng.integers(1, cs + 1))]))
    sizes = [cs] * (n - 1) + [max(1, last)]
    return {'flavour': str(fl), 'nc': nc, 'cs': cs, 'sizes': sizes, 'seed': int(rng.integers(0, 2 ** 31))}


def _gen_op(rng, n, fb):
    """One call, mostly valid for a reader whose file_bin is `fb` (10 % of the calls are the ones the code must refuse)."""
    if fb == 'bin':
        kind = str(rng.choice(['compress'] * 8 + ['decompress'] + ['toscratch']))
    else:
        kind = str(rng.choice(['compress'] + ['decompress'] * 4 + ['toscratch'] * 5))
    op = {'op': kind}
    if rng.random() < 0.55:
        op['k'] = int(rng.integers(0, n + 1)) if rng.random() < 0.1 else int(rng.integers(0, n))
    else:
        op['k'] = None
    if kind == 'compress':
        op['keep'] = bool(rng.random() < 0.5)
        op['T'] = int(rng.choice([1, 1, 2, 3]))
    elif kind == 'decompress':
        op['keep'] = bool(rng.random() < 0.5)
        op['overwrite'] = bool(rng.random() < 0.5)
        op['T'] = int(rng.choice([1, 1, 2, 3]))
    else:
        op['scratch'] = bool(rng.random() < 0.5)
    # call spelling: keep_original / scratch_dir positionally or by keyword; scratch directory relative to the cwd
    op['pos'] = bool(rng.random() < 0.4)
    if kind == 'toscratch':
        op['srel'] = bool(rng.random() < 0.4)
    # the rename / move that publishes the result fails (mostly on calls with no chunk fault, where it is reached)
    if kind != 'decompress' and rng.random() < (0.3 if op['k'] is None else 0.05):
        op['pf'] = str(rng.choice(['patch', 'dir'])) if kind == 'compress' else 'patch'
    # interruption between two effects of the call (used when no other fault is set); prefix form of the model line for chunk faults
    u = rng.random()
    if kind == 'compress' and u < 0.3:
        op['xf'] = str(rng.choice(XF_COMPRESS))
    elif kind == 'decompress' and u < 0.3:
        op['xf'] = str(rng.choice(XF_DECOMPRESS))
    op['as_prefix'] = bool(rng.random() < 0.5)
    return op


def _pick_reader(rng, eng, n_old):
    """'new:<entry>' or 'old:<i>'"""
    if n_old and rng.random() < 0.3:
        return f'old:{int(rng.integers(0, n_old))}'
    exists = [e for e, nm in (('bin', 'bin'), ('cbin', 'cbin')) if eng.rec.path(nm).exists()]
    cand = exists + ['meta'] if rng.random() < 0.8 and exists else ['bin', 'cbin', 'meta']
    return 'new:' + str(rng.choice(cand))


# ---------------------------------------------------------------------------------------------
# one file-system case: run the real code, collect (model line, implementation answer)
# ---------------------------------------------------------------------------------------------
def _run_fs_case(case, rng=None, n_ops=None, hook=None):
    """Executes case['ops'] (or generates n_ops calls with rng, recording them into case['ops']).
    Returns list of (line, impl_answer, info); `hook(eng, step_info)` may observe every call (used by the oracle)."""
    with _pool(case.get('pool', 'serial')):
        return _run_fs_case_inner(case, rng, n_ops, hook)


def _run_fs_case_inner(case, rng, n_ops, hook):
    eng = Engine(case['rec'], case['init'], case['tdef'])
    rec = eng.rec
    out = []
    cwd = os.getcwd()
    os.chdir(rec.dir.parent)       # relative path forms are relative to the parent of the recording directory
    try:
        n = len(rec.sizes)
        out.append((f"init {n} {case['init']}", rec.state_string(), {'kind': 'init'}))

        def opens():
            for ei, e in enumerate(('bin', 'cbin', 'meta')):
                state['opens'] += 1
                res, sr = eng.open_entry(e, PATH_FORMS[(state['opens'] + ei) % 4], DTYPE_FORMS[(state['opens'] // 3) % 5])
                recd = 'x'
                if sr is not None and sr.file_bin is not None:
                    eng.readers.append(sr)
                    try:
                        raw = np.asarray(sr._raw[:, :]) if sr.ns > 0 else np.zeros((0, rec.nc), np.int16)
                        recd = rec._classify_raw(raw.astype(np.int16).tobytes())
                    except Exception as ex:   # noqa
                        recd = '!' + type(ex).__name__
                out.append((f'open {e}', f'{res} rec={recd}', {'kind': 'open', 'entry': e}))
        state = {'rewrites': 0, 'opens': 0}
        opens()
        generate = rng is not None
        ops = [] if generate else case['ops']
        pool = []
        i = 0
        while (generate and i < n_ops) or (not generate and i < len(ops)):
            if generate and rng.random() < 0.12:
                op = {'op': 'rewrite', 'v': int(rng.choice([1, 1, 2, 2, 0]))}
                ops.append(op)
            elif generate:
                who = _pick_reader(rng, eng, len(pool))
                if who.startswith('old'):
                    fb_guess = _suffix_name(pool[int(who[4:])].file_bin)
                elif who == 'new:meta':
                    fb_guess = 'bin' if rec.path('bin').exists() else 'cbin'
                else:
                    fb_guess = who[4:]
                op = _gen_op(rng, n, fb_guess)
                op['reader'] = who
                if who.startswith('new'):
                    op['pform'] = str(rng.choice(PATH_FORMS))
                    if rng.random() < 0.3:
                        op['dform'] = str(rng.choice(DTYPE_FORMS[1:]))
                ops.append(op)
            else:
                op = ops[i]
            i += 1
            if op['op'] == 'rewrite':
                # the environment replaces x.bin (same shape, other content); earlier outputs stay where they are
                before = rec.snapshot() if hook else None
                rec.rewrite(op['v'])
                after = rec.snapshot()
                info = {'kind': 'rewrite', 'op': op, 'i': i - 1}
                out.append((f"rewrite {op['v']} {n}", f'rewritten | {rec.state_string(after)}', info))
                state['rewrites'] += 1
                if hook:
                    hook(eng, info, before, after, None)
                opens()
                continue
            how, what = op['reader'].split(':')
            if how == 'new':
                res, sr = eng.open_entry(what, op.get('pform', 'Path'), op.get('dform'))
                if sr is None or sr.file_bin is None:
                    # no reader to call on; the open itself was compared by `opens()`; record and continue
                    op['skipped'] = True
                    continue
                eng.readers.append(sr)
                pool.append(sr)
                stale = False
            else:
                idx = int(what)
                if idx >= len(pool):
                    op['skipped'] = True
                    continue
                sr = pool[idx]
                stale = True
            op.pop('skipped', None)
            before = rec.snapshot() if hook else None
            fb_before = _suffix_name(sr.file_bin)
            stale_outputs = _stale_outputs(rec)
            outcome, fb_after, line, fired = eng.call(sr, op)
            info = {'kind': 'call', 'op': op, 'fired': fired, 'stale': stale, 'outcome': outcome, 'fb_before': fb_before,
                    'fb_after': fb_after, 'i': i - 1, 'rewrites': state['rewrites'], 'stale_outputs': stale_outputs,
                    'xf': eng.last_xf, 'crash_line': eng.last_crash}
            after = rec.snapshot()
            extra = rec.extra_files()
            ans = f'{outcome} fb={fb_after} | {rec.state_string(after)}' + (f' extra={extra}' if extra else '')
            out.append((line, ans, info))
            if hook:
                hook(eng, info, before, after, sr)
            opens()
        if generate:
            case['ops'] = ops
        return out
    finally:
        os.chdir(cwd)
        eng.close()


def _stale_outputs(rec):
    """x.bin present together with an earlier output (.cbin / scratch .bin) that holds ANOTHER version of the recording."""
    pb = rec.path('bin')
    if not pb.exists() or pb.stat().st_size == 0:
        return False
    cur = pb.read_bytes()
    vb = [v for v, w in rec.ver.items() if cur.startswith(w['raw'][0])]
    if not vb:
        return False
    for nm, key in (('cbin', 'comp'), ('sbin', 'raw')):
        q = rec.path(nm)
        if q.exists() and q.stat().st_size:
            other = q.read_bytes()
            if not other.startswith(rec.ver[vb[0]][key][0]):
                return True
    return False


def _nc_tag(nc):
    return 'nc=1' if nc == 1 else 'nc=2..16' if nc <= 16 else 'nc=17..383' if nc < 384 else f'nc={nc}'


def _fs_cases(ctx, count):
    rng = ctx.rng
    cases = []
    for _ in range(count):
        rp = _gen_recording(rng, small=True)
        if rng.random() < 0.25:
            rp['uuid'] = 'same'
        cases.append({'rec': rp, 'init': str(rng.choice(['bin'] * 7 + ['cbin'] * 2 + ['both'])),
                      'tdef': int(rng.choice([1, 2, 3, 16])), 'n_ops': int(rng.integers(3, 9)),
                      'sub': int(rng.integers(0, 2 ** 31)), 'pool': 'real' if rng.random() < 0.12 else 'serial'})
    return cases


def _all_ops(n, prefix_forms=True):
    """Every call (reader entry x kind x flags x fault point — chunk faults, failing rename / move, interruption between two
    effects) on a recording of n chunks, single-threaded; with `prefix_forms` every chunk fault of compress / toscratch (and
    decompress with overwrite) a second time with the model line in its prefix-of-the-effect-list form."""
    ops = []
    faults = [None] + list(range(n))
    for e in ('bin', 'cbin', 'meta'):
        for k in faults:
            for keep in (True, False):
                ops.append({'op': 'compress', 'k': k, 'keep': keep, 'T': 1, 'reader': 'new:' + e})
                if k is not None and prefix_forms:
                    ops.append({'op': 'compress', 'k': k, 'keep': keep, 'T': 1, 'reader': 'new:' + e, 'as_prefix': True})
                for ov in (True, False):
                    ops.append({'op': 'decompress', 'k': k, 'keep': keep, 'overwrite': ov, 'T': 1, 'reader': 'new:' + e})
            for scr in (True, False):
                ops.append({'op': 'toscratch', 'k': k, 'scratch': scr, 'reader': 'new:' + e})
                if k is not None and prefix_forms:
                    ops.append({'op': 'toscratch', 'k': k, 'scratch': scr, 'reader': 'new:' + e, 'as_prefix': True})
                    ops.append({'op': 'decompress', 'k': k, 'keep': scr, 'overwrite': True, 'T': 1, 'reader': 'new:' + e, 'as_prefix': True})
        for keep in (True, False):
            for pf in ('patch', 'dir'):
                ops.append({'op': 'compress', 'k': None, 'keep': keep, 'T': 1, 'reader': 'new:' + e, 'pf': pf})
            for xf in XF_COMPRESS:
                ops.append({'op': 'compress', 'k': None, 'keep': keep, 'T': 1, 'reader': 'new:' + e, 'xf': xf})
        for ov in (True, False):
            for xf in XF_DECOMPRESS:
                ops.append({'op': 'decompress', 'k': None, 'keep': False, 'overwrite': ov, 'T': 1, 'reader': 'new:' + e, 'xf': xf})
        for scr in (True, False):
            ops.append({'op': 'toscratch', 'k': None, 'scratch': scr, 'reader': 'new:' + e, 'pf': 'patch'})
    return ops


def _state_makers():
    """Call prefixes that produce the distinct interesting directories (both files, compressed only, torn .bin, partial
    temporaries, scratch copy) — and histories in which x.bin is REPLACED while earlier outputs are still present."""
    cK = {'op': 'compress', 'k': None, 'keep': True, 'T': 1, 'reader': 'new:meta'}
    return [[cK],
            [{'op': 'compress', 'k': None, 'keep': False, 'T': 1, 'reader': 'new:meta'}],
            [{'op': 'compress', 'k': 1, 'keep': False, 'T': 1, 'reader': 'new:meta'}],
            [{'op': 'decompress', 'k': 1, 'keep': True, 'overwrite': True, 'T': 1, 'reader': 'new:cbin'}],
            [{'op': 'decompress', 'k': None, 'keep': False, 'overwrite': True, 'T': 1, 'reader': 'new:cbin'}],
            [{'op': 'toscratch', 'k': None, 'scratch': True, 'reader': 'new:cbin'}],
            [{'op': 'toscratch', 'k': 1, 'scratch': False, 'reader': 'new:cbin'}],
            [{'op': 'toscratch', 'k': 1, 'scratch': True, 'reader': 'new:cbin'}]] + _rewrite_prefixes()


def _rewrite_prefixes():
    cK = {'op': 'compress', 'k': None, 'keep': True, 'T': 1, 'reader': 'new:meta'}
    rw = {'op': 'rewrite', 'v': 1}
    return [[cK, rw],                                                                        # stale complete .cbin/.ch
            [cK, {'op': 'toscratch', 'k': None, 'scratch': True, 'reader': 'new:cbin'}, rw],   # + stale scratch copy
            [{'op': 'compress', 'k': 1, 'keep': True, 'T': 1, 'reader': 'new:meta'}, rw],     # stale partial .cbin_tmp
            [rw]]


def _exhaustive_cases(rp, depth, inits=('bin', 'cbin', 'both')):
    """depth 1: every single call; depth 2: every call after every state-making prefix; depth 'rw': every call after
    every prefix that replaces x.bin."""
    n = len(rp['sizes'])
    out = []
    prefixes = [[]] if depth == 1 else _state_makers() if depth == 2 else _rewrite_prefixes()
    for init in inits:
        for op in _all_ops(n, prefix_forms=(depth == 1)):
            for pre in prefixes:
                out.append({'rec': rp, 'init': init, 'tdef': 1, 'ops': [dict(o) for o in pre] + [dict(op)]})
    return out


def _case_desc(case, upto=None):
    ops = [o for o in case.get('ops', [])]
    if upto is not None:
        ops = ops[:upto + 1]
    return {'rec': case['rec'], 'init': case['init'], 'tdef': case['tdef'], 'pool': case.get('pool', 'serial'), 'ops': ops}


def correspondence_fs(ctx, count):
    lines, impl, meta = [], [], []
    for case in _fs_cases(ctx, count):
        sub = np.random.default_rng([ctx.seed, 2, case['sub']])
        res = _run_fs_case(case, rng=sub, n_ops=case['n_ops'])
        for line, ans, info in res:
            lines.append(line); impl.append(ans); meta.append((case, info))
    # exhaustive box: every single call (quick) / every pair (state maker, call) (thorough) on a small recording
    # (a quick run escalated by a broken translator tie runs at an intermediate depth: two chunks, every third pair)
    mid = (ctx.tier == 'quick' and not ctx.quick)
    box = {'flavour': 'nidq', 'nc': int(ctx.rng.choice([1, 2, 3])), 'cs': 8, 'sizes': [8, 5] if (ctx.quick or mid) else [8, 8, 5],
           'seed': int(ctx.rng.integers(0, 2 ** 31))}
    if ctx.quick:
        ex = _exhaustive_cases(box, 1) + _exhaustive_cases(box, 'rw', inits=('bin',))[::2]
    elif mid:
        ex = _exhaustive_cases(box, 1) + _exhaustive_cases(box, 'rw', inits=('bin',)) + _exhaustive_cases(box, 2)[::3]
    else:
        ex = _exhaustive_cases(box, 1) + _exhaustive_cases(box, 2)
    for case in ex:
        for line, ans, info in _run_fs_case(case):
            if info['kind'] != 'open' or not ctx.quick or True:
                lines.append(line); impl.append(ans); meta.append((case, dict(info, box=True)))
    ctx.note(f'exhaustive box: {len(ex)} cases = every call (entry point x kind x keep/overwrite/scratch x fault at each chunk) '
             f'{"" if ctx.quick else "and every third pair (state-making first call, call) " if mid else "after every state-making first call "}'
             f'from each initial directory, recording {box}')
    model = ctx.lean(lines)
    for line, a, m, (case, info) in zip(lines, impl, model, meta):
        rp = case['rec']
        nch = len(rp['sizes'])
        if info['kind'] == 'init':
            ctx.compare('init', {'fs': _case_desc(case, -1), 'line': line}, a, m, nontrivial=False, tags=('fs:init', 'init=' + case['init']))
        elif info['kind'] == 'rewrite':
            ctx.compare('rewrite', {'fs': _case_desc(case, info['i'])}, a, m, nontrivial=True, tags=('fs:rewrite',))
        elif info['kind'] == 'open':
            ctx.compare('open', {'fs': _case_desc(case), 'after': line, 'n': len(lines)}, a, m, nontrivial=False,
                        tags=('fs:open', 'open:' + a.split(' rec=')[0]))
        else:
            op = info['op']
            tags = ['fs:' + op['op'], 'fault_fired' if info['fired'] else ('fault_not_reached' if op.get('k') is not None else 'no_fault'),
                    'outcome:' + info['outcome'], 'reader:' + ('stale' if info['stale'] else op['reader']),
                    'chunks=' + ('1' if nch == 1 else '2-3' if nch <= 3 else '4-7'),
                    'last_chunk=' + ('full' if rp['sizes'][-1] == rp['cs'] else 'short'), _nc_tag(rp['nc']), 'flavour=' + rp['flavour'],
                    'init=' + case['init'], 'pool=' + case.get('pool', 'serial')]
            if info.get('box'):
                tags.append('exhaustive_box')
            tags.append('spelling=' + ('positional' if op.get('pos') else 'keyword'))
            if op['reader'].startswith('new'):
                tags.append('path=' + op.get('pform', 'Path'))
                if op.get('dform'):
                    tags.append('dtype=' + op['dform'])
            if rp.get('uuid'):
                tags.append('uuid_in_names=' + rp['uuid'])
            if op.get('pf'):
                tags.append('publish_fault=' + ('fired' if info['outcome'] == 'err OSError' else 'not_reached'))
            if info.get('xf'):
                tags.append('interrupted_between_effects=' + info['xf'])
            if info.get('crash_line'):
                tags.append('model=prefix_of_effect_list')
            if info.get('rewrites'):
                tags.append('after_rewrite_of_bin')
            if info.get('stale_outputs'):
                tags.append('stale_cbin_or_scratch_present')
            if 'keep' in op:
                tags.append(f"keep={op['keep']}")
            if op['op'] == 'toscratch':
                tags.append(f"scratch_dir={op['scratch']}")
            ctx.compare(op['op'], {'fs': _case_desc(case, info['i'])}, a, m,
                        nontrivial=(info['fired'] or nch >= 2 or bool(info.get('stale_outputs'))), tags=tuple(tags))


# ---------------------------------------------------------------------------------------------
# reads: transparency of the compressed backend
# ---------------------------------------------------------------------------------------------
def _sel_to_py(sel):
    if sel[0] == 'i':
        return int(sel[1])
    return slice(*[None if v is None else int(v) for v in sel[1:]])


def _csel_to_py(c):
    if c[0] == 'all':
        return slice(None)
    if c[0] == 'int':
        return int(c[1])
    if c[0] == 'slice':
        return slice(*[None if v is None else int(v) for v in c[1:]])
    return [int(v) for v in c[1]]


def _gen_nsel(rng, rec_p):
    """Sample selector placed relative to the chunk bounds (normalised positions first, then an encoding:
    positive, negative, None, or beyond the end)."""
    sizes = rec_p['sizes']
    ns = sum(sizes)
    bounds = [int(x) for x in np.cumsum([0] + sizes)]
    cs = rec_p['cs']
    if rng.random() < 0.25:
        c = [0, -1, ns - 1, -ns, ns, ns + 5, int(rng.choice(bounds)), int(rng.choice(bounds)) - 1, -int(rng.integers(1, ns + 1)),
             int(rng.integers(0, ns))]
        return ('i', max(int(c[int(rng.integers(0, len(c)))]), -ns))

    def norm():
        b = int(rng.choice(bounds))
        c = [b, b - 1, b + 1, 0, ns, int(rng.integers(0, ns + 1)), int(rng.integers(0, ns + 1))]
        return min(max(int(c[int(rng.integers(0, len(c)))]), 0), ns)

    def enc(p, is_stop):
        opts = [p, p]
        if p < ns:
            opts.append(p - ns)                 # the same position counted from the end
        if (p == 0 and not is_stop) or (p == ns and is_stop):
            opts += [None, None]
        if p == ns:
            opts += [ns + 1, ns + 7]
        if p == 0:
            opts += [-ns - 1, -ns - 9]
        return opts[int(rng.integers(0, len(opts)))]
    a, b = sorted((norm(), norm()))
    if rng.random() < 0.1:
        a, b = b, a
    steps = [None, None, 1, 2, 3, cs, cs - 1, cs + 1, ns + 3, int(rng.integers(1, 2 * cs))]
    st = steps[int(rng.integers(0, len(steps)))]
    if st is not None and st <= 0:
        st = 1
    return ('s', enc(a, False), enc(b, True), st)


def _gen_csel(rng, nc):
    r = rng.random()
    if r < 0.4:
        return ('all',)
    if r < 0.6:
        return ('int', int(rng.choice([0, nc - 1, -1, -nc, int(rng.integers(0, nc))])))
    if r < 0.8:
        a = [None, 0, int(rng.integers(0, nc)), -int(rng.integers(1, nc + 1))]
        return ('slice', a[int(rng.integers(0, 4))], a[int(rng.integers(0, 4))], [None, 1, 2, -1, 3][int(rng.integers(0, 5))])
    return ('list', [int(x) for x in rng.integers(0, nc, size=int(rng.integers(1, 5)))])


def _digest(f):
    """Canonical result of a read: shape, dtype and a hash of the bytes — or the error enum."""
    try:
        v = f()
    except Exception as e:   # noqa
        return 'err ' + type(e).__name__
    if isinstance(v, tuple):
        return ' + '.join(_digest(lambda x=x: x) for x in v)
    v = np.asarray(v)
    return f'ok {v.shape} {v.dtype.str} {hashlib.sha1(np.ascontiguousarray(v).tobytes()).hexdigest()[:16]}'


def _rows_string(f, rec):
    """Which rows `_raw[nsel, :]` returned, identified byte-exactly against the recording."""
    try:
        v = np.asarray(f())
    except Exception as e:   # noqa
        return 'err ' + type(e).__name__
    if v.dtype != np.int16 or v.shape[-1:] != (rec.nc,):
        return f'?shape {v.shape} {v.dtype}'
    if v.ndim == 1:
        ids = np.where((rec.D == v[None, :]).all(axis=1))[0]
        return f'ok row {int(ids[0])}' if len(ids) == 1 else f'?row matches {len(ids)}'
    ids = v[:, 0].astype(int) if rec.ns <= 32767 else None
    if ids is None or not np.array_equal(rec.D[ids] if len(ids) else v, v):
        return '?rows not from the recording'
    return 'ok rows ' + (','.join(map(str, ids)) if len(ids) else '-')


def _read_case(case, hook=None):
    """case: dict(rec, via ('cbin'|'meta'), T, sels=[(nsel, csel, sync)]).  Returns list of (line, impl, info)."""
    with _pool(case.get('pool', 'serial')):
        return _read_case_inner(case, hook)


def _read_case_inner(case, hook):
    """The recording is written (its .meta possibly announcing more / fewer samples than are on disk), compressed by
    compress_file, and opened `via` x.cbin beside x.bin / x.cbin alone / x.meta with only the x.cbin, the path spelled as
    `form['path']`, int16 spelled as `form['dtype']`, names with a UUID part as `rec['uuid']`; the reference is the reader
    of the .bin (a pristine copy in another directory when the .bin must be absent)."""
    import spikeglx
    rec = Rec(case['rec'])
    form = case.get('form', {})
    via = {'cbin': 'cbin_beside'}.get(case['via'], case['via'])
    out = []
    readers = []
    cwd = os.getcwd()
    os.chdir(rec.dir.parent)
    try:
        rec.init('bin')
        sb = spikeglx.Reader(rec.path('bin'))
        readers.append(sb)
        if form.get('keep_pos'):
            sb.compress_file(True, chunk_duration=rec.chunk_duration, n_threads=case.get('T', 1))
        else:
            sb.compress_file(keep_original=True, chunk_duration=rec.chunk_duration, n_threads=case.get('T', 1))
        p_cbin, p_ch, p_meta = rec.path('cbin'), rec.path('ch'), rec.path('meta')
        if case['rec'].get('uuid') == 'diff':
            # one UUID per dataset, as on SDSC: the compressed file and its header get their own
            q = p_cbin.with_name(FLAVOURS[case['rec']['flavour']][2] + '.' + UUIDS[1] + '.cbin'); p_cbin.rename(q); p_cbin = q
            q = p_ch.with_name(FLAVOURS[case['rec']['flavour']][2] + '.' + UUIDS[2] + '.ch'); p_ch.rename(q); p_ch = q
        if via != 'cbin_beside':
            # a pristine copy of the binary elsewhere, so that the entry point sees only the compressed file
            other = rec.dir / 'orig'
            other.mkdir()
            shutil.copy(rec.path('bin'), other / rec.path('bin').name)
            shutil.copy(p_meta, other / p_meta.name)
            sb.close()
            rec.path('bin').unlink()
            sb = spikeglx.Reader(other / rec.path('bin').name)
            readers.append(sb)
        kw = {'dtype': _dtype_form(form['dtype'])} if form.get('dtype') else {}
        sc = spikeglx.Reader(_path_form(p_meta if via == 'meta' else p_cbin, form.get('path', 'Path')), **kw)
        readers.append(sc)
        batch = max(1, rec.cs - 3)

        def batched(sr):
            starts = list(range(0, sr.ns, batch))
            parts = [sr[a:a + batch, :] for a in starts]
            return len(starts), (np.concatenate(parts) if parts else np.zeros((0, rec.nc), np.float32))
        head = {'is_mtscomp': (bool(sc.is_mtscomp), bool(sb.is_mtscomp)), 'shape': (tuple(sc.shape), tuple(sb.shape)),
                'ns': (sc.ns, sb.ns), 'nc': (sc.nc, sb.nc), 'fs': (sc.fs, sb.fs), 'rl': (sc.rl, sb.rl), 'nsync': (sc.nsync, sb.nsync),
                'type': (sc.type, sb.type), 'fileTimeSecs': (sc.meta['fileTimeSecs'], sb.meta['fileTimeSecs']),
                'batched_reads': (_digest(lambda: batched(sc)[1]) + f' in {batched(sc)[0]} batches',
                                  _digest(lambda: batched(sb)[1]) + f' in {batched(sb)[0]} batches')}
        out.append((None, head, {'kind': 'head'}))
        nbytes = (rec.dir / 'orig' / rec.path('bin').name if via != 'cbin_beside' else rec.path('bin')).stat().st_size
        out.append((f'openns {rec.meta_ns} {2 * rec.nc} {nbytes} {rec.ns}', f'cbin={sc.ns} bin={sb.ns}', {'kind': 'ns'}))
        sizes = ','.join(map(str, rec.sizes))
        for nsel, csel, sync in case['sels']:
            pn, pc = _sel_to_py(nsel), _csel_to_py(csel)
            if nsel[0] == 'i':
                line = f'index {sizes} {nsel[1]}'
            else:
                line = 'slice ' + sizes + ' ' + ' '.join('N' if v is None else str(v) for v in nsel[1:])
            raw = f"cbin={_rows_string(lambda: sc._raw[pn, :], rec)} bin={_rows_string(lambda: sb._raw[pn, :], rec)}"
            if sync:
                hi = (_digest(lambda: sc.read(nsel=pn, csel=pc, sync=True)), _digest(lambda: sb.read(nsel=pn, csel=pc, sync=True)))
            else:
                hi = (_digest(lambda: sc[pn, pc]), _digest(lambda: sb[pn, pc]))
            out.append((line, raw, {'kind': 'sel', 'nsel': nsel, 'csel': csel, 'sync': sync, 'hi': hi}))
            if hook:
                hook(rec, sc, sb, nsel, csel, sync)
        if hook and not case['sels']:
            hook(rec, sc, sb, None, None, False)
        return out
    finally:
        os.chdir(cwd)
        for r in readers:
            try:
                r.close()
            except Exception:
                pass
        rec.close()


def _touches(nsel, rec_p):
    """number of chunks a selector spans (for the non-triviality tag)"""
    sizes = rec_p['sizes']
    ns = sum(sizes)
    bounds = np.cumsum([0] + sizes)
    if nsel[0] == 'i':
        return 1
    idx = range(ns)[_sel_to_py(nsel)]
    if len(idx) == 0:
        return 0
    a, b = idx[0], idx[-1]
    return int(np.searchsorted(bounds, b, side='right') - np.searchsorted(bounds, a, side='right')) + 1


def _read_cases(ctx, count, nsel_per):
    rng = ctx.rng
    cases = []
    for _ in range(count):
        rp = _gen_recording(rng)
        if len(rp['sizes']) == 1 and rng.random() < 0.7:
            rp['sizes'] = [rp['cs']] * int(rng.integers(1, 4)) + rp['sizes']
        sels = [(_gen_nsel(rng, rp), _gen_csel(rng, rp['nc']), bool(rng.random() < 0.15)) for _ in range(nsel_per)]
        # the FORM of the call is drawn independently of the recording and the selectors
        if rng.random() < 0.5:      # .meta announcing more / fewer samples than are on disk (whole frames)
            d = int(rng.choice([1, 2, rp['cs'], rp['cs'] + 1, int(rng.integers(1, 3 * rp['cs']))]))
            rp['meta_delta'] = d if rng.random() < 0.5 else -min(d, sum(rp['sizes']) - 1)
        via = str(rng.choice(['cbin_beside', 'cbin_alone', 'meta']))
        u = rng.random()
        if u < 0.3:
            rp['uuid'] = 'same' if (u < 0.15 or via == 'meta') else 'diff'   # (x.meta -> data with one UUID per dataset: known finding)
        form = {'path': str(rng.choice(PATH_FORMS)), 'dtype': DTYPE_FORMS[int(rng.integers(0, 5))], 'keep_pos': bool(rng.random() < 0.5)}
        cases.append({'rec': rp, 'via': via, 'T': int(rng.choice([1, 2, 3])), 'sels': sels, 'form': form,
                      'pool': 'real' if rng.random() < 0.12 else 'serial'})
    return cases


def correspondence_reads(ctx, count, nsel_per):
    lines, impl, meta = [], [], []
    for case in _read_cases(ctx, count, nsel_per):
        res = _read_case(case)
        base = {'rec': case['rec'], 'via': case['via'], 'T': case['T'], 'pool': case['pool'], 'form': case.get('form', {})}
        ftags = ('via=' + case['via'], 'path=' + base['form'].get('path', 'Path'), 'dtype=' + str(base['form'].get('dtype')),
                 'uuid_in_names=' + str(case['rec'].get('uuid')),
                 'meta_announces=' + ('samples_on_disk' if not case['rec'].get('meta_delta') else 'more' if case['rec']['meta_delta'] > 0 else 'fewer'))
        for line, ans, info in res:
            if info['kind'] == 'head':
                for k, (c, b) in ans.items():
                    ctx.compare('attr', {'read': base, 'attr': k}, str(c), str(b) if k != 'is_mtscomp' else 'True',
                                nontrivial=bool(case['rec'].get('meta_delta')), tags=('read:attr',) + (ftags if k == 'shape' else ()))
                continue
            lines.append(line); impl.append(ans); meta.append((base, case['rec'], info))
    model = ctx.lean(lines)
    for line, a, m, (base, rp, info) in zip(lines, impl, model, meta):
        if info['kind'] == 'ns':
            ctx.compare('exposed-ns', {'read': base, 'what': 'Reader.ns of the .cbin reader and of the .bin reader'}, a, m,
                        nontrivial=bool(rp.get('meta_delta')), tags=('read:ns',))
            continue
        nsel, csel = info['nsel'], info['csel']
        span = _touches(nsel, rp)
        nontriv = span >= 2 or (nsel[0] == 's' and (nsel[3] or 1) > 1) or (nsel[0] == 'i' and nsel[1] < 0)
        tags = ('read:' + ('int' if nsel[0] == 'i' else 'slice'), 'chunks_spanned=' + ('0' if span == 0 else '1' if span == 1 else '>=2'),
                'via=' + base['via'], 'csel=' + csel[0], _nc_tag(rp['nc']),
                'step=' + ('-' if nsel[0] == 'i' else 'None' if nsel[3] is None else '1' if nsel[3] == 1 else '>1'))
        desc = {'read': base, 'nsel': nsel, 'csel': csel, 'sync': info['sync']}
        # rows returned by each backend vs the model (ChunkRead.rawCbin / rawBin)
        ctx.compare('raw-rows', dict(desc, what='_raw[nsel, :]'), a, m, nontrivial=nontriv, tags=tags)
        # calibrated read through the two readers: the compressed one must give what the uncompressed one gives
        hc, hb = info['hi']
        ctx.compare('read', dict(desc, what='sr[nsel, csel]' if not info['sync'] else 'sr.read(nsel, csel, sync=True)'), hc, hb,
                    nontrivial=nontriv, tags=('read:calibrated',))


# ---------------------------------------------------------------------------------------------
# path names: pathlib suffix logic, is_mtscomp, _get_companion_file, the data file chosen by Reader.__init__
# ---------------------------------------------------------------------------------------------
PATH_STEMS = ['rec_g0_t0.imec.ap', 'rec_g0_t0.imec0.lf', 'rec_g0_t0.nidq', '_spikeglx_ephysData_g0_t0.imec1.ap', 'a', 'cbin', 'x.cbin.ap',
              'my.cbin', 'rec..ap', 'rec.', '.hidden', '.hidden.ap', 'cbin_tmp.x', 'a.b', 'bin', 'r-1_2.ap', 'rec.ap.bin', 'ch']
PATH_SUFFIXES = ['.bin', '.cbin', '.cbin_tmp', '.ch', '.meta', '.bin_temp', '', '.lf', '.CBIN', '.xcbinx', '.cbin2', '.c', '.bincbin', '.', '.a.b']
SOURCE_SUFFIXES = ['.bin', '.cbin', '.cbin_tmp', '.ch', '.meta', '.bin_temp']


def _enc_name(n):
    return n if n else '~'


def _gen_name(rng):
    st = str(rng.choice(PATH_STEMS))
    if rng.random() < 0.25:
        st = ''.join(str(rng.choice(['a', 'b', '.', '.', '_', 'cbin', 'bin', 'c', 'tmp', '-', '1'])) for _ in range(int(rng.integers(0, 6))))
    if rng.random() < 0.3:
        st = st + '.' + UUIDS[int(rng.integers(0, len(UUIDS)))]
    n = st + str(rng.choice(PATH_SUFFIXES))
    return n


def _stem_no_uuid(name):
    import one.alf.path
    return one.alf.path.remove_uuid_string(Path(name)).stem


def correspondence_paths(ctx, count):
    """(1) pure name logic on thousands of names (several dots, leading / trailing dots, 'cbin' inside the stem, UUID parts):
    PurePath.suffix / .stem / .with_suffix and Reader.is_mtscomp vs FsPath.suffix / stem / withSuffix / isMtscomp;
    (2) real directories: _get_companion_file(name, pattern) (Path and str argument) and the data file chosen by
    spikeglx.Reader(name, open=False) vs FsPath.companion / resolveName, the listing handed to the model in os.scandir order."""
    import spikeglx
    rng = ctx.rng
    lines, impl, meta = [], [], []

    def add(line, ans, op, tags, nontrivial=True, norm=None):
        lines.append(line); impl.append(ans); meta.append((op, tags, nontrivial, norm))
    for _ in range(count):
        n = _gen_name(rng)
        if n in ('', '.', '..'):
            continue
        pp = Path('/d') / n
        many = n.count('.') >= 2
        add(f'suffix {_enc_name(n)}', _enc_name(pp.suffix), 'path-suffix', ('path:suffix', 'dots=' + ('>=2' if many else str(n.count('.')))), many)
        add(f'stem {_enc_name(n)}', _enc_name(pp.stem), 'path-stem', ('path:stem',), many)
        suf = str(rng.choice(SOURCE_SUFFIXES * 3 + PATH_SUFFIXES + ['x', 'bin', '.a/b']))
        try:
            r = 'ok ' + _enc_name(pp.with_suffix(suf).name)
        except ValueError:
            r = 'err ValueError'
        add(f'withsuffix {_enc_name(n)} {_enc_name(suf)}', r, 'path-with_suffix', ('path:with_suffix', 'result=' + r[:3]), many)
        sr = spikeglx.Reader.__new__(spikeglx.Reader)
        sr.file_bin = pp if rng.random() < 0.5 else Path(n)
        # demanded on the names a reader can hold per the property: suffix .cbin (compressed) or a suffix without the word cbin
        # (not compressed) — what `"cbin" in suffix` answers for .cbin_tmp / .cbin2 / .xcbinx is modelled (theorem) but not a demand
        if pp.suffix == '.cbin' or 'cbin' not in pp.suffix:
            add(f'ismtscomp {_enc_name(n)}', str(bool(sr.is_mtscomp)), 'path-is_mtscomp', ('path:is_mtscomp', f'is_mtscomp={bool(sr.is_mtscomp)}'), 'cbin' in n)
        # the chain of names compress_file derives: x.bin -> .cbin_tmp -> .cbin ; and decompress_to_scratch: x.cbin -> .bin -> .bin_temp
        try:
            tmp = pp.with_suffix('.cbin_tmp')
            add(f'withsuffix {_enc_name(tmp.name)} .cbin', 'ok ' + tmp.with_suffix('.cbin').name, 'path-with_suffix', ('path:tmp_to_final',), many)
        except ValueError:
            pass
    # real directories
    _setup()
    meta_txt = (FIX / FLAVOURS['nidq'][0]).read_text()
    for ci in range(max(6, count // 12)):
        d = Path(tempfile.mkdtemp(prefix='c02p_'))
        try:
            stem = str(rng.choice([s for s in PATH_STEMS if not s.startswith('.') and not s.endswith('.') and s]))
            uu = rng.random() < 0.4
            names = set()
            for sfx in SOURCE_SUFFIXES + ['.lf.bin', '.extra.meta', '.ap.ch']:
                if rng.random() < 0.5:
                    u = ('.' + UUIDS[int(rng.integers(0, len(UUIDS)))]) if (uu and rng.random() < 0.8) else ''
                    names.add(stem + u + sfx)
            if rng.random() < 0.5:
                names.add(stem + '2.meta'); names.add(stem + '2.bin')
            for nm in names:
                (d / nm).write_text(meta_txt if nm.endswith('.meta') else 'x')
            listing = [e.name for e in os.scandir(d)]
            dl = ','.join(listing) if listing else '!'
            # queries: names present in the directory, and siblings that are not
            queries = list(names) + [stem + s for s in ('.bin', '.cbin', '.meta', '.ch')]
            if uu:
                queries += [stem + '.' + UUIDS[0] + s for s in ('.bin', '.cbin', '.meta')]
            for q in sorted(set(queries)):
                st = _stem_no_uuid(q)
                if any(ch in st for ch in '*?['):
                    continue
                for pat in ('.meta', '.ch', str(rng.choice(['.bin', '.cbin', '.lf']))):
                    cands = [f for f in listing if f.startswith(st) and f[len(st):].endswith(pat)]
                    arg = (d / q) if rng.random() < 0.5 else str(d / q)
                    got = spikeglx._get_companion_file(arg, pat)
                    tags = ('path:companion', 'pattern=' + pat, 'direct' if (d / q).with_suffix(pat).exists() else f'glob_candidates={min(len(cands), 2)}',
                            'uuid_in_names=' + str(uu), 'arg=' + type(arg).__name__)
                    # several glob candidates and no direct hit: WHICH one is taken (directory order) is not a demand — both
                    # sides are only required to take one of them
                    free = (lambda x, c=tuple(cands): 'ok one-of-the-candidates' if x.startswith('ok ') and x[3:] in c else x) \
                        if (len(cands) >= 2 and not (d / q).with_suffix(pat).exists()) else None
                    add(f'companion {dl} {q} {pat} {_enc_name(st)}', 'ok ' + Path(got).name, 'path-companion', tags, norm=free)
                # Reader.__init__: the data file for this entry point (needs the companion .meta to exist: ASSUMPTIONS)
                cm = Path(spikeglx._get_companion_file(d / q, '.meta'))
                if cm.exists() and (q.endswith('.meta') or q.endswith('.bin') or q.endswith('.cbin')):
                    try:
                        sr = spikeglx.Reader(d / q, open=False)
                        res = 'ok ' + (sr.file_bin.name if sr.file_bin is not None else 'none')
                    except Exception:   # noqa  (which exception a missing data file raises is not a demand)
                        res = 'err'
                    add(f'resolve {dl} {q} {_enc_name(st)}', res, 'path-resolve',
                        ('path:Reader.__init__', 'entry=' + Path(q).suffix, 'resolved=' + (res.split('.')[-1] if res.startswith('ok ') else res)),
                        norm=lambda x: 'err' if x.startswith('err') else x)
        finally:
            shutil.rmtree(d, ignore_errors=True)
    model = ctx.lean(lines)
    for line, a, m, (op, tags, nontriv, norm) in zip(lines, impl, model, meta):
        if norm:
            a, m = norm(a), norm(m)
        ctx.compare(op, {'path': line}, a, m, nontrivial=nontriv, tags=tags)


def correspondence(ctx):
    import time
    _setup()
    t0 = time.time()
    correspondence_fs(ctx, ctx.n(130, 2000))
    t1 = time.time()
    correspondence_reads(ctx, ctx.n(45, 600), ctx.n(30, 40))
    t2 = time.time()
    correspondence_paths(ctx, ctx.n(600, 6000))
    ctx.note(f'timing: file-system sequences {t1 - t0:.1f}s, reads {t2 - t1:.1f}s, path names {time.time() - t2:.1f}s')
    import spikeglx
    ctx.compare('const', {'const': 'SAMPLE_SIZE'}, f"{spikeglx.SAMPLE_SIZE} {ctx.consts.get('SAMPLE_SIZE', 2)}", '2 2', nontrivial=False,
                tags=('const',))
    # the codec law assumed by the theorems, exercised on every recording above through the state classification;
    # here once more explicitly on a fresh one
    rec = Rec(_gen_recording(ctx.rng))
    try:
        import mtscomp
        rec.init('cbin')
        r = mtscomp.decompress(rec.path('cbin'), rec.path('ch'))
        ok = np.array_equal(np.asarray(r[:]), rec.D)
        r.close()
        ctx.compare('codec-law', {'rec': rec.p}, 'lossless' if ok else 'LOSSY', 'lossless', nontrivial=True, tags=('codec-law',))
    finally:
        rec.close()
    ctx.note('file contents are compared byte-exactly (every file is classified by the reference chunks it is made of); '
             'reads are compared bit-exactly (sha1 of the float32 bytes)')


# ---------------------------------------------------------------------------------------------
# oracle (written from the property text, independent of the Lean model) and search
# ---------------------------------------------------------------------------------------------
def _decode(rec, cbin, ch):
    """Bytes a compressed file + header decode to (through the dependency), or None when they do not decode."""
    import mtscomp
    if cbin is None or ch is None:
        return None
    d = Path(tempfile.mkdtemp(prefix='c02d_'))
    try:
        (d / 'a.cbin').write_bytes(cbin)
        (d / 'a.ch').write_bytes(ch)
        r = mtscomp.decompress(d / 'a.cbin', d / 'a.ch')
        try:
            n = r.n_chunks
            parts = [r.read_chunk(i, r.chunk_offsets[i], r.chunk_offsets[i + 1] - r.chunk_offsets[i]) for i in range(n)]
            if len((d / 'a.cbin').read_bytes()) != r.chunk_offsets[-1]:
                return None
            return b''.join(np.ascontiguousarray(p).tobytes() for p in parts)
        finally:
            r.close()
    except Exception:
        return None
    finally:
        shutil.rmtree(d, ignore_errors=True)


def _same_reads(rec):
    """x.bin and x.cbin both present: the two readers must be indistinguishable (shape, values for a few selectors)."""
    import spikeglx
    rs = []
    try:
        sb = spikeglx.Reader(rec.path('bin')); rs.append(sb)
        sc = spikeglx.Reader(rec.path('cbin')); rs.append(sc)
        if tuple(sb.shape) != tuple(sc.shape):
            return f'the compressed reader has shape {tuple(sc.shape)}, the uncompressed one {tuple(sb.shape)}'
        for sel in (slice(None), slice(1, None, 3), 0, -1):
            a, b = _digest(lambda: sc[sel, :]), _digest(lambda: sb[sel, :])
            if a != b:
                return f'sr[{sel}, :] through x.cbin ({a}) differs from the same read through x.bin ({b})'
        return None
    except Exception as e:   # noqa
        return f'opening x.bin and x.cbin side by side raised {type(e).__name__}: {e}'
    finally:
        for r in rs:
            try:
                r.close()
            except Exception:
                pass


def oracle_fs(case):
    """C02, file-system part, asserted directly on disk.  Returns None or a description of the first violation."""
    viol = []
    state = {'plain_fault': False, 'cur': None, 'versions': []}

    def hook(eng, info, B, A, sr):
        if viol:
            return
        rec = eng.rec
        if state['cur'] is None:
            state['cur'] = rec.orig               # every initial directory holds version 0 (as .bin and/or .cbin)
            state['versions'] = [rec.orig]
        if info['kind'] == 'rewrite':
            # the environment replaced x.bin: this is now the current content of the recording
            state['cur'] = A['bin']
            state['versions'].append(A['bin'])
            return
        op, ok = info['op'], info['outcome'].startswith('ok')
        if ' reopen-differs:' in info['outcome']:
            viol.append(f"{info['op']['op']}_file(keep_original=False) succeeded, but{info['outcome'].split(' reopen-differs:', 1)[1]} "
                        '(the call modifies the current Reader object in place: re-opened, it must be indistinguishable from the new file)')
        kind = op['op']
        where = f"call #{info['i']} {kind}"
        if info['outcome'].startswith('ok('):
            viol.append(f'{where}: returned an unexpected path: {info["outcome"]}')
        # after ANY failed call the reader still points at its (existing) source — unless the failure came after the replacement
        # was complete (an interruption between the last effects of an in-place call)
        if kind == 'compress':
            replaced = A['cbin'] is not None and _decode(rec, A['cbin'], A['ch']) == B['bin']
        elif kind == 'decompress':
            replaced = A['bin'] is not None and B['cbin'] is not None and A['bin'] == _decode(rec, B['cbin'], B['ch'])
        else:
            replaced = False
        if not ok and B.get(info['fb_before']) is not None and A.get(info['fb_before']) is None and not replaced:
            viol.append(f'{where} failed ({info["outcome"]}) and its source x.{info["fb_before"]} is gone (removed before its replacement carried the final name)')
        if not ok and info['fb_after'] != info['fb_before']:
            viol.append(f'{where} failed ({info["outcome"]}) but the reader now points at {info["fb_after"]} instead of {info["fb_before"]}')
        # a call on a usable source, with no fault injected, must do its job (lossless round trip must be possible)
        if not ok and not info['fired']:
            fb = info['fb_before']
            if kind == 'compress':
                legit = fb != 'bin' or not B['bin']
            elif kind == 'decompress':
                legit = fb != 'cbin' or B['cbin'] is None or B['ch'] is None or (B['bin'] is not None and not op['overwrite'])
            else:
                tgt0 = 'sbin' if op['scratch'] else 'bin'
                legit = B[tgt0] is None and (fb != 'cbin' or B['cbin'] is None or B['ch'] is None)
            if not legit:
                viol.append(f'{where} raised {info["outcome"][4:]} although no fault was injected and its source exists')
        if kind == 'compress':
            if not ok:
                if A['bin'] != B['bin']:
                    viol.append(f'{where} failed ({info["outcome"]}) but the source .bin was modified/removed')
                # x.ch is written by mtscomp under its final name once all chunks are in x.cbin_tmp: after a failure it must be
                # unchanged, or the complete header of the complete temporary file
                ch_ok = A['ch'] == B['ch'] or (A['cbin_tmp'] is not None and _decode(rec, A['cbin_tmp'], A['ch']) == B['bin'])
                if (A['cbin'] != B['cbin'] or not ch_ok) and not replaced:
                    viol.append(f'{where} failed ({info["outcome"]}) but a file carrying the final name (.cbin/.ch) was created or changed: '
                                f'.cbin {None if A["cbin"] is None else len(A["cbin"])} bytes (complete would be {len(rec.ref_cbin)})')
            else:
                if _decode(rec, A['cbin'], A['ch']) != B['bin']:
                    stale = _decode(rec, A['cbin'], A['ch']) in [v for v in state['versions'] if v != B['bin']]
                    viol.append(f'{where} succeeded but .cbin/.ch do not decode to the CURRENT bytes of the source .bin'
                                + (' (they decode to an EARLIER content of x.bin: a stale compressed copy was kept)' if stale else ''))
                elif op['keep'] and not viol:
                    w = _same_reads(rec)
                    if w:
                        viol.append(f'{where} succeeded but {w}')
                if op['keep'] and A['bin'] != B['bin']:
                    viol.append(f'{where}(keep_original=True) modified/removed the source')
                if not op['keep'] and (A['bin'] is not None or info['fb_after'] != 'cbin'):
                    viol.append(f'{where}(keep_original=False) succeeded but the source is still there / the reader was not switched')
            if B['bin'] is not None and A['bin'] is None and _decode(rec, A['cbin'], A['ch']) != B['bin']:
                viol.append(f'{where}: the source .bin was removed although its replacement is not complete')
        elif kind == 'toscratch':
            tgt = 'sbin' if op['scratch'] else 'bin'
            if A['cbin'] != B['cbin'] or A['ch'] != B['ch']:
                viol.append(f'{where}: the compressed source was modified')
            if not ok:
                if A[tgt] != B[tgt]:
                    viol.append(f'{where} failed ({info["outcome"]}) but a file carrying the final name exists/changed: '
                                f'{None if A[tgt] is None else len(A[tgt])} bytes (complete would be {len(rec.orig)})')
            else:
                if B[tgt] is None and A[tgt] != _decode(rec, B['cbin'], B['ch']):
                    viol.append(f'{where} succeeded but the published file is not the complete decompressed recording')
                if A[tgt] is None:
                    viol.append(f'{where} succeeded but the returned file does not exist')
        else:
            if not ok:
                if (A['cbin'] != B['cbin'] or A['ch'] != B['ch']) and not (replaced and not op['keep']):
                    viol.append(f'{where} failed ({info["outcome"]}) but the compressed source was modified/removed')
                if info['fired'] and not info.get('xf'):
                    state['plain_fault'] = True
                if replaced:
                    state['cur'] = A['bin']       # x.bin was completely (re)written before the interruption
            else:
                dec = _decode(rec, B['cbin'], B['ch'])
                state['cur'] = A['bin']           # x.bin was (re)written from the compressed file on request
                if A['bin'] != dec:
                    viol.append(f'{where} succeeded but .bin is not byte for byte what the compressed file decodes to')
                if op['keep'] and (A['cbin'] != B['cbin'] or A['ch'] != B['ch']):
                    viol.append(f'{where}(keep_original=True) modified/removed the compressed source')
                if not op['keep'] and (A['cbin'] is not None or A['ch'] is not None or info['fb_after'] != 'bin'):
                    viol.append(f'{where}(keep_original=False) succeeded but the source is still there / the reader was not switched')
            if B['cbin'] is not None and A['cbin'] is None and A['bin'] != _decode(rec, B['cbin'], B['ch']):
                viol.append(f'{where}: the compressed source was removed although its replacement is not complete')
        # global statement, as long as no fault hit the (non-atomic) plain decompress_file
        if not state['plain_fault'] and not viol:
            cur = state['cur']
            if A['cbin'] is not None and _decode(rec, A['cbin'], A['ch']) not in state['versions']:
                viol.append(f'after {where}: a .cbin exists that is not a complete image of the recording')
            if A['bin'] is not None and A['bin'] != cur:
                viol.append(f'after {where}: x.bin exists ({len(A["bin"])} bytes) and is not the complete current recording ({len(cur)} bytes)')
            if A['sbin'] is not None and A['sbin'] not in state['versions']:
                viol.append(f'after {where}: scratch x.bin exists ({len(A["sbin"])} bytes) and is not a complete recording ({len(cur)} bytes)')
            if A['bin'] != cur and _decode(rec, A['cbin'], A['ch']) != cur:
                viol.append(f'after {where}: the CURRENT content of the recording is no longer held by any complete file'
                            + (' (x.bin was removed while the compressed file holds an earlier content)'
                               if _decode(rec, A['cbin'], A['ch']) in state['versions'] else ''))
            # path resolution: the metadata entry point finds the recording and it reads as the original
            import spikeglx
            try:
                sm = spikeglx.Reader(rec.path('meta'))
                try:
                    if sm.file_bin is None:
                        viol.append(f'after {where}: Reader(x.meta) resolved no data file although one exists')
                    else:
                        got = np.asarray(sm._raw[:, :]).astype(np.int16).tobytes()
                        if got != cur:
                            viol.append(f'after {where}: Reader(x.meta) (-> {sm.file_bin.name}) does not read the current content of the recording')
                finally:
                    sm.close()
            except Exception as e:   # noqa
                viol.append(f'after {where}: Reader(x.meta) raised {type(e).__name__}: {e}')

    try:
        _run_fs_case(case, hook=hook)
    except Exception as e:   # noqa
        return f'running the calls of this history raised outside a call under observation (opening a reader / reading): {type(e).__name__}: {e}'
    return viol[0] if viol else None


def _excluded_nsel(nsel, ns):
    """Selector classes recorded as known findings (not part of the transparency comparison)."""
    if nsel[0] == 'i':
        return nsel[1] < -ns
    return nsel[3] is not None and nsel[3] < 0


def oracle_reads(case):
    """C02, transparency part: shape and values identical through both readers; and equal to NumPy indexing of the
    whole calibrated array read from the uncompressed file."""
    viol = []
    cache = {}

    def hook(rec, sc, sb, nsel, csel, sync):
        if viol:
            return
        if 'head' not in cache:
            cache['head'] = True
            if tuple(sc.shape) != tuple(sb.shape):
                viol.append(f'shape differs: compressed {tuple(sc.shape)} vs original {tuple(sb.shape)}')
                return
            if not sc.is_mtscomp:
                viol.append('the reader opened on the compressed recording is not reading the compressed file')
                return
            if (sc.ns, sc.rl, sc.meta['fileTimeSecs']) != (sb.ns, sb.rl, sb.meta['fileTimeSecs']):
                viol.append(f'ns / rl / fileTimeSecs differ: compressed {(sc.ns, sc.rl, sc.meta["fileTimeSecs"])} vs original '
                            f'{(sb.ns, sb.rl, sb.meta["fileTimeSecs"])}')
                return
            batch = max(1, rec.cs - 3)
            nb_c, nb_b = len(range(0, sc.ns, batch)), len(range(0, sb.ns, batch))
            if nb_c != nb_b:
                viol.append(f'a loop over range(0, sr.ns, {batch}) makes {nb_c} reads on the compressed file and {nb_b} on the original')
                return
            cache['full'] = sb.read(nsel=slice(None), csel=slice(None), sync=False)
        if nsel is None or _excluded_nsel(nsel, rec.ns):
            return
        pn, pc = _sel_to_py(nsel), _csel_to_py(csel)
        a, b = _digest(lambda: sc[pn, pc]), _digest(lambda: sb[pn, pc])
        if a != b:
            viol.append(f'sr[{pn}, {pc}]: compressed reader gives {a}, uncompressed reader gives {b}')
            return
        try:
            want = cache['full'][pn][..., pc]
            if b.startswith('ok') and _digest(lambda: want) != b:
                viol.append(f'sr[{pn}, {pc}] differs from NumPy indexing of the whole calibrated array')
        except Exception:
            pass

    try:
        _read_case(case, hook=hook)
    except Exception as e:   # noqa
        return (f'compressing the recording and opening it via {case["via"]} (path as {case.get("form", {}).get("path", "Path")}, dtype as '
                f'{case.get("form", {}).get("dtype")}, uuid in names: {case["rec"].get("uuid")}) raised {type(e).__name__}: {e}')
    return viol[0] if viol else None


def _shrink_fs(case):
    """Shortest failing prefix; fresh readers instead of stale ones; drop earlier calls one at a time; smaller recording."""
    def cp(c, **kw):
        d = dict(c, ops=[{k: v for k, v in o.items() if k != 'skipped'} for o in c['ops']])
        d.update(kw)
        return d
    best, why = cp(case), oracle_fs(cp(case))
    if not why:
        return None
    for n in range(1, len(best['ops']) + 1):
        c = cp(best, ops=best['ops'][:n])
        w = oracle_fs(c)
        if w:
            best, why = cp(c), w
            break
    for i, o in enumerate(best['ops']):
        if o.get('reader', '').startswith('old'):
            for e in ('bin', 'cbin', 'meta'):
                ops = [dict(x) for x in best['ops']]
                ops[i]['reader'] = 'new:' + e
                w = oracle_fs(cp(best, ops=ops))
                if w:
                    best, why = cp(best, ops=ops), w
                    break
    changed = True
    while changed and len(best['ops']) > 1:
        changed = False
        if any(o.get('reader', '').startswith('old') for o in best['ops']):
            break
        for i in range(len(best['ops']) - 1):
            c = cp(best, ops=[o for j, o in enumerate(best['ops']) if j != i])
            w = oracle_fs(c)
            if w:
                best, why, changed = cp(c), w, True
                break
    n = len(best['rec']['sizes'])
    for rp in ({'flavour': 'nidq', 'nc': 2, 'cs': 8, 'sizes': [8] * (min(n, 3) - 1) + [5], 'seed': 1},
               dict(best['rec'], flavour='nidq', nc=2)):
        ops = [dict(o) for o in best['ops']]
        for o in ops:
            if o.get('k') is not None:
                o['k'] = min(o['k'], len(rp['sizes']) - 1)
            if 'T' in o:
                o['T'] = 1
        c = cp(best, rec=rp, ops=ops, tdef=1)
        w = oracle_fs(c)
        if w:
            best, why = cp(c), w
            break
    return best, why


def search(ctx, reasons):
    _setup()
    fs_cands, rd_cands = [], []
    seen = set()
    for m in ctx.mismatches[:60]:
        c = m['case']
        key = json.dumps(c, sort_keys=True, default=str)
        if key in seen:
            continue
        seen.add(key)
        if 'fs' in c:
            fs_cands.append(dict(c['fs'], ops=[dict(o) for o in c['fs']['ops']]))
        elif 'read' in c and 'nsel' in c:
            rd_cands.append(dict(c['read'], sels=[(tuple(c['nsel']), tuple(c['csel']), bool(c.get('sync')))]))
        elif 'read' in c:
            rd_cands.append(dict(c['read'], sels=[(('s', None, None, None), ('all',), False)]))
    best = None
    # reads first when they are the ones that disagreed (cheap), then file-system cases
    for c in rd_cands[:40]:
        why = oracle_reads(c)
        if why:
            best = ('read', c, why)
            break
    if best is None:
        for c in fs_cands[:25]:
            r = _shrink_fs(c)
            if r:
                best = ('fs', r[0], r[1])
                break
    if best is None:
        for nc in (1, 2):
            small = {'flavour': 'nidq', 'nc': nc, 'cs': 8, 'sizes': [8, 5], 'seed': 1}
            for case in _exhaustive_cases(small, 1) + _exhaustive_cases(small, 'rw', inits=('bin', 'both')):
                if oracle_fs(case):
                    r = _shrink_fs(case)
                    if r:
                        best = ('fs', r[0], r[1])
                        break
            if best:
                break
    if best is None:
        # fresh cases from the generator
        rng = ctx.subrng(77)
        for i in range(ctx.n(60, 300)):
            case = {'rec': _gen_recording(rng, small=True), 'init': str(rng.choice(['bin'] * 7 + ['cbin'] * 2 + ['both'])),
                    'tdef': int(rng.choice([1, 2, 3, 16]))}
            sub = np.random.default_rng([ctx.seed, 3, i])
            try:
                _run_fs_case(case, rng=sub, n_ops=int(rng.integers(3, 8)))
            except Exception:
                continue
            r = _shrink_fs(case)
            if r:
                best = ('fs', r[0], r[1])
                break
        if best is None:
            class _C:   # minimal ctx stand-in for the generator
                pass
            g = _C(); g.rng = ctx.subrng(78)
            for case in _read_cases(g, ctx.n(30, 120), 25):
                why = oracle_reads(case)
                if why:
                    # narrow to the first failing selector
                    for s in case['sels']:
                        c1 = dict(case, sels=[s])
                        w1 = oracle_reads(c1)
                        if w1:
                            case, why = c1, w1
                            break
                    best = ('read', case, why)
                    break
    if best is None:
        return None
    kind, case, why = best
    return {'input': {'kind': kind, 'case': case}, 'observed': why,
            'expected': ('C02: a failing compress_file / decompress_to_scratch leaves the source and every final name untouched, the source is removed only '
                         'after a complete replacement exists, compress then decompress is byte-exact, x.meta resolves to the recording' if kind == 'fs' else
                         'C02: the compressed recording and its uncompressed original give the same shape and the same values for the selector'),
            'how': 'harness/props/c02.py: oracle_fs(case) / oracle_reads(case) on the real code (faults injected by patching mtscomp.Writer._compress_chunk / '
                   'mtscomp.Reader._decompress_chunk); ./check C02 --replay <this file>'}


def replay(ctx, rep):
    _setup()
    i = rep['input']
    case = i['case']
    if i['kind'] == 'fs':
        why = oracle_fs(dict(case, ops=[dict(o) for o in case['ops']]))
    else:
        case = dict(case, sels=[(tuple(n), tuple(c), bool(s)) for n, c, s in case['sels']])
        why = oracle_reads(case)
    print('oracle:', why)
    return why is not None


# ---------------------------------------------------------------------------------------------
# known findings
# ---------------------------------------------------------------------------------------------
def _demo_pair(f):
    """f(sc, sb, ns) -> True when the finding reproduces, on a 3-chunk nidq recording of 100 samples x 3 channels."""
    import spikeglx
    _setup()
    rec = Rec({'flavour': 'nidq', 'nc': 3, 'cs': 40, 'sizes': [40, 40, 20], 'seed': 1})
    rs = []
    try:
        rec.init('bin')
        sb = spikeglx.Reader(rec.path('bin')); rs.append(sb)
        sc = spikeglx.Reader(sb.compress_file(keep_original=True, chunk_duration=rec.chunk_duration, n_threads=1)); rs.append(sc)
        return bool(f(sc, sb, rec.ns))
    finally:
        for r in rs:
            r.close()
        rec.close()


def known_findings(ctx):
    def neg_step():
        # sr[::-1] / sr[10:2:-1]: .bin gives the reversed rows, .cbin an empty array
        return _demo_pair(lambda sc, sb, ns: sb[::-1, :].shape == (ns, 3) and sc[::-1, :].shape == (0, 3)
                          and sb[10:2:-1, :].shape == (8, 3) and sc[10:2:-1, :].shape == (0, 3))

    def below_minus_ns():
        def f(sc, sb, ns):
            try:
                sb[-ns - 1]
                return False
            except IndexError:
                pass
            return np.array_equal(sc[-ns - 1], sb[ns - 1])
        return _demo_pair(f)

    def numpy_int():
        return _demo_pair(lambda sc, sb, ns: sb[np.int64(5), :].shape == (3,) and sc[np.int64(5), :].shape == (0, 3))

    def orphan_header():
        # compress(keep) -> rewrite x.bin -> compress whose rename fails: the old x.cbin is intact but x.ch describes x.cbin_tmp
        import spikeglx
        _setup()
        rec = Rec({'flavour': 'nidq', 'nc': 3, 'cs': 40, 'sizes': [40, 40, 20], 'seed': 1})
        rs = []
        try:
            with _pool('serial'):
                rec.init('bin')
                sb = spikeglx.Reader(rec.path('bin')); rs.append(sb)
                sb.compress_file(keep_original=True, chunk_duration=rec.chunk_duration, n_threads=1)
                rec.rewrite(1)
                sb2 = spikeglx.Reader(rec.path('bin')); rs.append(sb2)
                try:
                    with _publish_fault('patch', rec, 'compress'):
                        sb2.compress_file(keep_original=True, chunk_duration=rec.chunk_duration, n_threads=1)
                    return False
                except PermissionError:
                    pass
            st = rec.state_string()
            return 'bin=100.101.102 ' in st and ' cbin=1000.1001.1002 ' in st and ' ch=1100.1101.1102 ' in st
        finally:
            for r in rs:
                r.close()
            rec.close()

    def orphan_header_at_check():
        # the same mechanism one effect earlier: compress(keep) -> rewrite x.bin -> compress interrupted after x.ch was written and
        # before x.cbin_tmp is renamed (here: mtscomp.check raises): the old x.cbin is intact but x.ch describes x.cbin_tmp
        import spikeglx
        _setup()
        rec = Rec({'flavour': 'nidq', 'nc': 3, 'cs': 40, 'sizes': [40, 40, 20], 'seed': 1})
        rs = []
        try:
            with _pool('serial'):
                rec.init('bin')
                sb = spikeglx.Reader(rec.path('bin')); rs.append(sb)
                sb.compress_file(keep_original=True, chunk_duration=rec.chunk_duration, n_threads=1)
                rec.rewrite(1)
                sb2 = spikeglx.Reader(rec.path('bin')); rs.append(sb2)
                try:
                    with _inject_x('pre_check', []):
                        sb2.compress_file(keep_original=True, chunk_duration=rec.chunk_duration, n_threads=1)
                    return False
                except Boom:
                    pass
            st = rec.state_string()
            return 'bin=100.101.102 ' in st and ' cbin=1000.1001.1002 ' in st and ' ch=1100.1101.1102 ' in st
        finally:
            for r in rs:
                r.close()
            rec.close()

    def meta_uuid():
        # SDSC-style names, one UUID per dataset: the data files find their .meta/.ch (glob in _get_companion_file), the .meta finds no data file
        import spikeglx
        _setup()
        rec = Rec({'flavour': 'nidq', 'nc': 3, 'cs': 40, 'sizes': [40, 40, 20], 'seed': 1, 'uuid': 'diff'})
        rs = []
        try:
            with _pool('serial'):
                rec.init('bin')
                sb = spikeglx.Reader(rec.path('bin')); rs.append(sb)
                sm = spikeglx.Reader(rec.path('meta')); rs.append(sm)
                return sb.meta is not None and tuple(sb.shape) == (100, 3) and sm.file_bin is None
        finally:
            for r in rs:
                r.close()
            rec.close()

    return {'meta_entry_with_per_dataset_uuid_resolves_no_data_file': meta_uuid,
            'compress_rename_failure_next_to_stale_cbin_orphans_header': orphan_header,
            'compress_interrupted_after_header_next_to_stale_cbin_orphans_header': orphan_header_at_check,
            'cbin_negative_step_sample_slice': neg_step,
            'cbin_int_sample_index_below_minus_ns_wraps': below_minus_ns,
            'cbin_numpy_integer_sample_index_empty': numpy_int}
