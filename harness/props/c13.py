"""C13 — Extracted waveforms equal the source data and the saved files agree row by row
(ibldsp.waveform_extraction: extract_wfs_array, _make_wfs_table, write_wfs_chunk, extract_wfs_cbin,
WaveformsLoader.load_waveforms; ibldsp.utils.make_channel_index)."""
import collections
import inspect
import shutil
import tempfile
import warnings
from fractions import Fraction
from pathlib import Path

import numpy as np

ID = 'C13'
DRIVER = 'C13'
LEAN_TARGETS = ['IblVerif.Properties.C13']
THEOREMS = [
    'IblVerif.C13.neighbours_exact',
    'IblVerif.C13.within_radius_iff',
    'IblVerif.C13.extract_eq_source',
    'IblVerif.C13.waveform_is_neighbourhood_window',
    'IblVerif.C13.chunk_independent',
    'IblVerif.C13.per_unit_count',
    'IblVerif.C13.rows_agree',
    'IblVerif.C13.schedule_and_chunk_independent',
    'IblVerif.C13.templates_are_cluster_medians',
    'IblVerif.C13.templates_rows_are_units_partial',
    'IblVerif.C13.templates_shifted_counterexample',
    'IblVerif.C13.loader_returns_saved',
    'IblVerif.C13.extraction_depends_on_content_only',
    'IblVerif.C13.history_independent',
    'IblVerif.C13.chunks_partition_recording',
    'IblVerif.C13.template_single_waveform',
]
RULE = ('five kinds of cases, all drawn from ctx.rng.  (1) chidx: a geometry (first n sites of the real NP1 / NP2 / NP2 4-shank '
        'tables, dense grids, random integer sites incl. coincident ones; n = 1..384) x a radius (0, table values, exactly the distance '
        'of a site pair, half a micron below it) x pad value.  (2) extract: extract_wfs_array on a formula recording value(c,t) = (t*K+c) mod M '
        'with small trough_offset/length, 1..6 spikes whose windows start at sample 0, end at the last sample, one past either end '
        '(AssertionError / IndexError / NumPy wrap-around are compared too), peak channels at both probe ends and out of range, with / '
        'without the NaN row.  (3) bin: extract_wfs_cbin(preprocess_steps=[]) on a float32 .bin file of the same formula, spike trains '
        'sorted in time built from edge times (0, offset, offset+1, ns-(len-offset)-1, ns-(len-offset), ns-1; for the window of the case), chunk-boundary times '
        '(i*cs-1, i*cs, i*cs+1, i*cs+-offset), duplicates across and within units, unit sizes below / at / above max_wf, units without '
        'any valid spike, peak channels at probe ends; chunk size 500..10000 (ns up to ~4 chunks, also ns < cs, ns = k*cs, ns = k*cs+1), '
        'n_jobs 1..8, seeds, window (trough_offset, spike_length_samples) = 42/128 (half the cases), 30/64, 42/96, 10/128, 0/16, 64/64, 20/200 or random; the RNG choice is read back from the saved table and given to the model; every file '
        '(table, traces, channel map, templates), the loader aggregate and load_waveforms(labels, indices) are compared exactly.  '
        'State carried between calls (the model is a pure function of its arguments): in every chidx / extract case and every third bin case the real '
        'function is called again with the SAME argument objects after another library call on other data (make_channel_index x3; extract_wfs_array x3; '
        'extract_wfs_cbin twice into two output directories; one WaveformsLoader serving load(key), load(), load(key); files re-read afterwards).  The FIRST '
        'result is what is compared with the model of the original values; a later result that differs from it is appended to the implementation answer (a '
        'disagreement) and the oracle returns it as a concrete call sequence with its wrong result.  An argument array changed in place is only recorded as '
        'a tag / note (no demand), results aliasing internal buffers are not examined.  '
        '(4) bounds: the statements of extract_wfs_cbin that build the chunk list and hand table rows to the jobs (np.arange(0, ns, cs); + cs; [-1] = ns; '
        'np.searchsorted(sample column, [s0, s1])) evaluated by NumPy vs chunkStarts / chunkEnd / searchLeft of the model, ns in {0, 1, cs-1, cs, cs+1, k*cs, k*cs+-1, random}, '
        'cs 1..10000, sample columns with entries on chunk starts, at ns-1 / ns / beyond and duplicates (this checks the NumPy meaning the tie theorem chunk_bounds_eq gives the '
        'translated statements).  (5) tmpl: np.nanmedian(wfs[first:last+1], axis=0) into a float32 array vs template2 of the model on 1..6 small integer waveforms '
        '(40 % a single waveform) with NaN samples, all-NaN padding channels and all-NaN columns.  '
        'Chunk-size sweep: for some bin cases a second run with 1 worker and a chunk size >= the window length (and >= trough_offset, at most ~150 chunks) taken from '
        '{the smallest such size, +1, a size leaving a last chunk shorter than a window, ns-1, ns, ns+7}; the files must be identical (op independence, tag sweep:...).  '
        'A case is non-trivial when it produces >= 1 waveform (bin), succeeds with >= 1 spike (extract), has >= 2 sites (chidx), ns > 0 (bounds), always (tmpl); '
        'distinct by the full input')
ASSUMPTIONS = [
    'spike trains are sorted in time (as spike sorters deliver them); unsorted input makes np.searchsorted meaningless and is outside the property',
    'site coordinates are integers (true for every Neuropixels table) and the radius is a multiple of 0.5 um, so that float64 sqrt(d2) <= r is exactly d2 <= floor(r^2)',
    'extract_wfs_cbin is exercised with the default window 42/128 and with 30/64, 42/96, 10/128, 0/16, 64/64, 20/200 and random (offset <= length, offset <= chunk size)',
    'template row i is compared with the model of the code (i-th cluster that has waveforms); "row i = unit i" is proved and demanded by the oracle only when no unit without valid spikes precedes a unit with valid spikes (known finding templates-skip-empty-unit)',
    'a spike train without any valid spike makes extract_wfs_cbin raise IndexError; the model has the same error branch, the oracle skips such inputs (reported, see known finding no-valid-spike)',
    'recording values are integers below 2^23 so float32 and the float32 mean inside nanmedian are exact; templates are compared as 2*median',
    'repeating a call with the same argument objects (same loader object) must give the same result as the first call; whether arguments are modified in place or results alias caches is NOT demanded, only its consequence on later results (the unchanged code modifies no argument)',
    'input forms drawn independently of the values (tagged; the replay carries the form): spike_samples int64/int32/uint64/uint32/float64, spike_clusters and spike_channels int64/int32/uint32/uint16 (unsigned only for non-negative ids), h x/y int64/float64/float32, bin_file str or Path, max_wf / chunksize_samples / trough_offset as Python or numpy ints, positional vs keyword call in the documented signature order (make_channel_index, extract_wfs_array, extract_wfs_cbin), arr C/F order and float32/float64, df columns and neighbour table int64/int32/unsigned, radius float/np.float64/np.float32/int, labels / indices list / tuple / ndarray',
    'excluded forms: output_dir as str (extract_wfs_cbin calls output_dir.joinpath: AttributeError, the API wants a Path); spike_length_samples as a numpy integer (known finding np-int-spike-length); a uint64 sample column for extract_wfs_array (known finding extract-array-uint64-sample); unsigned sample columns with trough_offset > spike_length_samples (outside the domain: Python int -1 out of bounds)',
    'chunk sizes >= trough_offset (the property says 500..10000; the sweep also uses sizes down to the window length, where the model theorem '
    'schedule_and_chunk_independent already applies: it only needs trough_offset <= chunk size); peak channels within the probe; max_wf >= 1',
    'ops bounds / tmpl compare the model with NumPy evaluating the statement as the source writes it, not with a call of the library (the chunk list and the job '
    'arguments are internal: a rewrite that chunks differently but saves the same files must not alarm, so they are never observed on the real code); a mismatch there '
    'has no library input to report and is not searched',
    'cases with more than 240 waveform rows x neighbours travel as a 61-bit order-sensitive polynomial digest of every traces / templates row (computed from the full arrays on both sides) instead of the full text; smaller cases compare every value',
]
TRUSTED = [
    'rng.choice(a, k, replace=False) returns k distinct members of a (the law is evaluated on the choice read back from the table in every case)',
    'joblib runs every submitted chunk exactly once (in any order); np.sort / np.argsort(kind=stable) / pandas sort_values on two keys are (stable) sorts',
    'spikeglx.Reader on a flat float32 .bin returns the file contents (C01); pandas/parquet and np.save/np.load round-trip values',
    'float64 sqrt is correctly rounded (scipy pdist), used through within_radius_iff',
    'translator tie (harness/pyfn2lean.py): its reading of the source text; the NumPy meaning given to the translated array statements in Tie/C13.lean '
    '(arange / + / [-1] = : compared with NumPy itself by op bounds); per-item assumptions h is not None, the file is not mtscomp, car and kfilt not both, pad_val is None',
]
LEVEL_TEXT = ('Lean 4 theorems for all geometries, radii, recordings, spike trains, choices, chunk sizes and schedules: neighbour rows are exactly the '
              'ascending within-radius sets padded with nc; extract_wfs_array returns the source window on those channels (NaN for padding); '
              'chunk-local extraction equals the global window; each unit gets min(max_wf, #valid) distinct valid spikes; saved table row r, '
              'traces row r and channel-map row r describe the same spike; the result does not depend on chunk size or execution order; templates '
              'are the per-cluster medians of exactly the cluster rows (a unit with one waveform: that waveform); the loader returns the saved rows; the chunk list is a '
              'partition of the recording for every chunk size >= 1 (also not dividing ns, last chunk shorter than a window); the result depends on the recording only '
              'through the values inside its dimensions (current file content) and on nothing an earlier call did.  The model is tied to the code twice: an exact '
              'differential run (every saved file compared value by value) and a translator tie re-proved on every run against the current source text '
              '(Tie/C13: chunk-local arithmetic of write_wfs_chunk; validity mask, min(max_wf, nspikes) and padding value of _make_wfs_table; chunk bounds, searchsorted / job '
              'bounds and template slice end of extract_wfs_cbin; <= radius, default pad and row loop of make_channel_index).')
LEVEL_NOTE = ('trusted: Lean kernel, the Python correspondence harness, the RNG law (checked on every case), joblib runs each chunk once, '
              'float sqrt correctly rounded.  Not proved: anything about preprocessing steps (butterworth / phase shift / car: only preprocess_steps=[] is exact), '
              'data_version-1 (4-D) loader branch and random_waveforms; index_within_clusters is only proved to be computable (no ValueError), its values (0,1,2,... within each unit) '
              'are compared numerically in every case (partial).  Not covered by the translator tie (outside its subset, differential run only): the removal of the padding '
              '(wf_idx[wf_idx >= 0]: a Boolean-mask subscript), np.sort / argsort / unique, waveform_index assignment through .loc, pandas aggregate (first_index / last_index), '
              'index_within_clusters, WaveformsLoader.load_waveforms (ismember / isin), the gather arr[:, sind][cind] of extract_wfs_array, n_jobs (read as given).  '
              'history_independent is a statement about the pure model; that the real code carries no state between calls is what the call-sequence / path-history cases sample.  '
              'Known findings excluded by hypothesis: template rows shifted when a unit has no valid spike, no valid spike at all')
TECHNIQUE = ('Lean 4 proofs over an exact Nat/Int model (list induction, uniqueness of the stable sort, omega; kernel evaluation of concrete witnesses); '
             'RNG and schedule as parameters with their laws as hypotheses; exact differential run against the real code incl. joblib workers, call sequences and '
             'path histories; translator tie: integer / decision skeleton of write_wfs_chunk, _make_wfs_table, extract_wfs_cbin, make_channel_index regenerated from the '
             'source on every run and proved equal to the model definitions (unfold + simp / omega, induction on the translated loop)')

MOD = 8388593            # prime < 2^23
R_FILE = 200             # make_channel_index default radius used by extract_wfs_cbin
_HDR = {}


# ---------------------------------------------------------------------------------------------
# helpers
# ---------------------------------------------------------------------------------------------
def _L(l):
    l = list(l)
    return ','.join(str(int(v)) for v in l) if len(l) else '-'


def _header(name):
    import neuropixel
    if name not in _HDR:
        if name == 'np1':
            h = neuropixel.trace_header(version=1)
        elif name == 'np2':
            h = neuropixel.trace_header(version=2)
        else:
            h = neuropixel.trace_header(version=2, nshank=4)
        x = np.asarray(h['x']).astype(int)
        y = np.asarray(h['y']).astype(int)
        assert np.array_equal(x, np.asarray(h['x'])) and np.array_equal(y, np.asarray(h['y']))
        if name == 'np2s4off':
            x = x + 250 * np.asarray(h['shank']).astype(int)
        _HDR[name] = (x, y)
    return _HDR[name]


def geom_xy(spec):
    """spec -> integer site coordinates (x, y)."""
    kind = spec[0]
    if kind in ('np1', 'np2', 'np2s4', 'np2s4off'):
        x, y = _header(kind)
        n, start = spec[1], (spec[2] if len(spec) > 2 else 0)
        return x[start:start + n].copy(), y[start:start + n].copy()
    if kind == 'grid':
        _, ncol, nrow, dx, dy = spec
        x = np.tile(np.arange(ncol) * dx, nrow)
        y = np.repeat(np.arange(nrow) * dy, ncol)
        return x.astype(int), y.astype(int)
    if kind == 'sites':
        return np.array(spec[1], int), np.array(spec[2], int)
    raise ValueError(spec)


def r2_of(radius):
    fr = Fraction(radius)
    assert fr >= 0 and (fr * 2).denominator == 1, 'radius must be a non-negative multiple of 0.5'
    return int((fr * fr).__floor__())


def gen_geom(rng, small=True):
    k = int(rng.integers(0, 8))
    nmax = 40 if small else 384
    if k <= 3:
        name = ['np1', 'np2', 'np2s4', 'np2s4off'][k]
        n = int(rng.choice([1, 2, 3, 4, 7, 12, 16, 24, 33, nmax, int(rng.integers(1, nmax + 1))]))
        n = min(n, nmax)
        start = int(rng.choice([0, 0, 96 - n // 2 if n < 96 else 0, 384 - n]))
        if name in ('np2s4', 'np2s4off') and n <= 40 and rng.random() < 0.5:
            start = 96 - n // 2            # straddle two shanks
        return (name, n, max(start, 0))
    if k == 4:
        return ('grid', int(rng.integers(1, 5)), int(rng.integers(1, 11)), int(rng.choice([6, 16, 32, 48, 100])),
                int(rng.choice([6, 15, 20, 40, 100, 250])))
    if k == 5:      # NP-ultra like dense grid
        return ('grid', int(rng.integers(2, 9)), int(rng.integers(1, 6)), 6, 6)
    n = int(rng.integers(1, 17))
    span = int(rng.choice([3, 50, 400]))
    return ('sites', [int(v) for v in rng.integers(-span, span + 1, n)], [int(v) for v in rng.integers(0, 2 * span + 1, n)])


def gen_radius(rng, x, y):
    k = int(rng.integers(0, 6))
    n = len(x)
    if k == 0:
        return float(rng.choice([0, 0.5, 1, 15, 16, 20, 25, 32, 35.5, 40, 60, 75, 100, 150, 200, 250, 500, 10000]))
    if k in (1, 2) and n >= 2:       # exactly the distance of a pair (when it is an integer), or just below
        for _ in range(20):
            a, b = rng.integers(0, n, 2)
            d2 = int((x[a] - x[b]) ** 2 + (y[a] - y[b]) ** 2)
            d = int(np.sqrt(d2))
            d = d if d * d <= d2 else d - 1
            d = d + 1 if (d + 1) * (d + 1) <= d2 else d
            if d * d == d2 and d > 0:
                return float(d) if k == 1 else d - 0.5
        return float(d) + 0.5
    return float(int(rng.integers(0, 120))) / 2 * float(rng.choice([1, 1, 4]))


def brute_neighbours(x, y, radius):
    """ascending within-radius sets, straight from the property text (exact integer arithmetic)"""
    r2 = Fraction(radius) ** 2
    n = len(x)
    return [[j for j in range(n) if (int(x[c]) - int(x[j])) ** 2 + (int(y[c]) - int(y[j])) ** 2 <= r2] for c in range(n)]


def formula(ns, K, nrows):
    """value(row c, sample t) = (t*K + c) mod MOD, shape (nrows, ns), float64"""
    t = np.arange(ns, dtype=np.int64)[None, :]
    c = np.arange(nrows, dtype=np.int64)[:, None]
    return ((t * K + c) % MOD).astype(np.float64)


def canon_vals(a, scale=1):
    """array (..., len) -> list of comma joined strings along the last axis ('n' for NaN); values*scale must be integers"""
    a = np.asarray(a, dtype=np.float64) * scale
    nan = np.isnan(a)
    z = np.where(nan, 0, a)
    if not np.all(z == np.round(z)):
        return None
    s = np.char.mod('%d', z.astype(np.int64))
    s = np.where(nan, 'n', s)
    return s


def show_wfs(a, scale=1):
    s = canon_vals(a, scale)
    if s is None:
        return 'non-integer-values'
    if s.shape[0] == 0:
        return '-'
    return ';'.join('|'.join(','.join(r) for r in w) for w in s)


def digest_wfs(a, scale=1):
    a = np.asarray(a, dtype=np.float64) * scale
    if a.shape[0] == 0:
        return '-'
    nan = np.isnan(a)
    z = np.where(nan, 0, a)
    if not np.all(z == np.round(z)):
        return 'non-integer-values'
    zi = z.astype(np.int64)
    code = np.where(nan, 1, np.where(zi < 0, 3 + 2 * np.abs(zi), 2 + 2 * np.abs(zi)))
    P = 2305843009213693951
    out = []
    for w in code:
        h = 17
        for r in w:
            h = (h * 1000003 + 7) % P
            for v in r.tolist():
                h = (h * 1000003 + v) % P
        out.append(h)
    return ','.join(map(str, out))


def err_name(e):
    n = type(e).__name__
    return 'err ' + (n if n in ('IndexError', 'AssertionError', 'ValueError') else n)


# ---------------------------------------------------------------------------------------------
# input FORMS: the model is over values, so every legitimate representation of the same call must give the same answer
# ---------------------------------------------------------------------------------------------
def _scalar(v, kind):
    """an integer-valued parameter as Python int / numpy narrow or wide int"""
    return {'int': int, 'np.int64': np.int64, 'np.int32': np.int32, 'np.int16': np.int16, 'np.uint16': np.uint16}[kind](v)


def _pick(rng, seq):
    return seq[int(rng.integers(0, len(seq)))]


def form_chidx(rng, radius):
    if rng.random() < 0.4:
        return {}
    rk = ['float', 'np.float64', 'np.float32'] + (['int'] if float(radius).is_integer() else [])
    return {'geom_dtype': _pick(rng, ['float64', 'float32', 'int64', 'int32']), 'order': _pick(rng, ['C', 'F']),
            'radius_as': _pick(rng, rk), 'spelling': _pick(rng, ['keyword', 'positional'])}


def form_extract(rng, samples, peaks, off, ln):
    if rng.random() < 0.4:
        return {}
    signed = any(v < 0 for v in samples) or any(v < 0 for v in peaks)
    ints = ['int64', 'int32'] + ([] if signed else ['uint64', 'uint32', 'uint16'])
    # unsigned sample column: uint64 is the known finding extract-array-uint64-sample; narrower ones only inside the domain off <= len
    sints = ['int64', 'int32'] + ([] if (signed or off > ln) else ['uint32', 'uint16'])
    return {'order': _pick(rng, ['C', 'F']), 'sample_dtype': _pick(rng, sints), 'peak_dtype': _pick(rng, ints),
            'cn_dtype': _pick(rng, ['int64', 'int32']), 'spelling': _pick(rng, ['keyword', 'positional']),
            'params_as': _pick(rng, ['int', 'np.int64', 'np.int16'])}


def form_bin(rng, inp):
    if rng.random() < 0.35:
        return {}
    neg = any(v < 0 for v in inp['clusters'])
    big = max(inp['clusters'], default=0) > 60000 or max(inp['chans'], default=0) > 60000
    cd = ['int64', 'int32'] + ([] if neg else ['uint32'] + ([] if big else ['uint16']))
    return {'samples_dtype': _pick(rng, ['int64', 'int32', 'uint64', 'uint64', 'uint32', 'float64']), 'clusters_dtype': _pick(rng, cd),
            'chans_dtype': _pick(rng, ['int64', 'int32', 'uint32', 'uint16']), 'h_dtype': _pick(rng, ['int64', 'float64', 'float32']),
            'bin_as': _pick(rng, ['Path', 'str']), 'params_as': _pick(rng, ['int', 'np.int64', 'np.int32']),
            'spelling': _pick(rng, ['keyword', 'positional']), 'select_as': _pick(rng, ['list', 'ndarray', 'tuple'])}


def form_tags(form, keys):
    return tuple(f'{k}={form.get(k, "canonical")}' for k in keys) if form else ('form=canonical',)


# ---------------------------------------------------------------------------------------------
# (1) make_channel_index
# ---------------------------------------------------------------------------------------------
def _same(a, b):
    a, b = np.asarray(a), np.asarray(b)
    return a.shape == b.shape and a.dtype == b.dtype and bool(np.array_equal(a, b, equal_nan=(a.dtype.kind == 'f')))


def chidx_calls(x, y, radius, pad, form=None):
    """make_channel_index called repeatedly on the SAME geom object, another geometry in between:
    (result of the first call | exception, message when a later call returns something else | None, argument modified?).
    The first result is what is compared with the model of the ORIGINAL coordinates; a modified argument is only recorded."""
    from ibldsp.utils import make_channel_index as _mci
    form = form or {}
    geom = np.array(np.c_[x, y], dtype=form.get('geom_dtype', 'float64'), order=form.get('order', 'C'))
    rad = {'float': float, 'np.float64': np.float64, 'np.float32': np.float32, 'int': int}[form.get('radius_as', 'float')](radius)

    def make_channel_index(g, radius=None, pad_val=None):
        if form.get('spelling') == 'positional' and g is geom:
            return _mci(g, rad, pad_val)           # (geom, radius, pad_val): the order of the documented signature
        return _mci(g, radius=rad if g is geom else radius, pad_val=pad_val)
    g0 = geom.copy()
    try:
        r1 = make_channel_index(geom, radius=radius, pad_val=pad)
    except Exception as e:
        return e, None, not _same(geom, g0)
    first = np.array(r1, copy=True)
    if len(x) > 1:
        make_channel_index(np.c_[y[::-1], x[::-1]].astype(float) * 2 + 1, radius=radius + 3)
    try:
        r = make_channel_index(geom, radius=radius, pad_val=pad)
    except Exception as e:
        return first, (f'call sequence g = geom; make_channel_index(g, radius={radius}); make_channel_index(other geometry); make_channel_index(g, radius={radius}) '
                       f'raised {type(e).__name__}: {e}'), not _same(geom, g0)
    msg = None
    if not (r.shape == first.shape and np.array_equal(r, first)):
        msg = (f'call sequence g = geom; make_channel_index(g, radius={radius}, pad_val={pad}); make_channel_index(other geometry); '
               f'make_channel_index(g, radius={radius}, pad_val={pad}) on the same object returned {r.tolist()[:2]}..., the neighbour table of the '
               f'original coordinates is {first.tolist()[:2]}...')
    return first, msg, not _same(geom, g0)


def impl_chidx(x, y, radius, pad, form=None):
    ci, msg, _ = chidx_calls(x, y, radius, pad, form)
    if isinstance(ci, Exception):
        return err_name(ci)
    return 'ok ' + (';'.join(_L(r) for r in ci) or '-') + ('' if msg is None else ' !second-call: ' + msg)


def oracle_chidx(spec, radius, form=None):
    from ibldsp.utils import make_channel_index
    x, y = geom_xy(spec)
    n = len(x)
    nb = brute_neighbours(x, y, radius)
    w = max(len(r) for r in nb)
    ci, msg, _ = chidx_calls(x, y, radius, None, form)
    if isinstance(ci, Exception):
        return f'make_channel_index raised {type(ci).__name__}: {ci}'
    if msg:
        return msg
    exp = np.array([r + [n] * (w - len(r)) for r in nb], int).reshape(n, w)
    if ci.shape != exp.shape:
        return f'channel index has shape {ci.shape}, expected {exp.shape} (form {form or "canonical"})'
    if not np.array_equal(ci, exp):
        c = int(np.where(np.any(ci != exp, axis=1))[0][0])
        return f'row {c} is {ci[c].tolist()}, expected the ascending sites within {radius} um padded with {n}: {exp[c].tolist()} (form {form or "canonical"})'
    return None


# ---------------------------------------------------------------------------------------------
# (2) extract_wfs_array
# ---------------------------------------------------------------------------------------------
def extract_calls(arr, samples, peaks, cn, off, ln, add_nan, form=None):
    """extract_wfs_array called twice on the SAME arr / df / channel_neighbors objects, another extraction in between:
    (wfs of the first call | exception, message when the second call returns something else | None).  The first result is
    what is compared with the model of the ORIGINAL values."""
    import pandas as pd
    from ibldsp.waveform_extraction import extract_wfs_array as _ewa
    form = form or {}
    arr = np.array(arr, order=form.get('order', 'C'))
    cn = cn.astype(form.get('cn_dtype', 'int64'))
    df = pd.DataFrame({'sample': np.array(samples, dtype=form.get('sample_dtype', 'int64')),
                       'peak_channel': np.array(peaks, dtype=form.get('peak_dtype', 'int64'))})
    a0, c0, d0 = arr.copy(), cn.copy(), df.copy(deep=True)
    kw = dict(trough_offset=_scalar(off, form.get('params_as', 'int')), spike_length_samples=_scalar(ln, form.get('params_as', 'int')),
              add_nan_trace=bool(add_nan))

    def extract_wfs_array(a, d, c, **k):
        if form.get('spelling') == 'positional':   # (arr, df, channel_neighbors, trough_offset, spike_length_samples, add_nan_trace)
            return _ewa(a, d, c, k['trough_offset'], k['spike_length_samples'], k['add_nan_trace'])
        return _ewa(a, d, c, **k)
    try:
        wfs, cind, off_r = extract_wfs_array(arr, df, cn, **kw)
    except Exception as e:
        return e, None
    first = np.array(wfs, copy=True)
    if off_r != off:
        return first, f'returned trough offset {off_r} != {off}'
    if len(samples):
        try:
            extract_wfs_array(a0[::-1].copy() + 1, d0.copy(deep=True), c0.copy(), **kw)
        except Exception:
            pass
    seq = ('call sequence extract_wfs_array(arr, df, cn, ...); extract_wfs_array(other array, ...); extract_wfs_array(arr, df, cn, ...) '
           'with the same objects: the last call ')
    try:
        wfs2 = extract_wfs_array(arr, df, cn, **kw)[0]
    except Exception as e:
        return first, seq + f'raised {type(e).__name__}: {e}'
    if not _same(wfs2, first):
        bad = np.argwhere(~((wfs2 == first) | (np.isnan(wfs2) & np.isnan(first))))[0] if wfs2.shape == first.shape else None
        return first, seq + (f'returned shape {wfs2.shape} instead of {first.shape}' if bad is None else
                             f'returned wfs{bad.tolist()} = {wfs2[tuple(bad)]}, the source window of the original df gives {first[tuple(bad)]}')
    return first, None


def _extract_args(case):
    from ibldsp.utils import make_channel_index
    x, y = geom_xy(case['geom'])
    nd, ns, K = len(x), case['ns'], case['K']
    arr = formula(ns, K, nd)
    if case['has_nan']:
        arr = np.vstack([arr, np.full((1, ns), np.nan)])
    arr = arr.astype(case.get('dtype', 'float64'))
    cn = make_channel_index(np.c_[x, y].astype(float), radius=case['radius'])
    return arr, cn


def impl_extract(case):
    arr, cn = _extract_args(case)
    wfs, msg = extract_calls(arr, case['samples'], case['peaks'], cn, case['off'], case['len'], case['add_nan'], case.get('form'))
    tail = '' if msg is None else ' !second-call: ' + msg
    if isinstance(wfs, Exception):
        return err_name(wfs) + tail
    return 'ok ' + show_wfs(wfs) + tail


def line_extract(case):
    x, y = geom_xy(case['geom'])
    return (f"extract {len(x)} {int(case['has_nan'])} {int(case['add_nan'])} {case['ns']} {case['K']} {MOD} {_L(x)} {_L(y)} "
            f"{r2_of(case['radius'])} {case['off']} {case['len']} {_L(case['samples'])} {_L(case['peaks'])}")


def gen_extract(rng):
    spec = gen_geom(rng, small=True)
    x, y = geom_xy(spec)
    nc = len(x)
    radius = gen_radius(rng, x, y)
    ln = int(rng.choice([1, 2, 3, 5, 8, 12]))
    off = int(rng.integers(0, ln + 2))
    ns = int(rng.integers(ln + 2, 60))
    hi = ns - (ln - off) - 1            # largest sample the assertion accepts
    pool = [off, off + 1, hi, hi - 1, ns // 2, int(rng.integers(0, ns)), int(rng.integers(0, ns))]
    k = int(rng.integers(0, 10))
    bad = []
    if k == 0:
        bad = [off - 1]                 # window starts before the recording: NumPy wraps
    elif k == 1:
        bad = [hi + 1]                  # window ends exactly at the last sample: fine unless it is the last row
    elif k == 2:
        bad = [hi + 2, ns + 3]
    nsp = int(rng.integers(1, 7))
    samples = [int(v) for v in rng.choice(pool + bad * 3, nsp)]
    if k == 3:
        samples = []
    if rng.random() < 0.7:
        samples.sort()
    peaks = [int(rng.choice([0, nc - 1, int(rng.integers(0, nc))])) for _ in samples]
    if k == 4 and peaks:
        peaks[int(rng.integers(0, len(peaks)))] = int(rng.choice([nc, -1, -nc, -nc - 1]))
    has_nan, add_nan = [(0, 1), (0, 1), (1, 0), (1, 0), (1, 1), (0, 0)][int(rng.integers(0, 6))]
    return {'kind': 'extract', 'form': form_extract(rng, samples, peaks, off, ln),
            'geom': spec, 'radius': radius, 'ns': ns, 'K': nc + 1 + int(rng.integers(0, 3)), 'off': off, 'len': ln,
            'samples': samples, 'peaks': peaks, 'has_nan': has_nan, 'add_nan': add_nan,
            'dtype': 'float32' if rng.random() < 0.5 else 'float64'}


def oracle_extract(case):
    """in-domain only: every window inside the recording, peaks on the probe, NaN row present"""
    import pandas as pd
    from ibldsp.utils import make_channel_index
    from ibldsp.waveform_extraction import extract_wfs_array
    x, y = geom_xy(case['geom'])
    nc, ns, off, ln = len(x), case['ns'], case['off'], case['len']
    if not case['samples'] or not (case['has_nan'] or case['add_nan']):
        return None
    if any(not (off <= s and s + (ln - off) < ns) for s in case['samples']) or any(not (0 <= p < nc) for p in case['peaks']):
        return None
    src = formula(ns, case['K'], nc)
    arr = src.copy()
    if case['has_nan']:
        arr = np.vstack([arr, np.full((1, ns), np.nan)])
    if case['has_nan'] and case['add_nan']:
        return None
    arr = arr.astype(case.get('dtype', 'float64'))
    cn = make_channel_index(np.c_[x, y].astype(float), radius=case['radius'])
    wfs, msg = extract_calls(arr, case['samples'], case['peaks'], cn, off, ln, case['add_nan'], case.get('form'))
    if isinstance(wfs, Exception):
        return f'extract_wfs_array raised {type(wfs).__name__}: {wfs}'
    if msg:
        return msg
    nb = brute_neighbours(x, y, case['radius'])
    w = max(len(r) for r in nb)
    for i, (s, p) in enumerate(zip(case['samples'], case['peaks'])):
        exp = np.full((w, ln), np.nan)
        for k, c in enumerate(nb[p]):
            exp[k] = src[c, s - off:s - off + ln]
        if wfs[i].shape != exp.shape or not np.array_equal(wfs[i], exp, equal_nan=True):
            return (f'waveform {i} (sample {s}, peak channel {p}) differs from the source window [{s - off}, {s - off + ln}) on channels '
                    f'{nb[p]}: got {np.asarray(wfs[i]).tolist()[:2]}..., expected {exp.tolist()[:2]}...')
    return None


# ---------------------------------------------------------------------------------------------
# (3) extract_wfs_cbin + loader
# ---------------------------------------------------------------------------------------------
def wf_defaults():
    from ibldsp import waveform_extraction as we
    pa = inspect.signature(we.extract_wfs_array).parameters
    pc = inspect.signature(we.extract_wfs_cbin).parameters
    return (pa['trough_offset'].default, pa['spike_length_samples'].default,
            pc['trough_offset'].default, pc['spike_length_samples'].default, pc['max_wf'].default)


class BinRun:
    """extract_wfs_cbin (and WaveformsLoader) on a scratch directory.  With deep=True the call sequence
    extract_wfs_cbin(args -> out); make_channel_index(other geometry); extract_wfs_cbin(the SAME argument objects -> out2)
    must give the same files in out2 as in out (which are the ones compared with the model of the ORIGINAL arguments), and on
    ONE loader object  load_waveforms(key); load_waveforms(); load_waveforms(key)  must return the same rows twice and leave
    the saved files as they were.  `self.impure` describes the first such wrong RESULT (None when there is none);
    `self.arg_modified` only records (tag) that an argument array / dict was changed in place."""

    FILES = ('index', 'sample', 'cluster', 'peak_channel', 'waveform_index', 'index_within_clusters')

    def _read(self, out):
        import pandas as pd
        tb = pd.read_parquet(out / 'waveforms.table.pqt')
        return (np.load(out / 'waveforms.traces.npy'), np.load(out / 'waveforms.templates.npy'),
                np.load(out / 'waveforms.channels.npz')['channels'], {k: tb[k].to_numpy() for k in self.FILES})

    def __init__(self, inp, loader=True, deep=False):
        from ibldsp import waveform_extraction as we
        from ibldsp.utils import make_channel_index
        x, y = geom_xy(inp['geom'])
        nc, ns = len(x), inp['ns']
        K = nc + 1
        self.err = None
        self.impure = None
        self.arg_modified = None
        d = Path(tempfile.mkdtemp(prefix='c13_'))
        try:
            t = np.arange(ns, dtype=np.int64)[:, None]
            c = np.arange(K, dtype=np.int64)[None, :]
            content = ((t * K + c) % MOD).astype(np.float32)
            content.tofile(d / 'rec.bin')
            self.prior = None
            kw = {}
            if 'off' in inp:
                kw['trough_offset'] = inp['off']
            if 'len' in inp:
                kw['spike_length_samples'] = inp['len']
            form = inp.get('form') or {}
            args = {'samples': np.array(inp['samples'], dtype=form.get('samples_dtype', 'int64')),
                    'clusters': np.array(inp['clusters'], dtype=form.get('clusters_dtype', 'int64')),
                    'chans': np.array(inp['chans'], dtype=form.get('chans_dtype', 'int64')),
                    'x': x.astype(form.get('h_dtype', 'int64')), 'y': y.astype(form.get('h_dtype', 'int64'))}
            if not (np.array_equal(args['samples'], inp['samples']) and np.array_equal(args['clusters'], inp['clusters'])
                    and np.array_equal(args['chans'], inp['chans'])):
                raise ValueError(f'form {form} cannot represent the spike values')
            pa = form.get('params_as', 'int')
            binf = str(d / 'rec.bin') if form.get('bin_as') == 'str' else d / 'rec.bin' 
            h = {'x': args['x'], 'y': args['y']}
            rk = {'ns': ns, 'nc': K, 'nsync': 1, 'dtype': 'float32', 'fs': 30000}
            snap = {k: v.copy() for k, v in args.items()}
            rk0 = dict(rk)

            off_, ln_ = window_of(inp)

            def call(out):
                out.mkdir()
                if form.get('spelling') == 'positional':
                    # (bin_file, output_dir, spike_samples, spike_clusters, spike_channels, h, channel_labels, max_wf, trough_offset,
                    #  spike_length_samples, chunksize_samples, reader_kwargs, n_jobs, wfs_dtype, preprocess_steps, seed, scratch_dir)
                    we.extract_wfs_cbin(binf, out, args['samples'], args['clusters'], args['chans'], h, None, _scalar(inp['max_wf'], pa),
                                        _scalar(off_, pa), int(ln_), _scalar(inp['cs'], pa), rk, inp['n_jobs'], np.float32, [],
                                        inp['seed'], None)
                else:
                    we.extract_wfs_cbin(binf, out, args['samples'], args['clusters'], args['chans'], h=h, reader_kwargs=rk,
                                        max_wf=_scalar(inp['max_wf'], pa), chunksize_samples=_scalar(inp['cs'], pa), n_jobs=inp['n_jobs'],
                                        preprocess_steps=[], seed=inp['seed'],
                                        **{k: (_scalar(v, pa) if k == 'trough_offset' else int(v)) for k, v in kw.items()})

            def untouched(when):
                for k in snap:
                    if not _same(args[k], snap[k]):
                        return f'{when}: the argument array {k} ({"spike_" + k if k in ("samples", "clusters", "chans") else "h[" + repr(k) + "]"}) was modified in place'
                if list(h) != ['x', 'y'] or h['x'] is not args['x'] or h['y'] is not args['y'] or rk != rk0:
                    return f'{when}: the h / reader_kwargs dict argument was modified'
                return None
            with warnings.catch_warnings():
                warnings.simplefilter('ignore')
                if deep and inp.get('prior', 1):
                    # history of the PATH: an unrelated recording of the same shape is extracted from the same file name first,
                    # then the file is replaced (unlink + rewrite) by the recording of this case
                    ((t * K + c + 4099) % MOD).astype(np.float32).tofile(d / 'rec.bin')
                    try:
                        call(d / 'prev')
                    except Exception:
                        pass
                    shutil.rmtree(d / 'prev', ignore_errors=True)
                    (d / 'rec.bin').unlink()
                    content.tofile(d / 'rec.bin')
                    self.prior = ('before this extraction an unrelated recording of the same shape was extracted from the same path in the '
                                  'same process; the file was then replaced (unlink + rewrite) by this recording')
                try:
                    call(d / 'out')
                    self.arg_modified = untouched('after extract_wfs_cbin')
                    self.traces, self.templates, self.chans, self.table = self._read(d / 'out')
                    self.n = len(self.table['index'])
                    if deep:
                        if len(x) > 1:
                            make_channel_index(np.c_[y[::-1], x[::-1]].astype(float) * 2 + 1)
                        seq = ('call sequence extract_wfs_cbin(bin, out, samples, clusters, channels, h, ...); make_channel_index(other geometry); '
                               'extract_wfs_cbin(bin, out2, the same argument objects, same seed): ')
                        try:
                            call(d / 'out2')
                            tr2, tp2, ch2, tb2 = self._read(d / 'out2')
                            diff = [nm for nm, a_, b_ in (('traces', tr2, self.traces), ('templates', tp2, self.templates), ('channels', ch2, self.chans))
                                    if not _same(a_, b_)] + ['table.' + k for k in self.FILES if not _same(tb2[k], self.table[k])]
                            if diff:
                                eg = ''
                                if tr2.shape == self.traces.shape and 'traces' in diff:
                                    bd = tuple(np.argwhere(~((tr2 == self.traces) | (np.isnan(tr2) & np.isnan(self.traces))))[0])
                                    eg = f'traces{list(map(int, bd))} = {tr2[bd]} in out2, {self.traces[bd]} in out (= the source); '
                                elif ch2.shape == self.chans.shape and 'channels' in diff:
                                    eg = f'channel map rows {ch2[:1].tolist()} in out2, {self.chans[:1].tolist()} in out; '
                                self.impure = seq + (f'{", ".join(diff)} in out2 differ from out: {eg}table samples {tb2["sample"].tolist()[:6]} vs '
                                                     f'{self.table["sample"].tolist()[:6]}, clusters {tb2["cluster"].tolist()[:6]} vs {self.table["cluster"].tolist()[:6]}, '
                                                     f'templates shape {tp2.shape} vs {self.templates.shape}')
                        except Exception as e:
                            self.impure = seq + f'the second call raised {type(e).__name__}: {e}'
                        self.arg_modified = self.arg_modified or untouched('after the second extract_wfs_cbin')
                    if loader:
                        wfl = we.WaveformsLoader(d / 'out')
                        dc = wfl.df_clusters
                        self.agg = [(int(c_), int(r.count), int(r.first_index), int(r.last_index)) for c_, r in zip(dc.index, dc.itertuples())]
                        self.loads = {}

                        def load(key):
                            labels, indices = key
                            conv = {'list': list, 'tuple': tuple, 'ndarray': np.array}[form.get('select_as', 'list')]
                            la = None if labels is None else conv(list(labels))
                            ix = None if indices is None else conv(list(indices))
                            return wfl.load_waveforms(labels=la, indices=ix)
                        for key in inp.get('loads', []):
                            wfs, info, chn = load(key)
                            pos = [int(v) for v in info.index]
                            same = (np.array_equal(np.asarray(wfs), self.traces[pos], equal_nan=True)
                                    and np.array_equal(np.asarray(chn), self.chans[pos].astype(int))
                                    and all(np.array_equal(info[k].to_numpy(), self.table[k][pos]) for k in self.FILES[1:]))
                            self.loads[key] = (pos, bool(same))
                            if deep:
                                keep = (np.array(wfs, copy=True), info.copy(deep=True), np.array(chn, copy=True))
                                load((None, None))
                                w2, i2, c2 = load(key)
                                if not (_same(w2, keep[0]) and _same(c2, keep[2]) and list(i2.index) == list(keep[1].index)
                                        and all(_same(i2[k].to_numpy(), keep[1][k].to_numpy()) for k in keep[1].columns)):
                                    self.impure = self.impure or (f'on one WaveformsLoader object: load_waveforms(labels={key[0]}, indices={key[1]}); load_waveforms(); '
                                                                  f'load_waveforms(labels={key[0]}, indices={key[1]}) returned rows {[int(v) for v in i2.index]} / other '
                                                                  f'contents than the first call (rows {pos})')
                        del wfl
                        if deep:
                            tr3, tp3, ch3, tb3 = self._read(d / 'out')
                            if not (_same(tr3, self.traces) and _same(tp3, self.templates) and _same(ch3, self.chans)
                                    and all(_same(tb3[k], self.table[k]) for k in self.FILES)):
                                self.impure = self.impure or 'call sequence extract_wfs_cbin(...); WaveformsLoader(out).load_waveforms(...) x3; re-reading the files in out: they differ from what extract_wfs_cbin wrote'
                except Exception as e:
                    self.err = e
                    self.arg_modified = self.arg_modified or untouched('after extract_wfs_cbin raised')
        finally:
            shutil.rmtree(d, ignore_errors=True)

    def same_files(self, other):
        if (self.err is None) != (other.err is None):
            return False
        if self.err is not None:
            return type(self.err) is type(other.err)
        return (all(np.array_equal(self.table[k], other.table[k]) for k in self.table)
                and np.array_equal(self.traces, other.traces, equal_nan=True) and np.array_equal(self.chans, other.chans)
                and np.array_equal(self.templates, other.templates, equal_nan=True))


def readback_choice(inp, run):
    """which spike (array index) is each table row?  The `index` column numbers the chosen spikes in ascending
    array index, so rows are matched in that order to the smallest spike with the same (cluster, sample, channel)
    that lies after the previous match.  A row that matches no spike is reported as index len(spikes)."""
    units = sorted(set(inp['clusters']))
    nsp = len(inp['samples'])
    by = collections.defaultdict(list)
    for i, (s, c, p) in enumerate(zip(inp['samples'], inp['clusters'], inp['chans'])):
        by[(c, s, p)].append(i)
    choice = {u: [] for u in units}
    if run.err is None:
        t = run.table
        prev = -1
        for r in np.argsort(t['index'], kind='stable'):
            key = (int(t['cluster'][r]), int(t['sample'][r]), int(t['peak_channel'][r]))
            lst = [i for i in by.get(key, []) if i > prev]
            if lst:
                idx = prev = lst[0]
                by[key].remove(idx)
            else:
                idx = nsp
            choice.setdefault(key[0], []).append(idx)
    return [choice[u] for u in units]


def line_bin(inp, choice, sched, load_key, mode, off, ln):
    x, y = geom_xy(inp['geom'])
    labels, indices = load_key
    return (f"bin {inp['ns']} {len(x)} {len(x) + 1} {MOD} {_L(x)} {_L(y)} {r2_of(R_FILE)} {_L(inp['samples'])} {_L(inp['clusters'])} "
            f"{_L(inp['chans'])} {inp['max_wf']} {off} {ln} {inp['cs']} {_L(sched)} "
            f"{';'.join(_L(c) for c in choice) if choice else '.'} {'none' if labels is None else _L(labels)} "
            f"{'none' if indices is None else _L(indices)} {mode}")


def canon_bin(inp, run, load_key, mode):
    tail = '' if run.impure is None else ' !second-call: ' + run.impure
    if run.err is not None:
        return err_name(run.err) + ' lawful=1' + tail
    t = run.table
    rows = ';'.join(f'{a},{b},{c},{d},{e},{f}' for a, b, c, d, e, f in zip(
        t['index'], t['sample'], t['cluster'], t['peak_channel'], t['waveform_index'], t['index_within_clusters'])) or '-'
    show = digest_wfs if mode == 'digest' else show_wfs
    pos, same = run.loads[load_key]
    return (f"ok lawful=1 units={_L(sorted(set(inp['clusters'])))} table={rows} chans={';'.join(_L(r) for r in run.chans) or '-'}"
            f" clusters={';'.join(','.join(map(str, a)) for a in run.agg) or '-'} traces={show(run.traces)}"
            f" templates2={show(run.templates, 2)} load={_L(pos)}{'' if same else '!content'}" + tail)


WINDOWS = [(30, 64), (42, 96), (10, 128), (0, 16), (64, 64), (20, 200)]


def window_of(inp):
    return inp.get('off', 42), inp.get('len', 128)


def gen_bin(rng, big=False):
    if rng.random() < 0.5:
        dOff, dLen = 42, 128
    elif rng.random() < 0.75:
        dOff, dLen = WINDOWS[int(rng.integers(0, len(WINDOWS)))]
    else:
        dLen = int(rng.integers(1, 161))
        dOff = int(rng.integers(0, dLen + 1))
    if big:
        spec = [('np1', 384, 0), ('np2', 384, 0), ('np2s4', 384, 0), ('np2s4off', 384, 0)][int(rng.integers(0, 4))]
    else:
        spec = gen_geom(rng, small=True)
    x, y = geom_xy(spec)
    nc = len(x)
    cs = int(rng.choice([500, 501, 640, 1000, 3000, 10000, int(rng.integers(500, 10001))]))
    if big:
        cs = int(rng.choice([500, 1000, 3000]))
    k = int(rng.integers(0, 8))
    nch = int(rng.integers(1, 5))
    if k == 0:
        ns = int(rng.integers(200, cs))                 # single short chunk
    elif k == 1:
        ns = nch * cs                                   # exact multiple
    elif k == 2:
        ns = nch * cs + 1                               # last chunk of one sample
    elif k == 3:
        ns = nch * cs + int(rng.integers(1, 130))       # short last chunk (shorter than a window)
    else:
        ns = int(rng.integers(cs // 2, 4 * cs))
    ns = min(ns, 21000 if not big else 4000)
    ns = max(ns, dLen + 60)
    hi = ns - (dLen - dOff)                             # first invalid sample at the end
    edge = sorted(set(e for e in [0, 1, dOff - 1, dOff, dOff + 1, dOff + 2, hi - 2, hi - 1, hi, hi + 1, ns - 1] if 0 <= e < ns))
    bnd = []
    for i in range(1, (ns + cs - 1) // cs):
        bnd += [i * cs - 1, i * cs, i * cs + 1, i * cs - dOff, i * cs + dOff, i * cs - (dLen - dOff), i * cs - (dLen - dOff) - 1]
    bnd = [b for b in bnd if 0 <= b < ns]
    max_wf = int(rng.choice([1, 2, 3, 5, 8]))
    nu = int(rng.integers(1, 5 if not big else 3))
    ids = sorted(set(int(v) for v in rng.choice([0, 1, 2, 3, 5, 7, 11, 40, 1000, -1], nu, replace=False)))
    spikes = []
    for u in ids:
        kind = int(rng.integers(0, 7))
        if kind == 0:
            size = int(rng.integers(1, max_wf + 1))                  # below / at max_wf
        elif kind == 1:
            size = max_wf
        elif kind == 2:
            size = max_wf + 1
        elif kind == 3:
            size = 0                                                  # only invalid spikes
        else:
            size = int(rng.integers(1, 2 * max_wf + 4))
        size = min(size, 12)
        for _ in range(size):
            q = rng.random()
            if q < 0.3:
                s = int(rng.choice([e for e in edge if dOff < e < hi]))
            elif q < 0.6 and bnd:
                s = int(rng.choice(bnd))
            else:
                s = int(rng.integers(dOff + 1, hi))
            p = int(rng.choice([0, nc - 1, int(rng.integers(0, nc)), int(rng.integers(0, nc))]))
            spikes.append((s, u, p))
        for _ in range(int(rng.integers(0, 3)) + (2 if kind == 3 else 0)):   # invalid spikes at the file edges
            s = int(rng.choice([e for e in edge if not (dOff < e < hi)]))
            spikes.append((s, u, int(rng.integers(0, nc))))
    if len(ids) > 1 and spikes and rng.random() < 0.5:               # duplicates across units
        s, u, p = spikes[int(rng.integers(0, len(spikes)))]
        spikes.append((s, int(rng.choice([v for v in ids if v != u])), p if rng.random() < 0.5 else int(rng.integers(0, nc))))
    if spikes and rng.random() < 0.3:                                 # duplicates within a unit
        s, u, p = spikes[int(rng.integers(0, len(spikes)))]
        spikes.append((s, u, p if rng.random() < 0.3 else int(rng.integers(0, nc))))
    order = rng.permutation(len(spikes))
    spikes = [spikes[i] for i in order]
    spikes.sort(key=lambda q: q[0])                                   # sorted in time, ties in random order
    inp = {'kind': 'bin', 'geom': spec, 'ns': ns, 'cs': cs, 'n_jobs': 1, 'max_wf': max_wf, 'seed': int(rng.integers(0, 2 ** 31)),
           'off': dOff, 'len': dLen,
           'samples': [q[0] for q in spikes], 'clusters': [q[1] for q in spikes], 'chans': [q[2] for q in spikes]}
    labs = None if rng.random() < 0.3 else tuple(int(v) for v in rng.choice(ids + [999], int(rng.integers(1, len(ids) + 2))))
    inds = None if rng.random() < 0.4 else tuple(sorted(set(int(v) for v in rng.integers(0, max_wf + 1, int(rng.integers(1, 4))))))
    inp['loads'] = [(labs, inds)]
    inp['form'] = form_bin(rng, inp)
    return inp


def bin_tags(inp):
    dOff, dLen = window_of(inp)
    ns, cs, mw = inp['ns'], inp['cs'], inp['max_wf']
    hi = ns - (dLen - dOff)
    x, _ = geom_xy(inp['geom'])
    nc = len(x)
    tags = ['window=42/128' if (dOff, dLen) == (42, 128) else 'window=other', 'offset=0' if dOff == 0 else 'offset=len' if dOff == dLen else 'offset_inside', f'n_jobs={inp["n_jobs"]}', 'nchunks=1' if ns <= cs else 'nchunks=2' if ns <= 2 * cs else 'nchunks>=3', 'geom=' + inp['geom'][0]]
    valid = collections.Counter()
    seen = collections.defaultdict(set)
    for s, u, p in zip(inp['samples'], inp['clusters'], inp['chans']):
        ok = dOff < s < hi
        valid[u] += ok
        seen[s].add(u)
        if ok and s == dOff + 1:
            tags.append('first_valid_sample')
        if ok and s == hi - 1:
            tags.append('last_valid_sample')
        if not ok:
            tags.append('invalid_spike')
        if ok and s >= cs and (s % cs in (0, 1) or s % cs == cs - 1):
            tags.append('on_chunk_boundary')
        if ok and s >= cs and s % cs < dLen - dOff:
            tags.append('window_straddles_chunks')
        if ok and p in (0, nc - 1):
            tags.append('peak_at_probe_end')
    if any(len(v) > 1 for v in seen.values()):
        tags.append('dup_across_units')
    trip = collections.Counter(zip(inp['samples'], inp['clusters']))
    if any(v > 1 for v in trip.values()):
        tags.append('dup_within_unit')
    for u in set(inp['clusters']):
        tags.append('unit=0valid' if valid[u] == 0 else 'unit<max_wf' if valid[u] < mw else 'unit=max_wf' if valid[u] == mw else 'unit>max_wf')
        if min(valid[u], mw) == 1:
            tags.append('unit_with_one_waveform')
    ids_ = sorted(set(inp['clusters']))
    if ids_ != list(range(ids_[0], ids_[0] + len(ids_))) or ids_[0] != 0:
        tags.append('cluster_ids_not_0..n-1')
    if ns % cs and ns > cs and ns % cs < dLen:
        tags.append('last_chunk_shorter_than_window')
    if cs < 500:
        tags.append('cs<500')
    if ns % cs == 0:
        tags.append('ns=k*cs')
    if ns % cs == 1 and ns > cs:
        tags.append('ns=k*cs+1')
    return tuple(sorted(set(tags)))


def empty_unit_precedes(inp):
    """the input class of the known finding templates-skip-empty-unit"""
    off, ln = window_of(inp)
    hi = inp['ns'] - (ln - off)
    units = sorted(set(inp['clusters']))
    has = {u: any(c == u and off < s < hi for s, c in zip(inp['samples'], inp['clusters'])) for u in units}
    return any((not has[u]) and any(has[v] for v in units[i + 1:]) for i, u in enumerate(units))


def no_valid_spike(inp):
    off, ln = window_of(inp)
    hi = inp['ns'] - (ln - off)
    return not any(off < s < hi for s in inp['samples'])


def oracle_bin(inp, alt=None):
    """C13 on the real code, written from the property text.  None when it holds, else what fails."""
    off, ln = window_of(inp)
    if no_valid_spike(inp):
        return None                                  # known finding no-valid-spike (IndexError), not re-reported
    x, y = geom_xy(inp['geom'])
    nc, ns = len(x), inp['ns']
    K = nc + 1
    inp = dict(inp)
    units = sorted(set(inp['clusters']))
    inp['loads'] = [(None, None)] + [((u,), (j,)) for u in units[:3] for j in (0, 1)] + [(tuple(units[:2]), (0, 2))]
    run = BinRun(inp, deep=True)
    if run.impure:
        return run.impure
    if run.err is not None:
        return f'extract_wfs_cbin / WaveformsLoader raised {type(run.err).__name__}: {run.err}'
    src = ((np.arange(ns, dtype=np.int64)[None, :] * K + np.arange(nc, dtype=np.int64)[:, None]) % MOD).astype(np.float32)
    nb = brute_neighbours(x, y, R_FILE)
    w = max(len(r) for r in nb)
    t = run.table
    n = run.n
    if run.traces.shape != (n, w, ln) or run.chans.shape != (n, w):
        return f'traces {run.traces.shape} / channel map {run.chans.shape} do not have one row of {w} channels x {ln} samples per table row ({n})'
    # every waveform equals the source window on the neighbourhood of its peak channel; channel map says the same
    for r in range(n):
        s, p = int(t['sample'][r]), int(t['peak_channel'][r])
        exp = np.full((w, ln), np.nan, np.float32)
        for k, c in enumerate(nb[p]):
            exp[k] = src[c, s - off:s - off + ln]
        if not np.array_equal(run.traces[r], exp, equal_nan=True):
            bad = np.argwhere(~((run.traces[r] == exp) | (np.isnan(run.traces[r]) & np.isnan(exp))))[0]
            return (f'row {r} (sample {s}, cluster {int(t["cluster"][r])}, peak channel {p}): traces[{r}][{bad[0]}][{bad[1]}] = '
                    f'{run.traces[r][bad[0]][bad[1]]}, the source on channel {nb[p][bad[0]] if bad[0] < len(nb[p]) else "NaN"} '
                    f'at sample {s - off + bad[1]} is {exp[bad[0]][bad[1]]}' + (f' [history: {run.prior}]' if getattr(run, 'prior', None) else ''))
        if run.chans[r].tolist() != nb[p] + [nc] * (w - len(nb[p])):
            return f'channel map row {r} is {run.chans[r].tolist()}, neighbourhood of peak channel {p} is {nb[p]} padded with {nc}'
    # table is sorted by unit then time, numbered consecutively
    if t['waveform_index'].tolist() != list(range(n)):
        return f'waveform_index column {t["waveform_index"].tolist()} is not the row number'
    keys = list(zip(t['cluster'].tolist(), t['sample'].tolist()))
    if keys != sorted(keys):
        return 'table rows are not ordered by (cluster, sample)'
    # every unit gets min(max_wf, #valid) distinct spikes of its own
    hi = ns - (ln - off)
    for u in units:
        own = collections.Counter((s, p) for s, c, p in zip(inp['samples'], inp['clusters'], inp['chans']) if c == u and off < s < hi)
        got = collections.Counter((int(s), int(p)) for s, c, p in zip(t['sample'], t['cluster'], t['peak_channel']) if c == u)
        if sum(got.values()) != min(inp['max_wf'], sum(own.values())):
            return (f'unit {u} has {sum(own.values())} spikes farther than the window margins from both ends, max_wf = {inp["max_wf"]}, '
                    f'but received {sum(got.values())} waveforms')
        if got - own:
            return f'unit {u} received (sample, channel) {sorted((got - own).elements())} which are not (distinct) valid spikes of that unit'
        iw = [int(v) for v, c in zip(t['index_within_clusters'], t['cluster']) if c == u]
        if iw != list(range(len(iw))):
            return f'index_within_clusters of unit {u} is {iw}'
    if set(int(c) for c in t['cluster']) - set(units):
        return 'table mentions a cluster that has no spike'
    # templates: row i <-> unit i (skipped for the class of the known finding)
    if run.templates.shape != (len(units), w, ln):
        return f'templates have shape {run.templates.shape}, expected one row per unit {(len(units), w, ln)}'
    if not empty_unit_precedes(inp):
        with warnings.catch_warnings():
            warnings.simplefilter('ignore')
            for i, u in enumerate(units):
                rows = [r for r in range(n) if t['cluster'][r] == u]
                exp = np.nanmedian(run.traces[rows], axis=0) if rows else np.full((w, ln), np.nan, np.float32)
                if not np.array_equal(run.templates[i], exp, equal_nan=True):
                    return f'template row {i} is not the median of the {len(rows)} waveforms of unit {u} (rows {rows})'
    # loader returns what was saved
    for key, (pos, same) in run.loads.items():
        labels, indices = key
        rank, cnt = [], collections.Counter()
        for c in t['cluster'].tolist():
            rank.append(cnt[c])
            cnt[c] += 1
        exp = [r for r in range(n) if (labels is None or t['cluster'][r] in labels) and (indices is None or rank[r] in indices)]
        if pos != exp or not same:
            return f'load_waveforms(labels={labels}, indices={indices}) returned rows {pos}{"" if same else " with other contents than the files"}, expected rows {exp}'
    # independence of chunk size and worker count
    if alt is not None:
        inp2 = dict(inp)
        inp2['cs'], inp2['n_jobs'] = alt
        other = BinRun(inp2, loader=False)
        if not run.same_files(other):
            return (f'files differ between (chunksize {inp["cs"]}, n_jobs {inp["n_jobs"]}) and (chunksize {alt[0]}, n_jobs {alt[1]}) with the same seed'
                    + (f' (second run raised {type(other.err).__name__}: {other.err})' if other.err is not None else ''))
    return None


# ---------------------------------------------------------------------------------------------
# (4) chunk list / searchsorted slices and (5) nanmedian templates: NumPy's evaluation of the statements of extract_wfs_cbin
# ---------------------------------------------------------------------------------------------
def impl_bounds(ns, cs, col):
    """the statements of extract_wfs_cbin that build the chunk list and hand table rows to the jobs, evaluated by NumPy:
    s0_arr = np.arange(0, ns, cs); s1_arr = s0_arr + cs; s1_arr[-1] = ns; np.searchsorted(sample column, [s0_arr[i], s1_arr[i]])"""
    try:
        s0_arr = np.arange(0, ns, cs)
        s1_arr = s0_arr + cs
        s1_arr[-1] = ns
    except IndexError:
        return 'err IndexError'
    colv = np.array(col, dtype=np.int64)
    out = []
    for i in range(s0_arr.shape[0]):
        lo, hi = np.searchsorted(colv, [s0_arr[i], s1_arr[i]]).astype(int)
        out.append(f'{int(s0_arr[i])},{int(s1_arr[i])},{int(lo)},{int(hi)}')
    return 'ok ' + ';'.join(out)


def gen_bounds(rng):
    cs = int(rng.choice([1, 2, 3, 7, 128, 500, 501, 3000, int(rng.integers(1, 10001))]))
    k = int(rng.integers(0, 9))
    m = int(rng.integers(1, 6))
    ns = [0, 1, cs - 1, cs, cs + 1, m * cs, m * cs + 1, m * cs - 1, int(rng.integers(1, 4 * cs + 2))][k]
    ns = max(ns, 0)
    if ns // cs > 400:
        ns = 400 * cs + ns % cs
    pool = [0, 1, ns - 1, ns, ns + 3] + [i * cs + d for i in range(1, min(ns // cs + 2, 6)) for d in (-1, 0, 1)]
    col = sorted(int(v) for v in rng.choice(pool + [int(rng.integers(0, ns + 2)) for _ in range(4)], int(rng.integers(0, 9))))
    return ns, cs, col


def gen_tmpl(rng):
    nnb, ln = int(rng.integers(1, 4)), int(rng.integers(1, 5))
    k = 1 if rng.random() < 0.4 else int(rng.integers(2, 7))
    wfs = rng.integers(-60, 61, (k, nnb, ln)).astype(np.float32)
    wfs[rng.random((k, nnb, ln)) < 0.15] = np.nan
    if nnb > 1 and rng.random() < 0.5:
        wfs[:, -1, :] = np.nan                 # a padding channel: NaN in every waveform
    if k > 1 and rng.random() < 0.3:
        wfs[int(rng.integers(0, k)), 0, :] = np.nan
    return nnb, ln, wfs


def impl_tmpl(wfs):
    with warnings.catch_warnings():
        warnings.simplefilter('ignore')
        out = np.full(wfs.shape[1:], np.nan, dtype=np.float32)
        out[:] = np.nanmedian(wfs[0:wfs.shape[0] - 1 + 1], axis=0)      # wfs[first_index:last_index + 1]
    return 'ok ' + show_wfs(out[None], 2)


# ---------------------------------------------------------------------------------------------
# correspondence
# ---------------------------------------------------------------------------------------------
def _desc_bin(inp, load_key):
    d = {k: inp[k] for k in ('kind', 'geom', 'ns', 'cs', 'n_jobs', 'max_wf', 'seed', 'off', 'len', 'samples', 'clusters', 'chans')}
    d['form'] = inp.get('form', {})
    d['load'] = load_key
    return d


def correspondence(ctx):
    rng = ctx.rng
    dOffA, dLenA, dOffC, dLenC, dMax = wf_defaults()
    c = ctx.consts
    if c and not (c.get('WF_TROUGH_OFFSET') == dOffA == dOffC and c.get('WF_LENGTH') == dLenA == dLenC and c.get('WF_MAX') == dMax):
        raise RuntimeError(f'defaults of extract_wfs_array/extract_wfs_cbin {(dOffA, dLenA, dOffC, dLenC, dMax)} differ from the generated constants')
    if (dOffA, dLenA) != (42, 128):
        raise RuntimeError('generators are written for trough_offset 42 / 128 samples')
    from ibldsp.utils import make_channel_index
    if inspect.signature(make_channel_index).parameters['radius'].default != R_FILE:
        raise RuntimeError('make_channel_index default radius is no longer 200 um (used by extract_wfs_cbin)')

    # ---- (1) make_channel_index
    lines, impl, meta = [], [], []
    specs = [gen_geom(rng, small=True) for _ in range(ctx.n(150, 1500))]
    specs += [gen_geom(rng, small=False) for _ in range(ctx.n(6, 80))]
    specs += [('np1', 384, 0), ('np2', 384, 0), ('np2s4off', 384, 0)]
    for i, spec in enumerate(specs):
        x, y = geom_xy(spec)
        radius = gen_radius(rng, x, y) if i < len(specs) - 3 else float(R_FILE)
        pad = None if rng.random() < 0.7 else int(rng.choice([0, len(x), len(x) + 5]))
        form = form_chidx(rng, radius)
        lines.append(f"chidx {_L(x)} {_L(y)} {r2_of(radius)} {'-' if pad is None else pad}")
        impl.append(impl_chidx(x, y, radius, pad, form))
        nb = brute_neighbours(x, y, radius) if len(x) <= 48 else None
        boundary = nb is not None and any((int(x[a]) - int(x[b])) ** 2 + (int(y[a]) - int(y[b])) ** 2 == Fraction(radius) ** 2
                                          for a in range(len(x)) for b in nb[a] if a != b)
        meta.append(({'kind': 'chidx', 'geom': spec, 'radius': radius, 'pad': pad, 'form': form}, len(x) >= 2,
                     ('chidx', 'geom=' + spec[0], 'r=0' if radius == 0 else 'r=pair_distance' if boundary else 'r_other',
                      'nc=1' if len(x) == 1 else 'nc<=48' if len(x) <= 48 else 'nc>48', 'pad=None' if pad is None else 'pad=given')
                     + form_tags(form, ('geom_dtype', 'order', 'radius_as', 'spelling'))))
    for (desc, nt, tags), a, b in zip(meta, impl, ctx.lean(lines)):
        ctx.compare('chidx', desc, a, b, nontrivial=nt, tags=tags)

    # ---- (2) extract_wfs_array
    cases = [gen_extract(rng) for _ in range(ctx.n(600, 6000))]
    impl = [impl_extract(cs_) for cs_ in cases]
    model = ctx.lean([line_extract(cs_) for cs_ in cases])
    for cs_, a, b in zip(cases, impl, model):
        off, ln, ns = cs_['off'], cs_['len'], cs_['ns']
        tags = ['extract', a.split()[0] + ('' if a.startswith('ok') else ' ' + a.split()[1])]
        if any(s == off for s in cs_['samples']):
            tags.append('window_starts_at_0')
        if any(s - off + ln == ns for s in cs_['samples']):
            tags.append('window_ends_at_ns')
        if any(s - off + ln == ns - 1 for s in cs_['samples']):
            tags.append('window_ends_at_ns-1')
        if any(s < off for s in cs_['samples']):
            tags.append('window_before_start(wraps)')
        tags.append(f'nan_row={cs_["has_nan"]}{cs_["add_nan"]}')
        tags += list(form_tags(cs_['form'], ('order', 'sample_dtype', 'peak_dtype', 'spelling', 'params_as'))) + ['arr=' + cs_['dtype']]
        ctx.compare('extract', cs_, a, b, nontrivial=a.startswith('ok') and len(cs_['samples']) > 0, tags=tuple(tags))

    # ---- (4) chunk list + searchsorted slices, (5) templates = nanmedian (NumPy's own evaluation of the statements)
    bcs = [gen_bounds(rng) for _ in range(ctx.n(250, 2500))]
    for (ns_, cs_, col_), b in zip(bcs, ctx.lean([f'bounds {ns_} {cs_} {_L(col_)}' for ns_, cs_, col_ in bcs])):
        nch_ = (ns_ + cs_ - 1) // cs_
        ctx.compare('bounds', {'kind': 'bounds', 'ns': ns_, 'cs': cs_, 'samples': col_}, impl_bounds(ns_, cs_, col_), b, nontrivial=ns_ > 0,
                    tags=('bounds', 'ns=0' if ns_ == 0 else 'ns<cs' if ns_ < cs_ else 'ns=k*cs' if ns_ % cs_ == 0 else 'ns=k*cs+1' if ns_ % cs_ == 1 else 'ns%cs_other',
                          'nchunks=1' if nch_ <= 1 else 'nchunks>=2', 'sample_on_chunk_start' if any(v % cs_ == 0 and 0 < v < ns_ for v in col_) else 'no_sample_on_chunk_start'))
    tcs = [gen_tmpl(rng) for _ in range(ctx.n(250, 2500))]
    tl = ['tmpl %d %d %s' % (nnb_, ln_, show_wfs(w_)) for nnb_, ln_, w_ in tcs]
    for (nnb_, ln_, w_), line, b in zip(tcs, tl, ctx.lean(tl)):
        ctx.compare('tmpl', {'kind': 'tmpl', 'line': line}, impl_tmpl(w_), b, nontrivial=True,
                    tags=('tmpl', 'one_waveform' if w_.shape[0] == 1 else 'even_count' if w_.shape[0] % 2 == 0 else 'odd_count',
                          'all_nan_column' if bool(np.any(np.all(np.isnan(w_), axis=0))) else 'no_all_nan_column'))

    # ---- (3) extract_wfs_cbin + loader
    inputs = [gen_bin(rng) for _ in range(ctx.n(60, 1200))] + [gen_bin(rng, big=True) for _ in range(ctx.n(4, 40))]
    # the same input under another chunk size / worker count (same seed => same choice)
    workers = sorted(set(int(v) for v in rng.choice(np.arange(2, 9), ctx.n(3, 7), replace=False)))
    base = [i for i in inputs if not no_valid_spike(i)][:ctx.n(6, 56)]
    variants = []
    for j, inp in enumerate(base):
        v = dict(inp)
        v['n_jobs'] = workers[j % len(workers)]
        v['cs'] = int(rng.choice([500, 777, 1000, 2500, 10000]))
        v['base'] = j
        variants.append(v)
    # chunk-size sweep (1 worker): EVERY chunk size >= the window length must give the same files — the window length itself,
    # one more, a size that leaves a last chunk shorter than a window, one chunk of exactly / more than the whole recording
    for j, inp in enumerate(base[:ctx.n(5, 40)]):
        ln_, off_, ns_ = inp['len'], inp['off'], inp['ns']
        lo_cs = max(ln_, off_, 1, -(-ns_ // 150))                  # at most ~150 chunks (every job opens a Reader)
        short = [c_ for c_ in range(lo_cs, min(lo_cs + 400, ns_)) if 0 < ns_ % c_ < ln_]
        cands_ = [('cs=window_or_floor', lo_cs), ('cs=floor+1', lo_cs + 1), ('cs=ns', ns_), ('cs>ns', ns_ + 7), ('cs=ns-1', max(ns_ - 1, lo_cs))]
        if short:
            cands_.append(('last_chunk_shorter_than_window', short[int(rng.integers(0, len(short)))]))
        lab_, c_ = cands_[int(rng.integers(0, len(cands_)))]
        v = dict(inp)
        v['n_jobs'], v['cs'], v['base'], v['sweep'] = 1, int(c_), j, lab_
        variants.append(v)
    variants.sort(key=lambda v: v['n_jobs'])          # joblib restarts its workers when n_jobs changes
    lines, impl, meta, runs = [], [], [], {}
    for inp in inputs + variants:
        load_key = inp['loads'][0]
        deep = (len(lines) % 3 == 0)
        run = BinRun(inp, deep=deep)
        if 'base' in inp or any(inp is b for b in base):
            runs[id(inp)] = run
        choice = readback_choice(inp, run)
        nch = (inp['ns'] + inp['cs'] - 1) // inp['cs']
        sched = [int(v) for v in rng.permutation(nch)]
        nnb_bound = min(len(geom_xy(inp['geom'])[0]), 60)
        mode = 'full' if (run.err is None and run.n * nnb_bound <= 240) else 'digest'
        lines.append(line_bin(inp, choice, sched, load_key, mode, inp['off'], inp['len']))
        impl.append(canon_bin(inp, run, load_key, mode))
        meta.append((_desc_bin(inp, load_key), run.err is None and run.n > 0, bin_tags(inp) + ('traces=' + mode, 'call_twice+loader_reuse' if deep else 'single_call') + form_tags(inp.get('form'), ('samples_dtype', 'clusters_dtype', 'chans_dtype', 'h_dtype', 'bin_as', 'params_as', 'spelling')) + (('argument_modified_in_place',) if run.arg_modified else ())))
        if run.arg_modified:
            ctx.note('argument modified in place (recorded only): ' + run.arg_modified)
    for (desc, nt, tags), a, b in zip(meta, impl, ctx.lean(lines)):
        ctx.compare('bin', desc, a, b, nontrivial=nt, tags=('bin',) + tags)
    # chunk size / worker count independence, directly on the files (same seed => same choice)
    for v in variants:
        b = base[v['base']]
        same = runs[id(b)].same_files(runs[id(v)])
        d = _desc_bin(b, b['loads'][0])
        d['kind'] = 'independence'
        d['alt'] = (v['cs'], v['n_jobs'])
        ctx.compare('independence', d, 'same files' if same else 'files differ', 'same files', nontrivial=True,
                    tags=('independence', f'n_jobs={v["n_jobs"]}', 'sweep:' + v.get('sweep', 'none')))
    ctx.note(f'defaults read from the code: extract_wfs_array ({dOffA}, {dLenA}), extract_wfs_cbin ({dOffC}, {dLenC}, max_wf {dMax}); '
             f'worker counts used: 1 and {workers}; every bin case compares table, traces, channel map, templates, loader aggregate and one load_waveforms call')


# ---------------------------------------------------------------------------------------------
# failing-input search (oracle = the property text on the real code; the model is not used)
# ---------------------------------------------------------------------------------------------
def _size(inp):
    return (len(inp.get('samples', [])), len(geom_xy(inp['geom'])[0]) if 'geom' in inp else 0, inp.get('ns', 0))


def run_oracle(inp):
    try:
        if inp['kind'] in ('bounds', 'tmpl'):
            return None               # model vs NumPy's evaluation of a statement: no call of the library to judge
        if inp['kind'] == 'chidx':
            return oracle_chidx(inp['geom'], inp['radius'], inp.get('form'))
        if inp['kind'] == 'extract':
            return oracle_extract(inp)
        alt = inp.get('alt')
        if alt is None and inp['kind'] in ('bin', 'independence'):
            alt = (1000 if inp['cs'] != 1000 else 640, 2 if inp['n_jobs'] == 1 else 1) if inp.get('check_alt') else None
        return oracle_bin(inp, alt=tuple(alt) if alt else None)
    except Exception as e:       # the oracle itself must not hide a crash of the code
        return f'raised {type(e).__name__}: {e}'


def _norm(inp):
    inp = dict(inp)
    inp['geom'] = tuple(tuple(v) if isinstance(v, list) and False else v for v in inp['geom'])
    return inp


def shrink_bin(inp, deadline):
    """drop spikes / shorten while the oracle keeps failing"""
    import time
    best = dict(inp)
    changed = True
    while changed and time.time() < deadline:
        changed = False
        for i in range(len(best['samples']) - 1, -1, -1):
            if time.time() > deadline:
                break
            t = dict(best)
            for k in ('samples', 'clusters', 'chans'):
                t[k] = best[k][:i] + best[k][i + 1:]
            if t['samples'] and run_oracle(t):
                best, changed = t, True
    return best


def search(ctx, reasons):
    import time
    t_end = time.time() + (60 if ctx.quick else 240)
    cands = []
    for m in ctx.mismatches[:60]:
        c = dict(m['case'])
        if c.get('kind') in ('bounds', 'tmpl'):
            continue
        if c.get('kind') in ('bin', 'independence'):
            c['kind'] = 'bin'
            c.setdefault('check_alt', m['op'] == 'independence')
        cands.append(c)
    # fixed small inputs that exercise every clause, then fresh generator cases
    g = ('np1', 12, 0)
    fixed = [
        {'kind': 'bin', 'geom': g, 'ns': 1500, 'cs': 500, 'n_jobs': 1, 'max_wf': 2, 'seed': 1,
         'samples': [43, 500, 501, 999, 1000, 1413], 'clusters': [1, 1, 2, 2, 1, 2], 'chans': [0, 11, 5, 6, 3, 0]},
        {'kind': 'bin', 'geom': g, 'ns': 1500, 'cs': 500, 'n_jobs': 1, 'max_wf': 2, 'seed': 4, 'off': 30, 'len': 64,
         'samples': [31, 500, 1465], 'clusters': [1, 1, 1], 'chans': [0, 11, 5]},
        {'kind': 'bin', 'geom': g, 'ns': 1500, 'cs': 500, 'n_jobs': 1, 'max_wf': 3, 'seed': 2, 'check_alt': True,
         'samples': [43, 100, 100, 640, 1000, 1200, 1413, 1414], 'clusters': [3, 1, 3, 1, 1, 1, 3, 3], 'chans': [0, 11, 5, 6, 3, 0, 7, 7]},
        {'kind': 'bin', 'geom': ('np2', 24, 0), 'ns': 3001, 'cs': 1000, 'n_jobs': 2, 'max_wf': 2, 'seed': 3, 'check_alt': True,
         'samples': [50, 999, 1000, 1001, 2000, 2914], 'clusters': [0, 0, 0, 5, 5, 5], 'chans': [0, 23, 12, 1, 22, 4]},
        {'kind': 'chidx', 'geom': ('np1', 8, 0), 'radius': 32.0},
        {'kind': 'chidx', 'geom': ('grid', 3, 3, 6, 6), 'radius': 6.0},
        {'kind': 'extract', 'geom': ('np1', 6, 0), 'radius': 40.0, 'ns': 20, 'K': 7, 'off': 2, 'len': 5,
         'samples': [2, 9, 16], 'peaks': [0, 3, 5], 'has_nan': 0, 'add_nan': 1, 'dtype': 'float32'},
    ]
    rng = ctx.subrng(13)
    fresh = [gen_extract(rng) for _ in range(150)] + [gen_bin(rng) for _ in range(25)]
    for i, f in enumerate(fresh):
        if f['kind'] == 'bin' and i % 4 == 0:
            f['check_alt'] = True
    best = None
    for inp in cands + fixed + fresh:
        if time.time() > t_end and best is not None:
            break
        if time.time() > t_end + 120:
            break
        r = run_oracle(inp)
        if r and (best is None or _size(inp) < _size(best[0])):
            best = (inp, r)
            if _size(inp)[0] <= 3:
                break
    if best is None:
        return None
    inp, r = best
    if inp['kind'] == 'bin':
        inp = shrink_bin(inp, time.time() + (30 if ctx.quick else 120))
        r = run_oracle(inp) or r
    inp = {k: v for k, v in inp.items() if k not in ('loads', 'load', 'base')}
    ran, fresh = fresh_oracle(inp)
    if ran and fresh:
        r = fresh                      # the message a replay in a new process gives (e.g. the call sequence that goes wrong)
    elif ran:
        r = ('(only after the earlier calls of this run; the same input passes in a fresh interpreter, i.e. state is carried between calls) ' + r)
    return {'input': inp, 'observed': r,
            'expected': ('C13: every saved waveform equals the source window [sample-offset, sample-offset+length) on the ascending within-200um '
                         'neighbourhood of its peak channel (NaN padded); table / traces / channel map / templates agree row by row; each unit gets '
                         'min(max_wf, #valid) distinct spikes; same files for any chunk size and worker count; loader returns the saved rows'),
            'how': 'cd /verif && ./check C13 --replay <this file>   (harness/props/c13.py: run_oracle(input) on the real code; recording value(c,t) = (t*(nc+1)+c) mod 8388593)'}


def _from_json(inp):
    inp = dict(inp)
    inp['geom'] = tuple(inp['geom'])
    if inp.get('alt') is not None:
        inp['alt'] = tuple(inp['alt'])
    return inp


def fresh_oracle(inp):
    """the oracle in a NEW interpreter (no state left over from earlier cases of this run): what a replay will see"""
    import json
    import subprocess
    import sys
    code = ('import sys, json\n'
            'sys.path[:0] = json.loads(sys.argv[1])\n'
            'import props.c13 as m\n'
            'print("RESULT" + json.dumps(m.run_oracle(m._from_json(json.loads(sys.stdin.read())))))\n')
    try:
        p = subprocess.run([sys.executable, '-c', code, json.dumps([q for q in sys.path if q])], input=json.dumps(inp, default=int),
                           capture_output=True, text=True, timeout=300)
        for line in p.stdout.splitlines():
            if line.startswith('RESULT'):
                return True, json.loads(line[6:])
    except Exception:
        pass
    return False, None


def replay(ctx, rep):
    inp = _from_json(rep['input'])
    r = run_oracle(inp)
    print('oracle:', r)
    return r is not None


# ---------------------------------------------------------------------------------------------
# known findings (demonstrations on the real code)
# ---------------------------------------------------------------------------------------------
_KF_INP = {'kind': 'bin', 'geom': ('np1', 12, 0), 'ns': 1500, 'cs': 500, 'n_jobs': 1, 'max_wf': 2, 'seed': 0}


def kf_templates_skip_empty_unit():
    """units 1 (no valid spike), 2, 3: template row 0 holds unit 2's median, row 2 is NaN"""
    inp = dict(_KF_INP, samples=[10, 100, 200], clusters=[1, 2, 3], chans=[0, 5, 9], max_wf=2)
    run = BinRun(inp, loader=False)
    if run.err is not None:
        return False
    return bool(not np.all(np.isnan(run.templates[0])) and np.all(np.isnan(run.templates[2])))


def kf_no_valid_spike():
    """no spike farther than the margins from both ends: IndexError instead of empty files"""
    inp = dict(_KF_INP, samples=[10, 1490], clusters=[1, 2], chans=[0, 5])
    return isinstance(BinRun(inp, loader=False).err, IndexError)


def kf_extract_array_uint64_sample():
    """extract_wfs_array with an in-domain df whose 'sample' column is uint64 (Kilosort spike times): uint64 + int64 arange promotes to
    float64 and NumPy refuses it as an index (IndexError)"""
    import pandas as pd
    from ibldsp.waveform_extraction import extract_wfs_array
    arr = np.vstack([formula(40, 3, 2), np.full((1, 40), np.nan)])
    df = pd.DataFrame({'sample': np.array([10, 20], dtype=np.uint64), 'peak_channel': np.array([0, 1], dtype=np.int64)})
    try:
        extract_wfs_array(arr, df, np.array([[0, 1], [0, 1]]), trough_offset=2, spike_length_samples=5)
    except IndexError:
        return True
    return False


def kf_np_int_spike_length():
    """extract_wfs_cbin(spike_length_samples=np.int64(128)): the traces .npy header is written as (n, nc, np.int64(128)) and re-opening it fails"""
    import tempfile as _t
    from ibldsp import waveform_extraction as we
    d = Path(_t.mkdtemp(prefix='c13_'))
    try:
        x, y = geom_xy(('np1', 12, 0))
        ns, K = 1500, 13
        ((np.arange(ns, dtype=np.int64)[:, None] * K + np.arange(K, dtype=np.int64)[None, :]) % MOD).astype(np.float32).tofile(d / 'rec.bin')
        (d / 'out').mkdir()
        with warnings.catch_warnings():
            warnings.simplefilter('ignore')
            try:
                we.extract_wfs_cbin(d / 'rec.bin', d / 'out', np.array([100, 700]), np.array([1, 1]), np.array([3, 4]), h={'x': x, 'y': y},
                                    reader_kwargs={'ns': ns, 'nc': K, 'nsync': 1, 'dtype': 'float32', 'fs': 30000}, max_wf=2,
                                    spike_length_samples=np.int64(128), chunksize_samples=500, n_jobs=1, preprocess_steps=[], seed=0)
            except ValueError:
                return True
        return False
    finally:
        shutil.rmtree(d, ignore_errors=True)


def known_findings(ctx):
    return {'extract-array-uint64-sample': kf_extract_array_uint64_sample,
            'np-int-spike-length': kf_np_int_spike_length,
            'templates-skip-empty-unit': kf_templates_skip_empty_unit,
            'no-valid-spike': kf_no_valid_spike}
