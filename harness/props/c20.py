"""C20 — Denoising, smoothing and counting utilities conserve what they must
(ibldsp.cadzow, ibldsp.smooth, ibldsp.spiketrains.spikes_venn2/3, ibldsp.voltage.stack / svd_denoise_npx)."""
import contextlib
import io
import struct

import numpy as np

ID = 'C20'
DRIVER = 'C20'
LEAN_TARGETS = ['IblVerif.Properties.C20']
THEOREMS = [
    'IblVerif.C20.venn_conservation',
    'IblVerif.C20.venn_conservation_defaults',
    'IblVerif.C20.venn_total',
    'IblVerif.C20.venn_chunk_exact',
    'IblVerif.C20.venn_global_bins',
    'IblVerif.C20.venn_chunk_invariant',
    'IblVerif.C20.stack_fold',
    'IblVerif.C20.stack_mismatch',
    'IblVerif.C20.svd_full_rank_allotment',
    'IblVerif.C20.svd_collections_partition',
    'IblVerif.C20.svd_allotment',
    'IblVerif.C20.svd_single_collection_allotment',
    'IblVerif.C20.svd_allotment_identity',
    'IblVerif.C20.rolling_len',
    'IblVerif.C20.rolling_len_values',
    'IblVerif.C20.rolling_short',
    'IblVerif.C20.rolling_const',
    'IblVerif.C20.lp_len_partial',
    'IblVerif.C20.lp_len_counterexample',
    'IblVerif.C20.lp_const',
    'IblVerif.C20.freq_filter_fixes_constants',
    'IblVerif.C20.savgol_reproduces',
    'IblVerif.C20.savgol_window_eq_len_counterexample',
    'IblVerif.C20.smooth_interp_poly',
    'IblVerif.C20.svd_denoise_id_of_rank_le',
    'IblVerif.C20.derank_full',
    'IblVerif.C20.layout_valid',
    'IblVerif.C20.traj_average_id',
    'IblVerif.C20.cadzow_full_rank',
    'IblVerif.C20.cadzow_plane_wave_rank_one',
    'IblVerif.C20.denoise_all_id',
    'IblVerif.C20.lp_len_of_pad',
    'IblVerif.C20.lpad_zero_iff',
    'IblVerif.C20.savgol_index_ranges',
    'IblVerif.C20.savgol_length',
    'IblVerif.C20.smooth_interp_nodes',
    'IblVerif.C20.np1_windows',
    'IblVerif.C20.np1_weight_one',
    'IblVerif.C20.np1_weight_one_hann',
    'IblVerif.C20.np1_single_window_counterexample',
    'IblVerif.C20.np1_single_window_hann',
    'IblVerif.C20.np1_npad_counterexample',
]
RULE = ('seven families, all seeded from ctx.rng. venn: 2-3 time-ordered sorters (1-40 spikes, occasionally empty or with a channel '
        'beyond the last bin), bin sizes 1-20 x 1-8, chunk sizes biased to 1, binsize+-1, max_sample(+1), half the span, > span and '
        'the defaults (0), and in ~18 % of the cases the LAST spike of one / several / all sorters planted exactly on a chunk boundary (k * chunk_size, chunk_size == last sample, one spike per sorter at sample 0); exact dictionary compare. stack: 1-24 traces, 1-4 samples, integer labels with repeats (sum and default '
        'nanmean, bit-exact) and length mismatches; svd plan: recorded (rows, rank) of every _svd_denoise call, plus the EXHAUSTIVE sweep of '
        'the rank each collection receives for all nc in 4..160 x all requested ranks 1..nc (single collection and two-way splits) against '
        'floor(rank*size/nc), and exact-rank data at random intermediate ranks on the real SVD. rolling_window: '
        'exhaustive (n <= 40, wl <= n+2) lengths, Float twin for the five windows; lp: lpad, pad/crop with ft.lp patched to an exact '
        'stand-in. savgol: odd windows 1-11, orders < window, irregular abscissae, polynomial or noisy data, every error branch; '
        'NaN patterns for smooth_interpolate_savgol. cadzow: dense 1-4 x 4-40 layouts (permuted), checkerboard and random sparse '
        'layouts: shape/it/itr/trcount exact, denoise with cadzow.derank patched to an exact stand-in (imax, niter); real SVD: full '
        'rank, plane wave at rank 1, noise ratio. A case is non-trivial when it has >= 2 chunks or a shared bin (venn), a repeated '
        'label (stack), wl >= 3 (rolling), a border and an interior point (savgol), >= 2 rows and columns (cadzow). '
        'Added with the translator tie: venn-global (small trains, 2-3 chunk sizes that are whole multiples of the bin size — 1 bin, a few bins, '
        'one chunk for everything — against the chunk-free model, exact); venn-chunks / sbinq (default bin size, default chunk size and number of '
        'chunks observed through the bincount2D calls, max sample on / next to a chunk boundary); lpadq (lpad observed through the length handed to '
        'ibldsp.fourier.lp, dyadic pads so that n*pad is exact); trajshape (all n < 48 / 160); np1-windows (cadzow_np1: ovx 2-16, nswx = 2 ovx + 0..ovx, '
        '1-12 steps, the NP1 channel count with the documented window sets, a single window, off-grid lengths, nswx < 2 ovx, padding: windows handed to '
        'denoise and the gain window of each, observed through a marker stand-in for denoise, exact / 1e-12) and np1-real (full rank of every window on the '
        'real SVD, NP1 geometry)')
ASSUMPTIONS = [
    'spike trains are time-ordered non-negative integer samples (np.searchsorted is meaningless otherwise); bin sizes, chunk size >= 1 after defaults; sizes small enough for the dense per-bin model (the direct oracle also runs realistic sizes)',
    'cadzow rank-1 / plane-wave claims only on dense rectangular layouts (every position of a regularly spaced grid occupied once; a sparse selection of rows is not one even when its ranks fill a rectangle); the NP1 checkerboard is exercised for the index maps and full rank only (DESIGN section 8)',
    'Float twins are compared with tolerances: rolling_window 1e-12, denoise stand-in 1e-12, savgol 1e-8 relative to the data scale (two different inversion algorithms on the normal equations), SVD identities 1e-9',
    'noise-reduction oracle only where the expected energy ratio is well below 1 (cadzow: dense layouts with >= 16 sites at rank 1, noise 0.3; svd: 4*rank <= min(nc, ns) and max >= 2*min): small cases reach ratios > 1 on the unchanged code',
    'the implementation is exercised as a program uses it: every oracle call is repeated on the SAME argument objects among other library calls and must return the result of the original values; an argument object modified in place is only recorded (voltage.stack adds the key stack_word to the caller\'s header dict on the unchanged tree), reported only through a wrong RESULT of a later call; results aliasing internal buffers are not demanded either way (rolling_window returns its input object for window_len < 3)',
    'input forms (drawn independently of the values, tagged form:…, carried in every replay): rolling_window / non_uniform_savgol x and y as float64, float32, int16, int64, list of ints, list of floats; lp as the four array dtypes (a Python list has no .shape: AttributeError, unsupported by the API); smooth_interpolate_savgol float64 / float32 / list of floats; window_len / window / polynom as Python int only (non_uniform_savgol raises its own TypeError for numpy integers); venn samples int64/uint64/int32/uint32/float64, channels int64/int32/int16/uint64/float64 (arrays only: the functions assert .shape), scalar parameters as int / np.int64 / np.uint8 / float; stack data float64/float32/int64/int16 in C, Fortran and strided layout, labels int64/int16/uint8/float64/str/list; svd float64/float32, cadzow complex128/complex64 with x/y float64/float32/int64/list, in C/F/strided/read-only layout; keyword and positional spelling in the current signature order. Demands are on VALUES (1e-9 relative, 1e-6 for float32 / 1e-4 for single-precision SVD), never on the result dtype',
    'two forms are recorded findings and excluded exactly: venn chunk_size given as a narrow numpy integer (np.uint8/np.int16: ch*chunk_size overflows, spikes silently lost) and voltage.stack on integer-typed traces with a non-integral aggregate (the mean is truncated into the integer dtype)',
    'lp: pad >= 0; the class lpad = ceil(n*pad) = 0 is a recorded finding (empty output) and is excluded from the length oracle only',
    'non_uniform_savgol with len(x) == window >= 3 raises UnboundLocalError: recorded finding, excluded from the reproduction oracle only',
    'labels of stack are integers and data are integer-valued float64 (sums exact, one IEEE division for nanmean); header=None',
    'cadzow_np1 is demanded to return its input (full rank of every window) only on its documented domain: npad = 0, 2 <= ovx, 2 ovx <= nswx < ntr, ntr - nswx a multiple of nswx - ovx, even ns, fmax above Nyquist (frequencies from fmax on are zeroed by design), windows of equal trajectory shape on the NP1 geometry; three classes outside it are reported as findings, not demanded: a single window (ntr == nswx: the last ovx channels are faded out), npad > 0 (the window ending at the unpadded ntr gets no fade-out: weights up to 2), odd ns (irfft without n returns ns - 1 samples)',
    'venn chunk-size independence is demanded (oracle) and proved only for chunk sizes that are whole multiples of samples_binsize: for other chunk sizes the bins of later chunks are shifted and the coincidence counts legitimately differ (conservation still holds and is demanded for every chunk size)',
    'translator tie: float expressions of the source are read as exact rationals (lpad = ceil(n * num / den), default bin = floor(2 fs / 5000)); the IEEE evaluation is executed by the model and compared on every run (the two readings of lpad differ when fl(n * pad) is not exact, e.g. n = 25, pad = 0.28)',
]
TRUSTED = [
    'np.unique / np.bincount / np.searchsorted / ravel_multi_index behave as documented (modelled by their contracts)',
    'np.linalg.svd returns U diag(s) Vh with orthonormal factors and non-increasing s >= 0 (SVDLaw); np.linalg.inv returns a left inverse (InvLaw); scipy interp1d passes through its nodes',
    'cadzow.derank, voltage._svd_denoise and ibldsp.fourier.lp are patched in-process by exact stand-ins for the index/averaging comparisons (restored afterwards); cadzow.denoise by a marker stand-in (windows / gain windows of cadzow_np1), iblutil bincount2D by a recording wrapper (default bin / chunk sizes)',
    'translator tie (harness/pyfn2lean.py, harness/tiespecs/c20.py): the translator, its reading of float expressions as exact rationals, the per-item assumptions (truth value of `imax`), names declared free (loop variables, unpacked shapes)',
    'scipy.signal.windows.hann(2 ovx - 1)[t] = 1/2 - 1/2 cos(2 pi t / (2 ovx - 2)) (closed form used by the theorem; compared to 1e-12 through the observed gain windows)',
]

TOL_SAVGOL = 1e-8
TOL_ID = 1e-9


# ---------------------------------------------------------------------------------------------
# helpers
# ---------------------------------------------------------------------------------------------
def _bits(x):
    return str(struct.unpack('<Q', struct.pack('<d', float(x)))[0])


def _bl(v):
    v = list(v)
    return ','.join(_bits(x) for x in v) if v else '-'


def _il(v):
    v = [int(x) for x in v]
    return ','.join(map(str, v)) if v else '-'


def _dec(tok):
    if tok == '-':
        return np.zeros(0)
    return np.array([struct.unpack('<d', struct.pack('<Q', int(x)))[0] for x in tok.split(',')])


@contextlib.contextmanager
def _quiet():
    with contextlib.redirect_stdout(io.StringIO()), contextlib.redirect_stderr(io.StringIO()):
        yield


@contextlib.contextmanager
def _patched(obj, name, new):
    old = getattr(obj, name)
    setattr(obj, name, new)
    try:
        yield
    finally:
        setattr(obj, name, old)


def _err(e):
    return 'err ' + type(e).__name__



# ---------------------------------------------------------------------------------------------
# input forms: every legitimate representation of the same values / the same call must give the same answer
# ---------------------------------------------------------------------------------------------
F1D = ['float64', 'float32', 'int16', 'int64', 'list_int', 'list_float']
MEMS = ['C', 'F', 'strided', 'readonly']


def _int_form(f):
    return f in ('int16', 'int32', 'int64', 'uint8', 'uint16', 'uint32', 'uint64', 'list_int')


def _single(f):
    return f in ('float32', 'complex64')


def _form1d(v, f):
    """The values `v` (already representable in the form) as dtype `f` / Python list."""
    a = np.asarray(v)
    if f == 'list_int':
        return [int(t) for t in a]
    if f == 'list_float':
        return [float(t) for t in a]
    if f == 'list':
        return a.tolist()
    return a.astype(f)


def _mem(a, layout):
    """The same array values in another memory layout."""
    a = np.array(a)
    if layout == 'F':
        return np.asfortranarray(a)
    if layout == 'strided' and a.ndim >= 1 and a.size:
        return np.repeat(a, 2, axis=a.ndim - 1)[..., ::2]
    if layout == 'readonly':
        a.setflags(write=False)
    return a


def _spell(spelling, lead, named):
    """(args, kwargs) for the call: `lead` positional always, `named` = [(name, value), …] in the order of the CURRENT
    signature, passed by keyword or positionally."""
    if spelling == 'pos':
        return tuple(lead) + tuple(v for _, v in named), {}
    return tuple(lead), {k: v for k, v in named}


def _draw_form(rng, family):
    ch = lambda opts: str(rng.choice(opts))     # noqa: E731
    sp = ch(['kw', 'kw', 'pos'])
    if family == 'rolling':
        return {'x': ch(F1D), 'spelling': sp}
    if family == 'lp':
        return {'x': ch(['float64', 'float32', 'int16', 'int64']), 'spelling': sp}
    if family == 'savgol':
        return {'x': ch(F1D), 'y': ch(F1D), 'spelling': sp}
    if family == 'sinterp':
        return {'x': ch(['float64', 'float32', 'list_float']), 'spelling': sp}
    if family == 'venn':
        return {'samples': ch(['int64', 'uint64', 'int32', 'uint32', 'float64']), 'channels': ch(['int64', 'int32', 'int16', 'uint64', 'float64']),
                'params': ch(['int', 'np.int64', 'np.uint8', 'float']), 'spelling': sp}
    if family == 'stack':
        return {'data': ch(['float64', 'float32', 'int64', 'int16']), 'word': ch(['int64', 'int16', 'uint8', 'float64', 'str', 'list']),
                'mem': ch(['C', 'F', 'strided']), 'spelling': sp}
    if family == 'svd':
        return {'dtype': ch(['float64', 'float32']), 'mem': ch(MEMS), 'spelling': sp}
    if family == 'cadzow':
        return {'wav': ch(['complex128', 'complex64']), 'mem': ch(MEMS), 'xy': ch(['float64', 'float32', 'int64', 'list']), 'spelling': sp}
    return {}


def _form_tags(family, form):
    return tuple(f'form:{family}:{k}={v}' for k, v in sorted((form or {}).items()))


# ---------------------------------------------------------------------------------------------
# purity: the model is a pure function of its arguments, so the implementation must be one too
# ---------------------------------------------------------------------------------------------
def _snap(o):
    """Deep copy of arrays / lists / tuples / dicts (other values are immutable scalars, strings or callables)."""
    if isinstance(o, np.ndarray):
        return o.copy()
    if isinstance(o, dict):
        return {k: _snap(v) for k, v in o.items()}
    if isinstance(o, (list, tuple)):
        return type(o)(_snap(v) for v in o)
    return o


def _same(a, b):
    """Bit identity (NaN == NaN, -0.0 != 0.0), same dtype and shape, same keys."""
    if isinstance(a, np.ndarray) or isinstance(b, np.ndarray):
        return (isinstance(a, np.ndarray) and isinstance(b, np.ndarray) and a.dtype == b.dtype and a.shape == b.shape
                and np.ascontiguousarray(a).tobytes() == np.ascontiguousarray(b).tobytes())
    if isinstance(a, dict) or isinstance(b, dict):
        return isinstance(a, dict) and isinstance(b, dict) and list(a.keys()) == list(b.keys()) and all(_same(a[k], b[k]) for k in a)
    if isinstance(a, (list, tuple)) or isinstance(b, (list, tuple)):
        return type(a) is type(b) and len(a) == len(b) and all(_same(u, v) for u, v in zip(a, b))
    if isinstance(a, Exception) or isinstance(b, Exception):
        return type(a) is type(b)
    if isinstance(a, (float, np.floating)) and isinstance(b, (float, np.floating)):
        return struct.pack('<d', float(a)) == struct.pack('<d', float(b))
    return bool(a == b)


PURITY_STATS = __import__('collections').Counter()


def _close_result(a, b):
    """Equality of two results of the same call: exact for integers / keys / shapes, 1e-9 (relative to the magnitude) for floats."""
    if isinstance(a, Exception) or isinstance(b, Exception):
        return type(a) is type(b)
    if isinstance(a, dict) or isinstance(b, dict):
        return isinstance(a, dict) and isinstance(b, dict) and list(a.keys()) == list(b.keys()) and \
            all(_close_result(a[k], b[k]) for k in a)
    if isinstance(a, (list, tuple)) or isinstance(b, (list, tuple)):
        return isinstance(b, (list, tuple)) and isinstance(a, (list, tuple)) and len(a) == len(b) and \
            all(_close_result(u, v) for u, v in zip(a, b))
    try:
        x, y = np.asarray(a), np.asarray(b)
        if x.shape != y.shape:
            return False
        if x.dtype.kind in 'fc' or y.dtype.kind in 'fc':
            fin = np.isfinite(x)
            if not np.array_equal(fin, np.isfinite(y)):
                return False
            scale = max(1.0, float(np.max(np.abs(x[fin]))) if fin.any() else 1.0)
            return bool(np.all(np.abs(x[fin] - y[fin]) <= 1e-9 * scale))
        return bool(np.array_equal(x, y))
    except Exception:
        return bool(a == b)


def _interleave(heavy=False):
    """Other calls into the library between two identical calls (each on its own fresh arguments; a call that raises is
    just another call: the judgement is on the surrounding oracle's own calls)."""
    from ibldsp import cadzow, fourier, smooth, utils, voltage

    def attempt(f):
        try:
            f()
        except Exception:
            pass
    with _quiet(), np.errstate(all='ignore'):
        for n in (3, 4, 5, 8):
            attempt(lambda: cadzow.traj_matrix_indices(n))
            attempt(lambda: fourier.fscale(n))
        attempt(lambda: smooth.rolling_window(np.arange(9.0), 5, 'hanning'))
        attempt(lambda: smooth.lp(np.arange(12.0), [0.1, 0.2]))
        attempt(lambda: fourier.lp(np.arange(16.0), 1, [0.1, 0.2]))
        attempt(lambda: fourier.hp(np.arange(16.0), 1, [0.1, 0.2]))
        attempt(lambda: utils.fcn_cosine([0.1, 0.2])(np.linspace(0, 1, 7)))
        if heavy:       # ismember2d compiles a numba kernel on every call (~0.2 s): only around the cadzow calls
            xx, yy = np.array([0., 16., 0., 16., 0., 16.]), np.array([0., 0., 20., 20., 40., 40.])
            attempt(lambda: cadzow.denoise(np.ones((6, 2), dtype=complex), xx, yy, 1))
        attempt(lambda: voltage.svd_denoise_npx(np.arange(12.0).reshape(3, 4), rank=1))
        attempt(lambda: voltage.stack(np.arange(6.0).reshape(3, 2), np.array([1, 0, 1])))


def _probe(a):
    """A library call of this property on one argument object (used after a call was seen to modify that object)."""
    from ibldsp import smooth, voltage
    with _quiet(), np.errstate(all='ignore'):
        if isinstance(a, np.ndarray) and a.ndim == 1 and a.dtype.kind == 'f' and a.size >= 3:
            return 'smooth.rolling_window({arg}, 3, "flat")', smooth.rolling_window(a, 3, 'flat')
        if isinstance(a, np.ndarray) and a.ndim == 1 and a.dtype.kind in 'iu' and a.size >= 1:
            return 'voltage.stack(ones((n, 1)), {arg}, fcn_agg=np.sum)', voltage.stack(np.ones((a.size, 1)), a, fcn_agg=np.sum)
        if isinstance(a, np.ndarray) and a.ndim == 2 and a.size:
            d = np.real(a) if a.dtype.kind == 'c' else a
            return ('voltage.stack({arg}, zeros(n), fcn_agg=np.sum)',
                    voltage.stack(np.asarray(d, dtype=float), np.zeros(a.shape[0], int), fcn_agg=np.sum))
    return None, None


def _leaves(o, path):
    if isinstance(o, np.ndarray):
        yield path, o
    elif isinstance(o, dict):
        for k, v in o.items():
            yield from _leaves(v, f'{path}[{k!r}]')
    elif isinstance(o, (list, tuple)):
        for i, v in enumerate(o):
            yield from _leaves(v, f'{path}[{i}]')


def _shadow(o):
    """Arguments of the same shapes and types but other values (float arrays reversed and rescaled; integer arrays kept,
    they are sorted spike times / labels): what an earlier, unrelated use of the same function looks like."""
    if isinstance(o, np.ndarray):
        if o.dtype.kind in 'fc' and o.size:
            return np.ascontiguousarray(o[::-1] * 0.5 + 1.0)
        return o.copy()
    if isinstance(o, dict):
        return {k: _shadow(v) for k, v in o.items()}
    if isinstance(o, (list, tuple)):
        return type(o)(_shadow(v) for v in o)
    return o


def _argname(i, names):
    return names[i] if names and i < len(names) else f'#{i}'


def purity(name, fn, args, kwargs=None, names=None, heavy=False, before=None):
    """Calls `fn(*args, **kwargs)` the way a program does — repeatedly, on the same objects, among other library calls —
    and returns (first result, None) or (first result, the call sequence whose RESULT is wrong for the original values):
      0. an earlier, unrelated use: the same function on other data of the same shapes (and `before()`, if given);
      1. r1 = fn(args); whether an argument object was modified is only RECORDED (PURITY_STATS), never reported by itself;
      2. other library functions are called on their own arguments, then r2 = fn(args) with the SAME argument objects:
         r2 must be the result for the original values, i.e. equal r1 (which the surrounding oracle checks against the
         property);
      3. if step 1 modified an argument object, a further library call on that object must give what it gives on a copy
         of the original values."""
    kwargs = kwargs or {}

    def call(a, k):
        try:
            with _quiet(), np.errstate(all='ignore'):
                return fn(*a, **k)
        except Exception as e:       # an error is a result too: it has to be the same error every time
            return e

    PURITY_STATS['call sequences'] += 1
    a0, k0 = _snap(args), _snap(kwargs)
    call(_shadow(a0), _shadow(k0))
    if before is not None:
        try:
            with _quiet(), np.errstate(all='ignore'):
                before()
        except Exception:
            pass
    r1 = call(args, kwargs)
    keep = _snap(r1)
    modified = []
    for i, (u, v) in enumerate(zip(args, a0)):
        if not _same(u, v):
            modified.append((_argname(i, names), u, v))
    for key in k0:
        if not _same(kwargs.get(key), k0[key]):
            modified.append((key, kwargs.get(key), k0[key]))
    if modified:
        PURITY_STATS['argument object modified by ' + name.split('(')[0] + ': ' + modified[0][0]] += 1
    _interleave(heavy)
    r2 = call(args, kwargs)
    if not _close_result(r2, keep):
        return keep, (f'call sequence: (the same function on other data of the same shapes); r1 = {name}; (other library calls on '
                      f'their own data); r2 = the same call with the SAME '
                      f'argument objects -> r2 = {_brief(r2)} but the result for these values is r1 = {_brief(keep)}'
                      + (f' (the first call modified argument {modified[0][0]} in place)' if modified else ''))
    for argname, now, orig in modified:
        lo = dict(_leaves(orig, argname))
        for path, leaf in _leaves(now, argname):
            if path in lo and not _same(leaf, lo[path]):
                what, got = _probe(leaf)
                if what is None:
                    continue
                _, want = _probe(lo[path].copy())
                if not _close_result(got, want):
                    return keep, (f'call sequence: {name}; then {what.format(arg=path)} on the same object -> {_brief(got)}, but for '
                                  f'the values the caller passed in it is {_brief(want)} ({name.split("(")[0]} modified {path} in place)')
    return keep, None


def _brief(r):
    if isinstance(r, Exception):
        return f'{type(r).__name__}: {r}'
    if isinstance(r, np.ndarray):
        return f'array{r.shape} {np.asarray(r).ravel()[:4].tolist()}…'
    if isinstance(r, dict):
        return '{' + ', '.join(f'{k}: {_brief(v)}' for k, v in list(r.items())[:4]) + '}'
    if isinstance(r, (list, tuple)):
        return '(' + ', '.join(_brief(v) for v in r[:3]) + ')'
    return repr(r)


# ---------------------------------------------------------------------------------------------
# venn
# ---------------------------------------------------------------------------------------------
def _venn_call(case):
    """spikes_venn2/3 in the form of `case['form']`: dtype of the sample / channel arrays, type of the scalar parameters,
    keyword or positional spelling (current signature order)."""
    from ibldsp import spiketrains
    form = case.get('form') or {}
    fs_, fc_ = form.get('samples', 'int64'), form.get('channels', 'int64')
    st = tuple(np.array([p[0] for p in s], dtype=int).astype(fs_) for s in case['sorters'])
    ct = tuple(np.array([p[1] for p in s], dtype=int).astype(fc_) for s in case['sorters'])
    f = spiketrains.spikes_venn2 if len(st) == 2 else spiketrains.spikes_venn3
    pt = form.get('params', 'int')

    def P(v):
        if v is None or pt == 'int':
            return v
        if pt == 'float':
            return float(v)
        if pt == 'np.uint8' and 0 <= v <= 255:
            return np.uint8(v)
        return np.int64(v)
    def PC(v):       # chunk_size in a narrow numpy integer overflows `ch * chunk_size` silently: recorded finding, never generated
        return np.int64(v) if (v is not None and pt == 'np.uint8') else P(v)
    named = [('samples_binsize', P(case['sbin'] or None)), ('channels_binsize', P(case['cbin'])), ('fs', case['fs']),
             ('num_channels', P(case['nch'])), ('chunk_size', PC(case['chunk'] or None))]
    args, kw = _spell(form.get('spelling', 'kw'), (st, ct), named)
    return f, args, kw


def _venn_real(case):
    f, args, kw = _venn_call(case)
    with _quiet():
        return f(*args, **kw)


def _venn_impl(case):
    try:
        r = _venn_real(case)
    except ValueError:
        return 'err ValueError'
    except Exception as e:
        return _err(e)
    k = len(case['sorters'])
    keys = [format(i, f'0{k}b') for i in range(1, 2 ** k)]
    if list(r.keys()) != keys:
        return f'keys {list(r.keys())}'
    return 'ok ' + _il(r[q] for q in keys)


def _venn_line(case):
    sp = ' '.join(_il(x for p in s for x in p) for s in case['sorters'])
    return f"venn {case['sbin']} {case['cbin']} {case['fs']} {case['nch']} {case['chunk']} {sp}"


def _venn_case(rng, small=False):
    k = int(rng.integers(2, 4))
    nch = int(rng.integers(1, 8 if small else 25))
    span = int(rng.choice([6, 30, 120, 400] if not small else [6, 20, 40]))
    sorters = []
    for _ in range(k):
        n = int(rng.integers(1, 6 if small else 41))
        s = np.sort(rng.integers(0, span + 1, n))
        if rng.random() < 0.3 and sorters:      # coincidences with the previous sorter
            prev = sorters[-1]
            take = rng.integers(0, len(prev), min(n, len(prev)))
            s = np.sort(np.array([prev[i][0] for i in take] + list(s[len(take):])))
        c = rng.integers(0, nch, len(s))
        sorters.append([[int(a), int(b)] for a, b in zip(s, c)])
    kind = int(rng.integers(0, 40))
    if kind == 0:
        sorters[int(rng.integers(0, k))] = []                       # np.max of an empty array
    cbin = int(rng.integers(1, 9))
    if kind == 1:
        j = int(rng.integers(0, k))
        sorters[j][-1][1] = nch + int(rng.integers(0, 3 * cbin))      # beyond (or just inside) the last channel bin
    sbin = int(rng.integers(1, 21))
    mx = max([p[0] for s in sorters for p in s] + [0])
    ck = int(rng.integers(0, 9))
    chunk = [1, sbin, sbin + 1, max(sbin - 1, 1), max(mx, 1), mx + 1, max(mx // 2, 1), int(rng.integers(1, 2 * span + 2)),
             int(rng.integers(2, 12))][ck]
    plant = float(rng.random())
    if plant < 0.18 and all(len(s_) for s_ in sorters):
        # the LAST spike exactly on a chunk boundary (k * chunk_size, incl. sample 0 and chunk_size == last sample), for one,
        # several or all sorters: the chunk that starts there holds nothing but these spikes
        if plant < 0.03:
            sorters = [[[0, int(s_[0][1])]] for s_ in sorters]                      # one spike per sorter, at sample 0
        else:
            edge = -(-mx // chunk) * chunk if plant < 0.14 else chunk               # first boundary >= every spike / exactly one chunk
            edge = max(edge, mx if plant >= 0.14 else 0)
            if plant >= 0.14 and mx > chunk:
                chunk = max(mx, 1)
                edge = chunk
            who = [j for j in range(k) if rng.random() < 0.6] or [int(rng.integers(0, k))]
            for j in who:
                sorters[j][-1][0] = int(edge)
        mx = max([p[0] for s_ in sorters for p in s_] + [0])
    fs = 30000
    if kind == 2 and not small:             # Python defaults: 0.4 ms bins, 20 s chunks (small fs keeps the model dense)
        fs = int(rng.choice([2500, 2600, 3000, 5000]))
        sbin = 0 if rng.random() < 0.15 else int(rng.integers(12, 21))
        chunk = 0
        nch = min(nch, 4)
        for s in sorters:
            for p in s:
                p[1] = min(p[1], nch - 1)
    # keep the dense model affordable: bins per chunk x chunks
    eff_chunk = chunk or 20 * fs
    eff_sbin = sbin or int(0.4 * fs / 1000)
    nbins = (eff_chunk // eff_sbin + 2) * (nch // cbin + 2)
    nchunks = mx // eff_chunk + 1
    if nbins * nchunks > 12000 or nchunks > 450:
        if chunk == 0:
            sorters = [[[p[0] % 7000, p[1]] for p in s] for s in sorters]
            sorters = [sorted(s) for s in sorters]
        else:
            chunk = max(mx // 8, 1)
    return {'family': 'venn', 'sorters': sorters, 'sbin': sbin, 'cbin': cbin, 'fs': fs, 'nch': nch, 'chunk': chunk}


def oracle_venn(case):
    """Every spike of every sorter lands in exactly one region: per sorter, the regions containing it add up to its spike count."""
    if any(len(s) == 0 for s in case['sorters']):
        return None
    if any(p[1] >= case['nch'] for s in case['sorters'] for p in s):
        return None
    if case.get('purity', True):
        f, args, kw = _venn_call(case)
        r, prob = purity(f'spiketrains.spikes_venn{len(case["sorters"])}(samples_tuple, channels_tuple, **kw)', f, args, kw,
                         names=('samples_tuple', 'channels_tuple'))
        if prob:
            return prob
        if isinstance(r, Exception):
            return f'raised {type(r).__name__}: {r}'
    else:
        try:
            r = _venn_real(case)
        except Exception as e:
            return f'raised {type(e).__name__}: {e}'
    for j, s in enumerate(case['sorters']):
        tot = sum(int(v) for key, v in r.items() if key[j] == '1')
        if tot != len(s):
            return f'sorter {j}: regions containing it sum to {tot}, it has {len(s)} spikes ({ {a: int(b) for a, b in r.items()} })'
    if any(int(v) < 0 for v in r.values()):
        return 'negative region count'
    if case.get('aligned') and case['sbin']:
        # regardless of chunking: chunk sizes that are whole multiples of the bin size tile the same global bin grid
        ref = None
        for c in case['aligned']:
            try:
                d = {a: int(b) for a, b in _venn_real(dict(case, chunk=int(c) * case['sbin'])).items()}
            except Exception as e:
                return f'chunk_size={int(c) * case["sbin"]} raised {type(e).__name__}: {e}'
            if ref is None:
                ref = (int(c) * case['sbin'], d)
            elif d != ref[1]:
                return (f'chunk_size={ref[0]} gives {ref[1]} but chunk_size={int(c) * case["sbin"]} gives {d} '
                        f'(both whole multiples of samples_binsize={case["sbin"]}: the same global bins)')
    return None


# ---------------------------------------------------------------------------------------------
# stack / svd plan
# ---------------------------------------------------------------------------------------------
def _stack_case(rng):
    ntr = int(rng.integers(1, 25))
    ns = int(rng.integers(1, 5))
    nlab = int(rng.integers(1, max(2, ntr // 2 + 2)))
    labs = rng.choice(np.arange(-6, 12), size=nlab, replace=False)
    word = [int(x) for x in rng.choice(labs, ntr)]
    data = rng.integers(-1000, 1001, (ntr, ns))
    if rng.random() < 0.25:          # saturating traces: per-label sums beyond what a narrow integer dtype holds
        data = rng.integers(20000, 32768, (ntr, ns)) * rng.choice([-1, 1], size=(1, ns))
    mism = 0
    if rng.random() < 0.05:
        mism = int(rng.choice([-1, 1]))
    return {'family': 'stack', 'word': word, 'data': data.tolist(), 'agg': str(rng.choice(['sum', 'mean'])), 'mismatch': mism}


def _stack_word(case):
    w = list(case['word'])
    if case['mismatch'] == 1:
        w = w + [w[-1]]
    elif case['mismatch'] == -1 and len(w) > 1:
        w = w[:-1]
    return w


def _stack_args(case, word_list):
    """(args, kwargs) of voltage.stack in the form of `case['form']` (data dtype / memory layout, label dtype, spelling)."""
    form = case.get('form') or {}
    data = _mem(np.array(case['data'], dtype=np.float64).astype(form.get('data', 'float64')), form.get('mem', 'C'))
    fw = form.get('word', 'int64')
    w = np.array(word_list, dtype=int)
    if fw == 'uint8':
        word = (w - min(0, int(w.min()))).astype(np.uint8)          # order-preserving shift to non-negative labels
    elif fw == 'str':
        rank = {v: i for i, v in enumerate(sorted(set(w.tolist())))}
        word = np.array([f'L{rank[v]:03d}' for v in w.tolist()])     # lexicographic order = numeric order
    elif fw == 'list':
        word = w.tolist()
    else:
        word = w.astype(fw)
    named = [('fcn_agg', np.sum)] if case['agg'] == 'sum' else ([('fcn_agg', np.nanmean)] if form.get('spelling') == 'pos' else [])
    return _spell(form.get('spelling', 'kw'), (data, word), named)


def _stack_impl(case):
    from ibldsp import voltage
    wl_ = _stack_word(case)
    args, kw = _stack_args(case, wl_)
    try:
        st, fold = voltage.stack(*args, **kw)
    except IndexError:
        return 'err IndexError'
    except Exception as e:
        return _err(e)
    group = np.unique(np.array(wl_, dtype=int))     # the function does not return the labels; their order is observable through the rows
    st = np.asarray(st, dtype=np.float64)
    if case['agg'] == 'sum':
        if not np.all(st == np.round(st)):
            return 'non-integer sums'
        rows = ';'.join(_il(r) for r in st)
    else:
        rows = ';'.join(_bl(r) for r in st)
    return f'ok group={_il(group)} fold={_il(fold)} rows={rows}'


def _stack_line(case):
    rows = ' '.join(_il(r) for r in case['data'])
    return f"stack {case['agg']} {len(case['data'][0])} {_il(_stack_word(case))} {rows}"


def oracle_stack(case):
    """Per-label aggregates with the right fold, groups ascending — checked against a dictionary grouping."""
    if case.get('mismatch'):
        return None
    from ibldsp import voltage
    form = case.get('form') or {}
    # recorded finding: integer traces + the default nanmean are truncated into the integer dtype — exactly that is excluded:
    # the stacked value may be the mean rounded either way to an integer (|difference| < 1), nothing further away
    int_mean = _int_form(form.get('data', 'float64')) and case['agg'] != 'sum'
    if _int_form(form.get('data', 'float64')) and case['agg'] == 'sum' and np.abs(np.array(case['data'])).max() > 1000:
        return None       # a SUM of saturating integer traces does not fit the traces' dtype: outside what stack can return
    sargs, skw = _stack_args(case, case['word'])
    data, word = np.array(case['data'], dtype=np.float64), np.array(case['word'], dtype=int)
    kw = {'fcn_agg': np.sum} if case['agg'] == 'sum' else {}
    if case.get('purity', True):
        r, prob = purity(f'voltage.stack(data, word' + (', fcn_agg=np.sum)' if kw else ')') + f' [form {form}]', voltage.stack, sargs, skw,
                         names=('data', 'word'))
        if prob:
            return prob
        if isinstance(r, Exception):
            return f'raised {type(r).__name__}: {r}'
        st, fold = np.asarray(r[0], dtype=np.float64), r[1]
        # with a header: same stack and fold, aggregated header = per-label mean.  The unchanged code adds the key
        # 'stack_word' to the caller's dict (recorded in PURITY_STATS, not a demand); calling again with the same dict
        # must still give the same result.
        hvals = data[:, 0] * 0.5 + 1.0
        r, prob = purity('voltage.stack(data, word, header={"h": …}' + (', fcn_agg=np.sum)' if kw else ')') + f' [form {form}]',
                         voltage.stack, sargs, dict(skw, header={'h': hvals.copy()}), names=('data', 'word'))
        if prob:
            return prob
        if isinstance(r, Exception):
            return f'with a header: raised {type(r).__name__}: {r}'
        st_h, hs = np.asarray(r[0], dtype=np.float64), r[1]
        if not _close_result(st_h, st) or 'fold' not in hs or not _close_result(hs['fold'], fold):
            return 'with a header the stack / fold differ from the call without header'
        labels_h = sorted(set(case['word']))
        want_h = [float(np.mean([hv for w_, hv in zip(case['word'], hvals) if w_ == g])) for g in labels_h]
        if 'h' not in hs or not np.allclose(np.asarray(hs['h'], dtype=float), want_h, rtol=1e-12, atol=1e-9):
            return f'aggregated header {hs.get("h")} is not the per-label mean {want_h}'
    else:
        try:
            st, fold = voltage.stack(*sargs, **skw)
            st = np.asarray(st, dtype=np.float64)
        except Exception as e:
            return f'raised {type(e).__name__}: {e}'
    groups = {}
    for w, row in zip(case['word'], case['data']):
        groups.setdefault(w, []).append(row)
    labels = sorted(groups)
    if st.shape != (len(labels), data.shape[1]) or len(fold) != len(labels):
        return f'{st.shape[0]} stacked rows / {len(fold)} folds for {len(labels)} distinct labels'
    for i, g in enumerate(labels):
        if int(fold[i]) != len(groups[g]):
            return f'fold of label {g} is {int(fold[i])}, it occurs {len(groups[g])} times'
        blk = np.array(groups[g], dtype=np.float64)
        want = blk.sum(axis=0) if case['agg'] == 'sum' else blk.sum(axis=0) / len(groups[g])
        if int_mean:
            if np.any(np.abs(st[i] - want) >= 1):
                return (f'row {i} (label {g}) is {st[i].tolist()}, the mean of its {len(groups[g])} integer traces is {want.tolist()} '
                        f'(more than the truncation of the mean into the integer dtype)')
        elif not np.allclose(st[i], want, rtol=1e-6 if _single(form.get('data', '')) else 1e-12, atol=1e-9):
            return f'row {i} (label {g}) is {st[i].tolist()}, aggregate of its {len(groups[g])} traces is {want.tolist()}'
    return None


def _plan_case(rng):
    nc = int(rng.integers(1, 33))
    kind = int(rng.integers(0, 4))
    if kind == 0:
        coll = None
    else:
        ng = int(rng.integers(1, 5))
        labs = rng.choice(np.arange(-3, 9), size=ng, replace=False)
        coll = [int(x) for x in rng.choice(labs, nc)]
    rank = int(rng.choice([0, 1, 2, nc // 2, nc, nc + 3, int(rng.integers(0, nc + 2))]))
    return {'family': 'svdplan', 'nc': nc, 'collection': coll, 'rank': rank, 'ns': int(rng.integers(2, 12))}


def _plan_impl(case, rng_data):
    from ibldsp import voltage
    calls = []

    def rec(datr, rank):
        calls.append((datr.copy(), rank))
        return datr * 0

    data = np.arange(case['nc'] * case['ns'], dtype=float).reshape(case['nc'], case['ns'])
    coll = None if case['collection'] is None else np.array(case['collection'], dtype=int)
    try:
        with _patched(voltage, '_svd_denoise', rec):
            voltage.svd_denoise_npx(data, rank=case['rank'] or None, collection=coll)
    except Exception as e:
        return _err(e)
    cvals = np.zeros(case['nc'], int) if coll is None else coll
    out = []
    for blk, rank in calls:
        rows = sorted(int(round(v)) // case['ns'] for v in blk[:, 0])
        out.append(f'{int(cvals[rows[0]])}:{_il(rows)}:{int(rank)}')
    return 'ok ' + ';'.join(out)


def _allot_real(nc, rank, coll):
    """The (size, rank) every collection actually receives: the arguments of the `_svd_denoise` calls."""
    from ibldsp import voltage
    calls = []

    def rec(datr, rank):
        calls.append((int(datr.shape[0]), int(rank)))
        return datr * 0

    with _patched(voltage, '_svd_denoise', rec):
        voltage.svd_denoise_npx(np.zeros((nc, 1)), rank=rank, collection=None if coll is None else np.array(coll, dtype=int))
    return calls


def _split_of(nc, r, j=0):
    """A deterministic two-way split size for the sweep (varies with nc, r and the pass number j)."""
    return 1 + (7 * nc + 3 * r + 11 * j) % (nc - 1)


def _allot_suspects(nc_max=160, passes=2):
    """Sweep all nc in 4..nc_max x all requested ranks 1..nc (single collection and two-way splits): combinations where a
    collection receives a rank different from floor(rank*size/nc) in exact integers.  Cheap pre-filter for `search`; every
    suspect is then confirmed (or discarded) by the data oracle `oracle_svd`."""
    out = []
    for nc in range(4, nc_max + 1):
        for r in range(1, nc + 1):
            colls = [None] + [[0] * _split_of(nc, r, j) + [1] * (nc - _split_of(nc, r, j)) for j in range(passes)]
            for coll in colls:
                try:
                    got = _allot_real(nc, r, coll)
                except Exception:
                    got = None
                if got is None or any(rk != (r * size) // nc for size, rk in got):
                    out.append({'family': 'svd', 'nc': nc, 'ns': nc + 2, 'rho': 1, 'rank': r, 'collection': coll, 'seed': 7})
    return out


def _plan_line(case):
    coll = case['collection'] if case['collection'] is not None else [0] * case['nc']
    return f"svdplan {case['rank']} {_il(coll)}"


# ---------------------------------------------------------------------------------------------
# smoothers
# ---------------------------------------------------------------------------------------------
WINDOWS = ['flat', 'hanning', 'hamming', 'bartlett', 'blackman']


def _window(name, wl):
    return np.ones(wl, 'd') if name == 'flat' else getattr(np, name)(wl)


def _rollen_impl(n, wl, window='flat'):
    from ibldsp import smooth
    try:
        return f'ok {len(smooth.rolling_window(np.arange(n, dtype=float), wl, window))}'
    except ValueError:
        return 'err ValueError'
    except Exception as e:
        return _err(e)


def oracle_rolling(case):
    """Length kept for every window length <= n; constants unchanged — for every input form (dtype / list, spelling)."""
    from ibldsp import smooth
    n, wl, win = case['n'], case['wl'], case.get('window', 'flat')
    if wl > n:
        return None
    form = case.get('form') or {}
    fx, sp = form.get('x', 'float64'), form.get('spelling', 'kw')
    xv = np.array(case['x'], dtype=float) if 'x' in case else np.cos(np.arange(n) * 0.7) * 3 + 1
    if _int_form(fx):
        xv = np.round(xv * 10)
    desc = f'smooth.rolling_window(x[{fx}], {wl}, {win!r})' + (' (positional)' if sp == 'pos' else ' (keywords)')

    def argsfor(values):
        return _spell(sp, (_form1d(values, fx),), [('window_len', wl), ('window', win)])
    args, kw = argsfor(xv)
    if case.get('purity', True):
        y, prob = purity(desc, smooth.rolling_window, args, kw, names=('x',))
        if prob:
            return prob
        if isinstance(y, Exception):
            return f'{desc} raised {type(y).__name__}: {y}'
    else:
        try:
            y = smooth.rolling_window(*args, **kw)
        except Exception as e:
            return f'{desc} raised {type(e).__name__}: {e}'
    if len(y) != n:
        return f'{desc}: output has {len(y)} samples for an input of {n}'
    consts = case.get('consts') or ([7, 1, 32767, -5] if _int_form(fx) else [2.75, -1.5])
    for c in consts:
        a_, k_ = argsfor(np.full(n, c))
        try:
            y = np.asarray(smooth.rolling_window(*a_, **k_), dtype=float)
        except Exception as e:
            return f'{desc} on the constant {c} raised {type(e).__name__}: {e}'
        if len(y) != n or np.max(np.abs(y - c)) > (1e-6 if _single(fx) else 1e-9) * max(1.0, abs(c)):
            return f'{desc}: the constant {c} ({n} samples) is returned as {y[:4].tolist()}…'
    return None


def _lp_standin(kind):
    def F(ts, si, b, axis=None):
        return ts * (np.arange(ts.shape[0]) + 1) if kind == 'ramp' else ts.copy()
    return F


def _lp_impl(x, pad, kind):
    from ibldsp import smooth
    try:
        with _patched(smooth.ft, 'lp', _lp_standin(kind)):
            y = smooth.lp(np.array(x, dtype=float), [0.1, 0.2], pad=pad)
    except ValueError:
        return 'err ValueError'
    except Exception as e:
        return _err(e)
    return 'ok ' + _il(int(round(v)) for v in y)


def oracle_lp(case):
    """Length kept and constants unchanged (real frequency-domain filter) for every array dtype; lpad = 0 is the recorded finding."""
    from ibldsp import smooth
    n, pad = case['n'], case['pad']
    if int(np.ceil(n * pad)) == 0:
        return None
    fac = case.get('fac', [0.1, 0.2])
    form = case.get('form') or {}
    fx, sp = form.get('x', 'float64'), form.get('spelling', 'kw')
    xv = np.sin(np.arange(n) * 0.3) + 0.5
    if _int_form(fx):
        xv = np.round(xv * 100)
    desc = f'smooth.lp(ts[{fx}], {fac}, pad={pad})' + (' (positional)' if sp == 'pos' else ' (keywords)')

    def argsfor(values):
        return _spell(sp, (_form1d(values, fx), list(fac)), [('pad', pad)])
    args, kw = argsfor(xv)
    if case.get('purity', True):
        y, prob = purity(desc, smooth.lp, args, kw, names=('ts', 'fac'))
        if prob:
            return prob
        if isinstance(y, Exception):
            return f'{desc} raised {type(y).__name__}: {y}'
    else:
        try:
            y = smooth.lp(*args, **kw)
        except Exception as e:
            return f'{desc} raised {type(e).__name__}: {e}'
    if len(y) != n:
        return f'{desc}: output has {len(y)} samples for an input of {n}'
    for c in ([7, -3] if _int_form(fx) else [-1.5]):
        a_, k_ = argsfor(np.full(n, c))
        y = np.asarray(smooth.lp(*a_, **k_), dtype=float)
        if len(y) != n or np.max(np.abs(y - c)) > (1e-6 if _single(fx) else 1e-9) * max(1.0, abs(c)):
            return f'{desc}: the constant {c} ({n} samples) is returned as {y[:4].tolist()}…'
    return None


# ---------------------------------------------------------------------------------------------
# Savitzky-Golay
# ---------------------------------------------------------------------------------------------
def _savgol_case(rng):
    window = int(rng.choice([1, 3, 5, 7, 9, 11]))
    polynom = int(rng.integers(0, min(window, 5)))
    if window >= 9:
        polynom = min(polynom, 3)
    kind = int(rng.integers(0, 30))
    n = int(rng.choice([window, window + 1, window + 2, 2 * window + 1, int(rng.integers(window + 1, 41))]))
    if kind == 0:
        window = window + 1                                  # even window
    elif kind == 1:
        polynom = window + int(rng.integers(0, 2))            # order too large
    elif kind == 2:
        n = max(window - int(rng.integers(1, 3)), 1)           # too few samples
    step = rng.choice([0.25, 0.5, 1.0])
    gaps = rng.uniform(0.3, 1.7, n) * step
    if rng.random() < 0.3:
        gaps = rng.integers(1, 4, n).astype(float) * step    # integer multiples (NaN-gap like)
    x = np.cumsum(gaps) + rng.uniform(-5, 5)
    deg = int(rng.integers(0, min(polynom, 4) + 1)) if polynom < window else 0
    co = rng.uniform(-1, 1, deg + 1)
    y = np.polyval(co[::-1], (x - x.mean()))
    noisy = bool(rng.random() < 0.4)
    if noisy:
        y = y + rng.normal(0, 0.3, n)
    ylen = n + (1 if kind == 3 else 0)
    if ylen != n:
        y = np.r_[y, 0.0]
    return {'family': 'savgol', 'window': window, 'polynom': polynom, 'x': x.tolist(), 'y': y.tolist(), 'deg': deg,
            'noisy': noisy}


def _savgol_impl(case):
    from ibldsp import smooth
    try:
        with np.errstate(all='ignore'):
            return smooth.non_uniform_savgol(np.array(case['x']), np.array(case['y']), case['window'], case['polynom'])
    except (ValueError, UnboundLocalError, TypeError) as e:
        return _err(e)
    except Exception as e:
        return _err(e)


def oracle_savgol(case):
    """Polynomials of degree <= order are reproduced exactly (1e-6 of the data scale), any spacing."""
    from ibldsp import smooth
    x = np.array(case['x'], dtype=float)
    w, p = case['window'], case['polynom']
    if w % 2 == 0 or p >= w or len(x) < w or (len(x) == w and w >= 3):
        return None
    co = np.array(case.get('coef', [0.5, -1.0, 0.25, 0.1][:p + 1]), dtype=float)[:p + 1]
    form = case.get('form') or {}
    fx, fy, sp = form.get('x', 'float64'), form.get('y', 'float64'), form.get('spelling', 'pos')
    if {fx, fy} <= {'float64', 'list_float'}:
        xc = x - x.mean()
        y = np.polyval(co[::-1], xc)
    else:
        # forms that only hold integers (or 24-bit mantissas) exactly: the same irregular spacing on an integer grid,
        # integer coefficients about the middle sample, degree <= 2 (values stay below 2^15)
        x = np.cumsum(np.clip(np.round(np.diff(x, prepend=x[0] - 1.0) * 2), 1, 3))
        co = np.round(co[:3] * 2)
        xc = x - x[len(x) // 2]
        y = np.polyval(co[::-1], xc)
    desc = f'smooth.non_uniform_savgol(x[{fx}], y[{fy}], {w}, {p})' + (' (positional)' if sp == 'pos' else ' (window=, polynom= keywords)')
    args, kw = _spell(sp, (_form1d(x, fx), _form1d(y, fy)), [('window', w), ('polynom', p)])
    if case.get('purity', True):
        ys, prob = purity(desc, smooth.non_uniform_savgol, args, kw, names=('x', 'y'))
        if prob:
            return prob
        if isinstance(ys, Exception):
            return f'{desc} raised {type(ys).__name__}: {ys}'
    else:
        try:
            ys = smooth.non_uniform_savgol(*args, **kw)
        except Exception as e:
            return f'{desc} raised {type(e).__name__}: {e}'
    ys = np.asarray(ys, dtype=float)
    if len(ys) != len(y):
        return f'{len(ys)} output samples for {len(y)} input samples'
    scale = max(1.0, float(np.max(np.abs(y))))
    err = np.abs(ys - y)
    if not np.all(np.isfinite(ys)) or np.max(err) > 1e-6 * scale:
        i = int(np.nanargmax(np.where(np.isfinite(err), err, np.inf)))
        return (f'{desc}: polynomial of degree {len(co) - 1} (coefficients {co.tolist()}, x = {np.asarray(x).tolist()[:6]}…) is not '
                f'reproduced at sample {i}: got {float(ys[i])!r}, expected {float(y[i])!r}')
    return None


def _sinterp_case(rng):
    n = int(rng.integers(16, 61))
    window = int(rng.choice([5, 7, 9, 11]))
    order = int(rng.integers(1, 4))
    t = np.arange(n, dtype=float)
    sig = 0.002 * (t - n / 2) ** 3 - 0.3 * t + 4 + rng.normal(0, 0.2, n) * (rng.random() < 0.6)
    mask = np.zeros(n, bool)
    kind = int(rng.integers(0, 6))
    ngap = int(rng.integers(1, 6))
    for _ in range(ngap):
        a = int(rng.integers(0, n))
        mask[a:a + int(rng.integers(1, 6))] = True
    if kind == 0:
        mask[:int(rng.integers(1, 4))] = True      # leading NaNs (extrapolation)
    if kind == 1:
        mask[-int(rng.integers(1, 4)):] = True     # trailing NaNs
    if kind == 2:                                  # leave exactly `window`, or fewer, samples
        keep = rng.choice(n, size=int(window - rng.integers(0, 2)), replace=False)
        mask[:] = True
        mask[keep] = False
    sig = np.where(mask, np.nan, sig)
    return {'family': 'sinterp', 'signal': [None if np.isnan(v) else float(v) for v in sig], 'window': window, 'order': order}


def _sig(case):
    return np.array([np.nan if v is None else v for v in case['signal']], dtype=float)


def oracle_sinterp(case):
    """NaN gaps are filled with finite values, length kept."""
    from ibldsp import smooth
    sig = _sig(case)
    good = int(np.sum(~np.isnan(sig)))
    if good <= case['window'] or good < 4:
        return None
    form = case.get('form') or {}
    fx = form.get('x', 'float64')
    sarg = [float(v) for v in sig] if fx == 'list_float' else sig.astype(fx)
    args, kw = _spell(form.get('spelling', 'kw'), (sarg,), [('window', case['window']), ('order', case['order'])])
    if fx == 'list_float':
        sarg = np.array(sarg)       # np.copy(list) is what the function works on
    if case.get('purity', True):
        out, prob = purity(f"smooth.smooth_interpolate_savgol(signal[{fx}], window={case['window']}, order={case['order']})",
                           smooth.smooth_interpolate_savgol, args, kw, names=('signal',))
        if prob:
            return prob
        if isinstance(out, Exception):
            return f'raised {type(out).__name__}: {out}'
    else:
        try:
            with np.errstate(all='ignore'):
                out = smooth.smooth_interpolate_savgol(*args, **kw)
        except Exception as e:
            return f'raised {type(e).__name__}: {e}'
    out = np.asarray(out, dtype=float)
    if len(out) != len(sig):
        return f'{len(out)} output samples for {len(sig)} input samples'
    if not np.all(np.isfinite(out)):
        i = int(np.where(~np.isfinite(out))[0][0])
        return f'output sample {i} is {out[i]} (input NaN there: {bool(np.isnan(sig[i]))})'
    return None


# ---------------------------------------------------------------------------------------------
# cadzow / svd
# ---------------------------------------------------------------------------------------------
def _layout(rng, kind=None, ncol=None, nrow=None):
    kind = kind or str(rng.choice(['dense', 'dense', 'dense', 'checker', 'sparse']))
    ncol = ncol or int(rng.integers(1, 5))
    nrow = nrow or int(rng.integers(4, 41))
    dx = int(rng.choice([16, 32, 6]))
    dy = int(rng.choice([20, 15, 6]))
    if kind == 'dense':
        sites = [(c, r) for r in range(nrow) for c in range(ncol)]
    elif kind == 'checker':
        ncol = max(ncol, 2)
        sites = [(c, r) for r in range(nrow) for c in range(ncol) if (c + r) % 2 == 0]
    else:
        allp = [(c, r) for r in range(nrow) for c in range(ncol)]
        m = int(rng.integers(max(2, len(allp) // 3), len(allp) + 1))
        sites = [allp[i] for i in sorted(rng.choice(len(allp), size=m, replace=False))]
    if rng.random() < 0.5:
        sites = [sites[i] for i in rng.permutation(len(sites))]
    x0, y0 = int(rng.integers(0, 60)), int(rng.integers(0, 60))
    return {'kind': kind, 'x': [x0 + dx * c for c, _ in sites], 'y': [y0 + dy * r for _, r in sites]}


def _traj_impl(lay):
    from ibldsp import cadzow
    try:
        T, it, itr, trc = cadzow.trajectory(np.array(lay['x'], dtype=float), np.array(lay['y'], dtype=float))
    except Exception as e:
        return _err(e)
    pos = ';'.join(f'{int(a)},{int(b)},{int(c)}' for a, b, c in zip(it[0], it[1], itr)) or '-'
    return f'ok shape={T.shape[0]},{T.shape[1]} pos={pos} trcount={_il(trc)}'


def _standin_derank(T, r):
    A, B = np.meshgrid(np.arange(T.shape[0]), np.arange(T.shape[1]), indexing='ij')
    return (1 + (3 * A + 5 * B) % 7) * T


def _denoise_standin(lay, wav, imax, niter):
    from ibldsp import cadzow
    with _patched(cadzow, 'derank', _standin_derank):
        with np.errstate(all='ignore'):
            return cadzow.denoise(wav, np.array(lay['x'], dtype=float), np.array(lay['y'], dtype=float), 1,
                                  imax=imax or None, niter=niter)


def _is_dense(lay):
    """Every position of a regularly spaced rectangular grid occupied exactly once (cadzow.trajectory: 'coordinates are
    assumed to be regularly spaced'; only then is a plane wave geometric in the grid indices)."""
    xs, ys = sorted(set(lay['x'])), sorted(set(lay['y']))
    regular = len(set(np.diff(xs).tolist())) <= 1 and len(set(np.diff(ys).tolist())) <= 1
    return regular and len(set(zip(lay['x'], lay['y']))) == len(lay['x']) == len(xs) * len(ys)


def _shape(lay):
    nx, ny = len(set(lay['x'])), len(set(lay['y']))
    return ((nx // 2 + 1) * (ny // 2 + 1), ((nx + 1) // 2) * ((ny + 1) // 2))


def oracle_cadzow(case):
    """Full rank returns the input; a plane wave survives rank 1 (dense layouts); added noise is reduced at rank 1."""
    from ibldsp import cadzow
    lay = case['layout']
    x, y = np.array(lay['x'], dtype=float), np.array(lay['y'], dtype=float)
    rng = np.random.default_rng(case.get('seed', 0))
    nf = 3
    W = rng.standard_normal((len(x), nf)) + 1j * rng.standard_normal((len(x), nf))
    full = min(_shape(lay))
    form = case.get('form') or {}
    fw, fm, fxy, sp = form.get('wav', 'complex128'), form.get('mem', 'C'), form.get('xy', 'float64'), form.get('spelling', 'kw')
    tol = TOL_ID * (1e5 if _single(fw) else 1.0)
    xf, yf = _form1d(x, fxy), _form1d(y, fxy)
    fdesc = f' [WAV {fw} {fm}, x/y {fxy}, {"positional" if sp == "pos" else "keywords"}]' if form else ''

    def dargs(A, r):
        lead = (_mem(np.asarray(A).astype(fw), fm), xf, yf)
        return _spell(sp, lead, [('r', r), ('imax', None), ('niter', 1)]) if sp == 'pos' else (lead, {'r': r})

    def dn(A, r):
        a_, k_ = dargs(A, r)
        with np.errstate(all='ignore'):
            return np.asarray(cadzow.denoise(*a_, **k_), dtype=complex)
    W = np.asarray(W.astype(fw), dtype=complex)          # the values the form can hold
    if case.get('purity', True):
        def other_geometry():
            cadzow.denoise(np.ones((len(x), 1), dtype=complex), y.copy(), x.copy(), 1)
        tr, prob = purity('cadzow.trajectory(x, y)', lambda a, b: list(cadzow.trajectory(a, b)), (x, y), names=('x', 'y'), heavy=True,
                          before=other_geometry)
        if prob:
            return prob
        a_, k_ = dargs(W, full)
        out, prob = purity(f'cadzow.denoise(WAV, x, y, r={full}){fdesc}', cadzow.denoise, a_, k_, names=('WAV', 'x', 'y'),
                           before=other_geometry)
        if prob:
            return prob
        if isinstance(out, Exception):
            return f'full rank{fdesc}: raised {type(out).__name__}: {out}'
        out = np.asarray(out, dtype=complex)
    else:
        try:
            out = dn(W, full)
        except Exception as e:
            return f'full rank{fdesc}: raised {type(e).__name__}: {e}'
    if out.shape != W.shape or not np.allclose(out, W, atol=tol, rtol=0):
        return f'full rank r={full}{fdesc}: output differs from input by {float(np.max(np.abs(out - W))):.3g}'
    if not _is_dense(lay):
        return None
    kx, ky = case.get('k', [0.013, -0.021])
    amp = rng.standard_normal(nf) + 1j * rng.standard_normal(nf)
    P = np.exp(1j * (kx * x + ky * y))[:, None] * amp[None, :]
    out = dn(P, 1)
    if not np.allclose(out, P, atol=tol, rtol=0):
        return f'plane wave (kx={kx}, ky={ky}) at rank 1{fdesc}: output differs from input by {float(np.max(np.abs(out - P))):.3g}'
    # ranks 1..full: a superposition of rho plane waves has a trajectory matrix of rank <= rho
    rho = int(rng.integers(1, min(3, full) + 1))
    r = int(rng.integers(rho, full + 1))
    S = np.zeros((len(x), nf), dtype=complex)
    for _ in range(rho):
        k2 = rng.uniform(-0.03, 0.03, 2)
        S += np.exp(1j * (k2[0] * x + k2[1] * y))[:, None] * (rng.standard_normal(nf) + 1j * rng.standard_normal(nf))[None, :]
    out = dn(S, r)
    if not np.allclose(out, S, atol=tol * 10, rtol=0):
        return f'{rho} plane waves at rank {r} (>= {rho}): output differs from input by {float(np.max(np.abs(out - S))):.3g}'
    if full >= 4 and len(x) >= 16:       # calibrated: ratio <= 0.56 over 150 seeds on every 16-site layout, up to 0.79 on 8 sites
        N = 0.3 * (rng.standard_normal(P.shape) + 1j * rng.standard_normal(P.shape))
        out = dn(P + N, 1)
        ratio = float(np.sum(np.abs(out - P) ** 2) / np.sum(np.abs(N) ** 2))
        if not ratio < 1:
            return f'noise energy ratio after rank-1 denoising is {ratio:.3f} (not < 1)'
    return None


def oracle_svd(case):
    """svd_denoise_npx: identity when the rank is at least the rank of the data (full rank, also per collection); noise reduced otherwise."""
    from ibldsp import voltage
    rng = np.random.default_rng(case.get('seed', 0))
    nc, ns, rho = case['nc'], case['ns'], case['rho']
    coll = None if case.get('collection') is None else np.array(case['collection'], dtype=int)
    D = rng.standard_normal((nc, ns))
    form = case.get('form') or {}
    fd, fm, sp = form.get('dtype', 'float64'), form.get('mem', 'C'), form.get('spelling', 'kw')
    tolf = 1e5 if _single(fd) else 1.0
    fdesc = f' [datr {fd} {fm}, {"positional" if sp == "pos" else "keywords"}]' if form else ''

    def sargs(A, r, c):
        return _spell(sp, (_mem(np.asarray(A).astype(fd), fm),), [('rank', r), ('collection', c)])

    def sv(A, r, c=None):
        a_, k_ = sargs(A, r, c)
        return np.asarray(voltage.svd_denoise_npx(*a_, **k_), dtype=float)
    D = np.asarray(D.astype(fd), dtype=float)
    if case.get('purity', True):
        a_, k_ = sargs(D, nc, coll)
        out, prob = purity(f'voltage.svd_denoise_npx(datr, rank={nc}, collection=…){fdesc}', voltage.svd_denoise_npx, a_, k_,
                           names=('datr',))
        if prob:
            return prob
        if isinstance(out, Exception):
            return f'raised {type(out).__name__}: {out}{fdesc}'
        out = np.asarray(out, dtype=float)
    else:
        try:
            out = sv(D, nc, coll)
        except Exception as e:
            return f'raised {type(e).__name__}: {e}{fdesc}'
    if out.shape != D.shape or not np.allclose(out, D, atol=TOL_ID * tolf, rtol=0):
        return f'full rank (rank=nc={nc}){fdesc}: output differs from input by {float(np.max(np.abs(out - D))):.3g}'
    if case.get('rank'):
        # intermediate ranks: the overall rank is shared between the collections in proportion of their sizes
        # (floor, exact integers); data whose rank per collection equals that share must be returned unchanged
        r = int(case['rank'])
        cvals = np.zeros(nc, int) if coll is None else coll
        nsr = max(ns, nc + 2)
        X = np.zeros((nc, nsr))
        shares = {}
        for col in np.unique(cvals):
            idx = np.where(cvals == col)[0]
            share = min((r * len(idx)) // nc, len(idx))
            shares[int(col)] = share
            if share > 0:
                X[idx, :] = rng.standard_normal((len(idx), share)) @ rng.standard_normal((share, nsr))
        X = np.asarray(X.astype(fd), dtype=float)
        if case.get('purity', True):
            a_, k_ = sargs(X, r, coll)
            out, prob = purity(f'voltage.svd_denoise_npx(datr, rank={r}, collection=…){fdesc}', voltage.svd_denoise_npx, a_, k_,
                               names=('datr',))
            if prob:
                return prob
            if isinstance(out, Exception):
                return f'raised {type(out).__name__}: {out}{fdesc}'
            out = np.asarray(out, dtype=float)
        else:
            try:
                out = sv(X, r, coll)
            except Exception as e:
                return f'raised {type(e).__name__}: {e}{fdesc}'
        scale = max(1.0, float(np.max(np.abs(X)))) * tolf
        if out.shape != X.shape or not np.allclose(out, X, atol=TOL_ID * scale, rtol=0):
            bad = [int(c) for c in np.unique(cvals)
                   if not np.allclose(out[cvals == c], X[cvals == c], atol=TOL_ID * scale, rtol=0)]
            return (f'nc={nc}, requested rank {r}{fdesc}: data whose rank per collection equals its share {shares} (floor(rank*size/nc)) '
                    f'is not returned unchanged in collection(s) {bad}: max deviation {float(np.max(np.abs(out - X))):.3g} '
                    f'(output rank {[int(np.linalg.matrix_rank(out[cvals == c])) for c in bad]})')
    L = rng.standard_normal((nc, rho)) @ rng.standard_normal((rho, ns))
    for r in (rho, rho + 1):
        if r > nc or r == 0:
            continue
        out = sv(L, r)
        if not np.allclose(out, L, atol=TOL_ID * tolf * max(1.0, float(np.max(np.abs(L)))), rtol=0):
            return f'data of rank {rho}, requested rank {r}{fdesc}: output differs from input by {float(np.max(np.abs(out - L))):.3g}'
    # calibrated: expected ratio ~ rho (nc + ns) / (nc ns); only well-separated cases (<= 0.4) are demanded, a 4 x 4 rank-1 case reached 1.39
    if rho >= 1 and 4 * rho <= min(nc, ns) and max(nc, ns) >= 2 * min(nc, ns):
        N = 0.2 * rng.standard_normal(L.shape)
        out = sv(L + N, rho)
        ratio = float(np.sum((out - L) ** 2) / np.sum(N ** 2))
        if not ratio < 1:
            return f'noise energy ratio after rank-{rho} denoising is {ratio:.3f} (not < 1)'
    return None


# ---------------------------------------------------------------------------------------------
# cadzow_np1: channel windows and their gain windows
# ---------------------------------------------------------------------------------------------
def _np1_domain(c):
    """The documented domain of cadzow_np1 on which the property is demanded: no padding, 2 <= ovx, 2 ovx <= nswx,
    ntr - nswx a positive multiple of nswx - ovx (at least two windows)."""
    ntr, nswx, ovx, npad = c['ntr'], c['nswx'], c['ovx'], c['npad']
    return npad == 0 and ovx >= 2 and 2 * ovx <= nswx < ntr and (ntr - nswx) % (nswx - ovx) == 0


def _np1_case(rng):
    ovx = int(rng.choice([2, 2, 3, 4, 5, 8, 8, 16, int(rng.integers(2, 13))]))
    nswx = 2 * ovx + int(rng.choice([0, 0, 0, 1, 2, 3, ovx, int(rng.integers(0, 9))]))
    m = int(rng.choice([1, 1, 2, 3, 5, int(rng.integers(1, 12))]))
    ntr = m * (nswx - ovx) + nswx
    npad = 0
    kind = int(rng.integers(0, 20))
    if kind == 0:
        ntr = nswx                                      # a single window (recorded finding; the model follows the code)
    elif kind == 1:
        ntr += int(rng.choice([-1, 1, 2, nswx - ovx - 1]))   # off the documented grid: one row short still fits the extra mirrored row
    elif kind == 2:
        nswx = max(2 * ovx - int(rng.integers(1, 4)), ovx)    # np.ones(negative) / division by zero
    elif kind == 3:
        npad = int(rng.integers(1, 6))                  # padding (recorded finding; the model follows the code)
        ntr = max(ntr, npad + 2)
    elif kind == 4:                                     # the Neuropixel 1 channel count with the documented window sets
        ntr = 384
        nswx, ovx = [(32, 16), (64, 32), (64, 24), (16, 8)][int(rng.integers(0, 4))]
    return {'family': 'np1', 'ntr': int(ntr), 'nswx': int(nswx), 'ovx': int(ovx), 'npad': int(npad)}


def _np1_real(case):
    """What cadzow_np1 does with its channels, observed on the real code: `cadzow.denoise` is replaced by a recorder that
    notes which rows it is given (identified by the x / y coordinates of the first row) and returns a marker (1 in frequency
    column k for the k-th call), so that column k of the output spectrum IS the gain window of call k at its rows.
    Returns 'err X' | None (denoise not reached although windows exist: not observable) | (windows, G[ntr, ncol])."""
    from ibldsp import cadzow
    ntr, nswx, ovx, npad = case['ntr'], case['nswx'], case['ovx'], case['npad']
    x, y = np.arange(ntr, dtype=float), np.zeros(ntr)
    xp = np.r_[np.flipud(x[1:npad + 1]), x, np.flipud(x[-npad - 2:-1])]
    yp = np.r_[np.flipud(y[1:npad + 1]) - 120, y, np.flipud(y[-npad - 2:-1]) + 120]
    key = {(a, b): i for i, (a, b) in enumerate(zip(xp.tolist(), yp.tolist()))}
    ncol = (ntr + 2 * npad) // max(nswx - ovx, 1) + 4
    ns = 2 * (ncol - 1)
    calls = []

    def rec(array, *a, **k):
        xs = k['x'] if 'x' in k else a[0]
        ys = k['y'] if 'y' in k else a[1]
        calls.append((key.get((float(xs[0]), float(ys[0])), -1), int(array.shape[0])))
        out = np.zeros_like(array)
        out[:, (len(calls) - 1) % ncol] = 1
        return out
    try:
        with _patched(cadzow, 'denoise', rec), _quiet(), np.errstate(all='ignore'):
            out = cadzow.cadzow_np1(np.zeros((ntr, ns)), fs=30000, rank=1, h={'x': x, 'y': y}, ovx=ovx, nswx=nswx, npad=npad, fmax=1e9)
    except Exception as e:
        return _err(e)
    if not calls:
        return None
    out = np.asarray(out, dtype=float)
    if out.shape != (ntr, ns):
        return f'shape {out.shape}'
    return calls, np.fft.rfft(out, axis=1).real


def _np1_compare(case, real, ans):
    """(impl, model) canonical strings: 'ok' / 'ok' when windows agree exactly and every gain window agrees to 1e-12."""
    if isinstance(real, str):        # an exception: only THAT the call is rejected is compared, never the exception type
        return ('err' if real.startswith('err') else real), ('err' if ans.startswith('err') else ans[:60])
    calls, G = real
    if not ans.startswith('ok '):
        return f'windows {calls}', ans[:60]
    parts = dict(p.split('=', 1) for p in ans.split()[1:])
    win = [] if parts['win'] == '-' else [w.split(',') for w in parts['win'].split(';')]
    mwin = [(int(a), int(b) - int(a)) for a, b, _ in win]
    if mwin != [(a, b) for a, b in calls]:
        return f'windows {calls}', f'windows {mwin}'
    gws = [] if parts['gw'] == '-' else [_dec(g) for g in parts['gw'].split(';')]
    ntr, npad = case['ntr'], case['npad']
    want = np.zeros_like(G)
    for k, ((f, n), g) in enumerate(zip(mwin, gws)):
        for t in range(n):
            i = f + t - npad
            if 0 <= i < ntr:
                want[i, k % G.shape[1]] += g[t]
    if not np.allclose(G, want, atol=1e-12, rtol=0):
        i, k = np.unravel_index(int(np.argmax(np.abs(G - want))), G.shape)
        return f'gain of window {int(k)} at channel {int(i)} = {float(G[i, k])!r}', f'{float(want[i, k])!r} (kind {win[k][2] if k < len(win) else "?"})'
    w = _dec(parts['weights'])
    if not np.allclose(G.sum(axis=1), w, atol=1e-12, rtol=0):
        return 'weights ' + str(np.round(G.sum(axis=1), 6).tolist()[:8]), 'weights ' + str(np.round(w, 6).tolist()[:8])
    return 'ok', 'ok'


def _np1_header(ntr):
    """The first `ntr` channels of the Neuropixel 1 geometry (4 columns, checkerboard)."""
    import neuropixel
    h = neuropixel.trace_header(version=1)
    return {'x': np.asarray(h['x'][:ntr], dtype=float), 'y': np.asarray(h['y'][:ntr], dtype=float)}


def oracle_np1(case):
    """cadzow_np1 (trajectory-matrix rank reduction over sliding channel windows) returns its input when the requested rank
    is the full rank of every window, on its documented domain (`_np1_domain`), all frequencies kept (fmax above Nyquist)."""
    from ibldsp import cadzow
    if not _np1_domain(case) or case['ntr'] > 384:
        return None
    ntr, nswx, ovx = case['ntr'], case['nswx'], case['ovx']
    ns = int(case.get('ns', 8))
    if ns % 2:
        return None                      # odd ns: recorded finding (irfft without n), excluded exactly
    h = _np1_header(ntr)
    fulls = set()
    for f in range(0, ntr - nswx + 1, nswx - ovx):
        fulls.add(min(_shape({'x': h['x'][f:f + nswx].tolist(), 'y': h['y'][f:f + nswx].tolist()})))
    if len(fulls) != 1:
        return None                      # windows of different trajectory shapes have no common full rank
    full = fulls.pop()
    rng = np.random.default_rng(case.get('seed', 0))
    wav = rng.standard_normal((ntr, ns))
    desc = f'cadzow.cadzow_np1(wav[{ntr}, {ns}], fs=30000, rank={full}, h=NP1 header[:{ntr}], ovx={ovx}, nswx={nswx}, npad=0, fmax=30000)'
    kw = dict(fs=30000, rank=full, h=h, ovx=ovx, nswx=nswx, npad=0, fmax=30000)
    if case.get('purity', True):
        out, prob = purity(desc, cadzow.cadzow_np1, (wav,), kw, names=('wav',))
        if prob:
            return prob
        if isinstance(out, Exception):
            return f'{desc} raised {type(out).__name__}: {out}'
    else:
        try:
            with _quiet(), np.errstate(all='ignore'):
                out = cadzow.cadzow_np1(wav, **kw)
        except Exception as e:
            return f'{desc} raised {type(e).__name__}: {e}'
    out = np.asarray(out, dtype=float)
    if out.shape != wav.shape:
        return f'{desc}: output shape {out.shape} for an input of shape {wav.shape}'
    if not np.allclose(out, wav, atol=TOL_ID * 10, rtol=0):
        i = int(np.argmax(np.max(np.abs(out - wav), axis=1)))
        return (f'{desc}: full rank of every window ({full}) but the output differs from the input by '
                f'{float(np.max(np.abs(out - wav))):.3g} (largest on channel {i}: ratio out/in '
                f'{float(np.dot(out[i], wav[i]) / np.dot(wav[i], wav[i])):.4f})')
    return None


def _seq(fn):
    """With call sequences on (default), every oracle first calls the function on other data of the same shapes (cadzow: on
    the geometry with x and y swapped); say so in the report, the wrong result may be a consequence of that earlier call."""
    def wrapped(case):
        r = fn(case)
        if r and case.get('purity', True) and not r.startswith('call sequence'):
            r = ('call sequence: the same function is first called on other data of the same shapes'
                 + (' and on the geometry with x and y swapped' if case.get('family') == 'cadzow' else '') + '; then: ' + r)
        return r
    wrapped.__doc__ = fn.__doc__
    return wrapped


ORACLES = {'venn': oracle_venn, 'stack': oracle_stack, 'rolling': oracle_rolling, 'lp': oracle_lp, 'savgol': oracle_savgol,
           'sinterp': oracle_sinterp, 'cadzow': oracle_cadzow, 'svd': oracle_svd, 'np1': oracle_np1}
ORACLES = {k: _seq(v) for k, v in ORACLES.items()}


# ---------------------------------------------------------------------------------------------
# correspondence
# ---------------------------------------------------------------------------------------------
def _close(a, b, tol, scale=1.0):
    a, b = np.asarray(a, dtype=float), np.asarray(b, dtype=float)
    return a.shape == b.shape and bool(np.all(np.isfinite(a) == np.isfinite(b))) and \
        bool(np.all(np.abs(a - b)[np.isfinite(a)] <= tol * scale))


def _lean_parallel(ctx, lines, shards=4):
    """One driver process per shard (interleaved, so that the heavy families spread evenly); same answers, same order."""
    from concurrent.futures import ThreadPoolExecutor
    parts = [lines[i::shards] for i in range(shards)]
    with ThreadPoolExecutor(shards) as ex:
        res = list(ex.map(lambda p: ctx.lean(p) if p else [], parts))
    out = [None] * len(lines)
    for i, r in enumerate(res):
        out[i::shards] = r
    return out


def correspondence(ctx):
    rng = ctx.rng
    # ---- constants the model hard-codes are asserted against the real signatures
    import inspect
    from ibldsp import spiketrains, smooth
    sig = inspect.signature(spiketrains.spikes_venn3).parameters
    ctx.compare('defaults', {'op': 'defaults'},
                f"{sig['channels_binsize'].default} {sig['fs'].default} {sig['num_channels'].default} "
                f"{inspect.signature(smooth.lp).parameters['pad'].default} "
                f"{inspect.signature(smooth.rolling_window).parameters['window_len'].default}",
                '4 30000 384 0.2 11', nontrivial=False, tags=('defaults',))

    import time
    tm = {'t': time.time()}

    def lap(name):
        now = time.time()
        ctx.note(f'time {name}: {now - tm["t"]:.1f}s')
        tm['t'] = now

    lines, todo = [], []

    def add(line, fn):
        lines.append(line)
        todo.append(fn)

    # ---- venn
    for i in range(ctx.n(700, 6000)):
        case = _venn_case(rng)
        if i % 2 == 1:
            case['form'] = _draw_form(rng, 'venn')
        impl = _venn_impl(case)
        mx = max([p[0] for s in case['sorters'] for p in s] + [0])
        eff = case['chunk'] or 20 * case['fs']
        nchunks = mx // eff + 1
        desc = dict(case, op='venn')

        def fn(ans, case=case, impl=impl, nchunks=nchunks, desc=desc):
            shared = impl.startswith('ok') and any(int(v) > 0 for v, key in zip(impl[3:].split(','), range(1, 2 ** len(case['sorters'])))
                                                   if bin(key).count('1') >= 2)
            ctx.compare('venn', desc, impl, ans, nontrivial=(nchunks >= 2 or shared),
                        tags=('venn', f"venn_k={len(case['sorters'])}",
                              'venn_chunks=1' if nchunks == 1 else 'venn_chunks=2..5' if nchunks <= 5 else 'venn_chunks>5',
                              'venn_default_params' if case['chunk'] == 0 else
                              ('venn_chunk<bin' if case['chunk'] < max(case['sbin'], 1) else
                               'venn_chunk%bin!=0' if case['chunk'] % max(case['sbin'], 1) else 'venn_chunk%bin=0'),
                              'venn_err' if impl.startswith('err') else 'venn_ok') + _form_tags('venn', case.get('form')))
        add(_venn_line(case), fn)
        if i % 4 == 0:
            c2 = dict(case, form=_draw_form(rng, 'venn'))
            r = oracle_venn(c2)
            ctx.compare('venn-seq', dict(c2, op='venn-seq'), r or 'ok', 'ok', nontrivial=(nchunks >= 2),
                        tags=('venn-seq',) + _form_tags('venn', c2['form']))

    # ---- chunk-free model (global bin grid) against the real code at several chunk sizes that are multiples of the bin size
    for i in range(ctx.n(150, 1500)):
        case = _venn_case(rng, small=True)
        if not case['sbin']:
            continue
        mx = max([p[0] for s in case['sorters'] for p in s] + [0])
        cs = sorted({1, int(rng.integers(1, 7)), mx // case['sbin'] + 1 + int(rng.integers(0, 3))})
        impls = [_venn_impl(dict(case, chunk=c * case['sbin'])) for c in cs]

        def fn(ans, case=case, cs=cs, impls=impls):
            for c, impl in zip(cs, impls):
                if impl.startswith('err') and ans.startswith('err'):
                    impl = ans              # both reject the input: the exception type is not compared
                ctx.compare('venn-global', dict(case, op='venn-global', chunk=c * case['sbin']), impl, ans, nontrivial=len(cs) >= 2,
                            tags=('venn-global', 'venn-global_c=1' if c == 1 else 'venn-global_one_chunk' if c == cs[-1] else 'venn-global_c>1',
                                  'venn-global_err' if impl.startswith('err') else 'venn-global_ok'))
        sp = ' '.join(_il(x for p in s for x in p) for s in case['sorters'])
        add(f"venng {case['sbin']} {case['cbin']} {case['fs']} {case['nch']} {sp}", fn)
        if i % 10 == 0:
            c2 = dict(case, aligned=cs, chunk=cs[0] * case['sbin'], purity=False)
            r = oracle_venn(c2)
            ctx.compare('venn-aligned', dict(c2, op='venn-aligned'), r or 'ok', 'ok', nontrivial=len(cs) >= 2, tags=('venn-aligned',))
    lap('venn real')
    # ---- stack, svd plan
    for i in range(ctx.n(400, 3000)):
        case = _stack_case(rng)
        if i % 2 == 1:
            fm_ = _draw_form(rng, 'stack')
            if case['agg'] != 'sum':
                fm_['data'] = 'float64'          # bit-exact comparison of the means; other dtypes go through the value oracle
            elif _int_form(fm_.get('data', 'float64')) and np.abs(np.array(case['data'])).max() > 1000:
                fm_['data'] = 'float64'          # the SUM of saturating traces does not fit a narrow integer dtype
            case['form'] = fm_
        impl = _stack_impl(case)
        rep = len(set(case['word'])) < len(case['word'])
        if i % 3 == 0 and not case['mismatch']:
            c2 = dict(case, form=_draw_form(rng, 'stack'))
            r = oracle_stack(c2)
            ctx.compare('stack-seq', dict(c2, op='stack-seq'), r or 'ok', 'ok', nontrivial=rep,
                        tags=('stack-seq',) + _form_tags('stack', c2['form']))
        add(_stack_line(case), lambda ans, case=case, impl=impl, rep=rep: ctx.compare(
            'stack', dict(case, op='stack'), impl, ans, nontrivial=rep,
            tags=('stack', 'stack_' + case['agg'], 'stack_mismatch' if case['mismatch'] else 'stack_groups=%s' % (
                '1' if len(set(case['word'])) == 1 else '2..4' if len(set(case['word'])) <= 4 else '>4')) + _form_tags('stack', case.get('form'))))
    for i in range(ctx.n(200, 1500)):
        case = _plan_case(rng)
        impl = _plan_impl(case, rng)
        add(_plan_line(case), lambda ans, case=case, impl=impl: ctx.compare(
            'svdplan', dict(case, op='svdplan'), impl, ans, nontrivial=case['collection'] is not None,
            tags=('svdplan', 'svdplan_rank=None' if case['rank'] == 0 else 'svdplan_rank>=nc' if case['rank'] >= case['nc'] else 'svdplan_rank<nc')))

    lap('stack/svdplan real')
    # ---- exhaustive sweep of the per-collection rank allotment: all nc in 4..160 x all ranks 1..nc
    for nc in range(4, 161):
        for r in range(1, nc + 1):
            splits = [_split_of(nc, r, j) for j in range(ctx.n(1, 3))]
            sizes, got = [nc], [rk for _, rk in _allot_real(nc, r, None)]
            for sp in splits:
                rec = _allot_real(nc, r, [0] * sp + [1] * (nc - sp))
                sizes += [size for size, _ in rec]
                got += [rk for _, rk in rec]
            add(f'collranks {r} {nc} {_il(sizes)}', lambda ans, nc=nc, r=r, splits=splits, got=got: ctx.compare(
                'allot', {'op': 'allot', 'nc': nc, 'rank': r, 'splits': splits}, 'ok ' + _il(got), ans, nontrivial=(r < nc),
                tags=('allot', 'allot_rank=nc' if r == nc else 'allot_rank=1' if r == 1 else 'allot_1<rank<nc')))
    lap('allotment sweep real')
    # ---- rolling_window lengths (exhaustive box) and values
    box = ctx.n(40, 90)
    for n in range(1, box + 1):
        for wl in range(0, n + 3):
            win = WINDOWS[(n + wl) % 5]
            impl = _rollen_impl(n, wl, win)
            add(f'rollen {n} {wl}', lambda ans, n=n, wl=wl, impl=impl: ctx.compare(
                'rollen', {'op': 'rollen', 'n': n, 'wl': wl}, impl, ans, nontrivial=(3 <= wl <= n),
                tags=('rollen', 'rollen_err' if wl > n else 'rollen_wl<3' if wl < 3 else
                      'rollen_even' if wl % 2 == 0 else 'rollen_wl%4=1' if wl % 4 == 1 else 'rollen_wl%4=3')))
    for i in range(ctx.n(250, 2000)):
        wl = int(rng.integers(3, 24))
        n = int(rng.choice([wl, wl + 1, int(rng.integers(wl, 80))]))
        win = str(rng.choice(WINDOWS))
        x = rng.normal(0, 1, n) if rng.random() < 0.8 else np.full(n, float(rng.normal()))
        from ibldsp import smooth
        y = smooth.rolling_window(x, wl, win)

        def fn(ans, y=y, n=n, wl=wl, win=win, x=x):
            ok = ans.startswith('ok ') and _close(_dec(ans[3:]), y, 1e-12, max(1.0, float(np.max(np.abs(x)))))
            ctx.compare('rolling', {'op': 'rolling', 'n': n, 'wl': wl, 'window': win, 'x': x.tolist()},
                        'ok' if ok else f'len={len(y)} y[:4]={y[:4].tolist()}', 'ok' if ok else ans[:120],
                        tags=('rolling', 'rolling_' + win))
        add(f'rolling {_bl(_window(win, wl))} {_bl(x)}', fn)
        if i % 3 == 0:
            c2 = {'n': n, 'wl': wl, 'window': win, 'x': x.tolist(), 'form': _draw_form(rng, 'rolling')}
            r = oracle_rolling(c2)
            ctx.compare('rolling-seq', dict(c2, op='rolling-seq'), r or 'ok', 'ok', tags=('rolling-seq',) + _form_tags('rolling', c2['form']))
    # constants: every window name x every window length 3..23 x every input form (dtype / list, spelling)
    for win in WINDOWS:
        for wl in range(3, 24):
            for j, fx in enumerate(F1D):
                if not ctx.quick or (wl + j) % 2 == 0:
                    c2 = {'n': wl + int(rng.integers(0, 6)), 'wl': wl, 'window': win, 'purity': bool((wl + j) % 4 == 0),
                          'form': {'x': fx, 'spelling': 'pos' if (wl + j) % 3 == 0 else 'kw'}}
                    r = oracle_rolling(c2)
                    ctx.compare('rolling-const', dict(c2, op='rolling-const'), r or 'ok', 'ok',
                                tags=('rolling-const',) + _form_tags('rolling', c2['form']))

    # ---- lp: lpad, pad/crop with an exact stand-in for ft.lp
    for i in range(ctx.n(300, 2500)):
        n = int(rng.integers(1, 60))
        pad = float(rng.choice([0.0, 0.2, 0.2, 0.1, 0.5, 1.0, 1.0 / n, 0.999 / n, float(rng.uniform(0, 1))]))
        kind = str(rng.choice(['id', 'ramp']))
        lpad = int(np.ceil(n * pad))
        add(f'lpad {n} {_bits(pad)}', lambda ans, n=n, pad=pad, lpad=lpad: ctx.compare(
            'lpad', {'op': 'lpad', 'n': n, 'pad': pad}, f'ok {lpad}', ans, nontrivial=False, tags=('lpad',)))
        x = [int(v) for v in rng.integers(-50, 51, n)]
        impl = _lp_impl(x, pad, kind)
        add(f'lp {kind} {lpad} {_il(x)}', lambda ans, x=x, pad=pad, kind=kind, impl=impl, lpad=lpad: ctx.compare(
            'lp', {'op': 'lp', 'x': x, 'pad': pad, 'filter': kind}, impl, ans, nontrivial=lpad > 0,
            tags=('lp', 'lp_lpad=0' if lpad == 0 else 'lp_lpad>0')))
    # the real filter: length and constants (oracle statement, no model involved)
    for i in range(ctx.n(60, 400)):
        case = {'family': 'lp', 'n': int(rng.integers(2, 400)), 'pad': float(rng.choice([0.2, 0.05, 0.5, 1.0, float(rng.uniform(0.01, 1))])),
                'fac': [0.1, 0.2] if rng.random() < 0.5 else sorted(rng.uniform(0.02, 0.9, 2).tolist()),
                'form': _draw_form(rng, 'lp')}
        r = oracle_lp(case)
        ctx.compare('lp-real', dict(case, op='lp-real'), r or 'ok', 'ok', tags=('lp-real',) + _form_tags('lp', case['form']))

    lap('rolling/lp real')
    # ---- savgol
    sg_scale = []
    for i in range(ctx.n(260, 2200)):
        case = _savgol_case(rng)
        impl = _savgol_impl(case)

        def fn(ans, case=case, impl=impl):
            border = case['window'] >= 3 and len(case['x']) > case['window']
            tags = ('savgol', f"savgol_w={case['window']}", f"savgol_p={case['polynom']}",
                    'savgol_noisy' if case['noisy'] else 'savgol_poly')
            desc = dict(case, op='savgol')
            if isinstance(impl, str):
                ctx.compare('savgol', desc, impl, ans.split(' ')[0] + ' ' + ans.split(' ')[1] if ans.startswith('err') else ans[:40],
                            nontrivial=False, tags=tags + ('savgol_' + impl.replace(' ', '_'),))
                return
            scale = max(1.0, float(np.max(np.abs(case['y']))))
            got = _dec(ans[3:]) if ans.startswith('ok ') else None
            ok = got is not None and _close(got, impl, TOL_SAVGOL, scale)
            if got is not None and len(got) == len(impl) and np.all(np.isfinite(got)) and np.all(np.isfinite(impl)):
                sg_scale.append(float(np.max(np.abs(got - impl)) / scale))
            ctx.compare('savgol', desc, 'ok' if ok else f'y[:4]={np.asarray(impl)[:4].tolist()}',
                        'ok' if ok else ans[:100], nontrivial=border, tags=tags + ('savgol_ok',))
        add(f"savgol {case['window']} {case['polynom']} {_bl(case['x'])} {_bl(case['y'])}", fn)
    # polynomial reproduction on the real code for every generated in-domain spacing (oracle statement)
    for i in range(ctx.n(120, 1000)):
        case = _savgol_case(rng)
        case['coef'] = rng.uniform(-1, 1, case['polynom'] + 1).tolist() if case['polynom'] < 12 else [1.0]
        case.pop('y', None)
        case['form'] = _draw_form(rng, 'savgol')
        r = oracle_savgol(case)
        ctx.compare('savgol-poly', dict(case, op='savgol-poly'), r or 'ok', 'ok',
                    nontrivial=len(case['x']) > case['window'], tags=('savgol-poly',) + _form_tags('savgol', case['form']))

    # ---- smooth_interpolate_savgol
    for i in range(ctx.n(120, 1000)):
        case = _sinterp_case(rng)
        sig = _sig(case)
        from ibldsp import smooth
        try:
            with np.errstate(all='ignore'):
                out = smooth.smooth_interpolate_savgol(sig, window=case['window'], order=case['order'])
        except Exception as e:
            out = _err(e)
        if i % 2 == 0:
            c2 = dict(case, form=_draw_form(rng, 'sinterp'))
            r = oracle_sinterp(c2)
            ctx.compare('sinterp-seq', dict(c2, op='sinterp-seq'), r or 'ok', 'ok', tags=('sinterp-seq',) + _form_tags('sinterp', c2['form']))
        line = f"sinterp {case['window']} {case['order']} " + ','.join('n' if v is None else _bits(v) for v in case['signal'])

        def fn(ans, case=case, out=out, sig=sig):
            desc = dict(case, op='sinterp')
            good = np.where(~np.isnan(sig))[0]
            tags = ('sinterp', 'sinterp_lead_nan' if np.isnan(sig[0]) else 'sinterp_trail_nan' if np.isnan(sig[-1]) else 'sinterp_inner_nan')
            if isinstance(out, str):
                ctx.compare('sinterp', desc, out, ' '.join(ans.split(' ')[:2]), nontrivial=False, tags=tags + ('sinterp_err',))
                return
            ok = False
            if ans.startswith('ok '):
                parts = dict(p.split('=', 1) for p in ans.split()[1:])
                nodes = [int(v) for v in parts['nodes'].split(',')] if parts['nodes'] != '-' else []
                sm = _dec(parts['sm'])
                scale = max(1.0, float(np.nanmax(np.abs(sig))))
                ok = (nodes == good.tolist() and len(out) == len(sig) and bool(np.all(np.isfinite(out)))
                      and _close(out[good], sm, TOL_SAVGOL, scale))
            ctx.compare('sinterp', desc, 'ok' if ok else f'finite={bool(np.all(np.isfinite(out)))} len={len(out)}',
                        'ok' if ok else ans[:100], tags=tags + ('sinterp_ok',))
        add(line, fn)

    lap('savgol/sinterp real')
    # ---- cadzow: index maps, stand-in denoise
    lays = []
    dense_box = [(c, r) for c in range(1, 5) for r in range(4, 41)]
    order = rng.permutation(len(dense_box))
    for j in order[:ctx.n(14, len(dense_box))]:
        c, r = dense_box[j]
        lays.append(_layout(rng, 'dense', c, r))
    for i in range(ctx.n(10, 60)):
        lays.append(_layout(rng, str(rng.choice(['checker', 'sparse'])), None, int(rng.integers(4, 25))))
    for lay in lays:
        impl = _traj_impl(lay)
        nx, ny = len(set(lay['x'])), len(set(lay['y']))
        add(f"traj {_il(lay['x'])} {_il(lay['y'])}", lambda ans, lay=lay, impl=impl, nx=nx, ny=ny: ctx.compare(
            'traj', {'op': 'traj', 'layout': lay}, impl, ans, nontrivial=(nx >= 2 and ny >= 2),
            tags=('traj', 'traj_' + lay['kind'], f'traj_cols={nx}', 'traj_rows<=10' if ny <= 10 else 'traj_rows<=25' if ny <= 25 else 'traj_rows>25')))
        if len(lay['x']) > 70:
            continue
        nf = int(rng.integers(1, 4))
        imax = int(rng.choice([0, 0, 1, nf, nf + 2]))
        niter = int(rng.choice([1, 1, 2]))
        re = rng.integers(-9, 10, (len(lay['x']), nf)).astype(float)
        im = rng.integers(-9, 10, (len(lay['x']), nf)).astype(float)
        try:
            out = _denoise_standin(lay, re + 1j * im, imax, niter)
        except Exception as e:
            out = _err(e)
        for part, arr in (('re', re), ('im', im)):
            line = f"denoiseall {_il(lay['x'])} {_il(lay['y'])} {imax} {niter} " + ' '.join(_bl(arr[:, f]) for f in range(nf))

            def fn(ans, lay=lay, out=out, part=part, imax=imax, niter=niter, arr=arr):
                desc = {'op': 'denoise-standin', 'layout': lay, 'imax': imax, 'niter': niter, 'part': part, 'wav': arr.tolist()}
                if isinstance(out, str):
                    ctx.compare('denoise-standin', desc, out, ' '.join(ans.split(' ')[:2]), tags=('denoise-standin', 'denoise_err'))
                    return
                want = np.real(out) if part == 're' else np.imag(out)
                ok = False
                if ans.startswith('ok '):
                    cols = [_dec(c) for c in ans[3:].split(';')]
                    got = np.array(cols).T if cols else np.zeros((0, 0))
                    ok = got.shape == want.shape and _close(got, want, 1e-12, max(1.0, float(np.max(np.abs(want)))))
                ctx.compare('denoise-standin', desc, 'ok' if ok else f'out[:3]={want[:3].tolist()}', 'ok' if ok else ans[:100],
                            tags=('denoise-standin', f'denoise_niter={niter}', 'denoise_imax=None' if imax == 0 else 'denoise_imax'))
            add(line, fn)

    lap('cadzow index real')
    # ---- the integer expressions the translator tie reads off the source, observed on the real code
    from ibldsp import cadzow as _cz
    for n in range(1, ctx.n(48, 160)):
        try:
            shp = _cz.traj_matrix_indices(n).shape
            impl = f'ok {int(shp[0])} {int(shp[1])}'
        except Exception as e:
            impl = _err(e)
        add(f'trajshape {n}', lambda ans, n=n, impl=impl: ctx.compare(
            'trajshape', {'op': 'trajshape', 'n': n}, impl, ans, nontrivial=n >= 2, tags=('trajshape', 'trajshape_even' if n % 2 == 0 else 'trajshape_odd')))
    # lpad of the real smooth.lp = (length handed to the frequency-domain filter - n) / 2, for pads that are exact in binary
    for i in range(ctx.n(150, 1200)):
        n = int(rng.integers(1, 90))
        den = int(rng.choice([1, 2, 4, 8, 16, 64]))
        num = int(rng.choice([0, 1, den, den + 1, int(rng.integers(0, 2 * den + 1))]))
        seen = []

        def spy(ts, si, b, axis=None, seen=seen):
            seen.append(int(ts.shape[0]))
            return ts
        try:
            with _patched(smooth.ft, 'lp', spy):
                smooth.lp(np.arange(n, dtype=float), [0.1, 0.2], pad=num / den)
            impl = f'ok {(seen[0] - n) // 2}' if seen and (seen[0] - n) % 2 == 0 else None
        except Exception as e:
            impl = _err(e)
        if impl is None:
            ctx.note('lpadq: the padded length is not observable through ibldsp.fourier.lp any more (skipped)')
            break
        add(f'lpadq {n} {num} {den}', lambda ans, n=n, num=num, den=den, impl=impl: ctx.compare(
            'lpadq', {'op': 'lpadq', 'n': n, 'pad_num': num, 'pad_den': den}, impl, ans, nontrivial=num > 0,
            tags=('lpadq', 'lpadq_pad=0' if num == 0 else 'lpadq_n*pad_integer' if (n * num) % den == 0 else 'lpadq_n*pad_fraction')))
    # default bin size / chunk size / number of chunks of _spikes_venn, observed through the bincount2D calls
    import iblutil.numerical as _inum
    for i in range(ctx.n(40, 300)):
        fs = int(rng.choice([2500, 2600, 3000, 5000, 7500, 30000, 30003, 12499, 12500, int(rng.integers(2500, 40000))]))
        given = int(rng.integers(0, 3))           # 0: both defaults, 1: chunk given, 2: bin given
        chunk = 0 if given != 1 else int(rng.integers(1, 4000))
        sbin = 0 if given != 2 else int(rng.integers(1, 30))
        C_ = chunk or 20 * fs
        k_ = int(rng.integers(1, 4))
        mx = int(rng.choice([k_ * C_ - 1, k_ * C_, k_ * C_ + 1, int(rng.integers(0, 3 * C_ + 2))]))       # chunk boundaries
        if (mx // (chunk or 20 * fs) + 1) * ((chunk or 20 * fs) // max(sbin or (2 * fs) // 5000, 1)) > 400000:
            mx = mx % (chunk or 20 * fs)             # keep the dense bin arrays small
        seen = []
        orig = _inum.bincount2D

        def spy(x, y, xbin=0, ybin=0, xlim=None, ylim=None, weights=None, seen=seen, orig=orig):
            seen.append((int(xbin), int(xlim[1])))
            return orig(x, y, xbin, ybin, xlim, ylim, weights)
        st = (np.array([0, mx]), np.array([mx]))
        ct = (np.array([0, 0]), np.array([0]))
        try:
            with contextlib.ExitStack() as es:
                if hasattr(spiketrains, 'bincount2D'):
                    es.enter_context(_patched(spiketrains, 'bincount2D', spy))
                es.enter_context(_patched(_inum, 'bincount2D', spy))
                es.enter_context(_quiet())
                spiketrains.spikes_venn2(st, ct, samples_binsize=sbin or None, channels_binsize=1, fs=fs, num_channels=1, chunk_size=chunk or None)
        except Exception as e:
            seen = _err(e)
        if isinstance(seen, list) and (not seen or len(seen) % 2):
            ctx.note('venn defaults: the bincount2D calls of _spikes_venn are not observable any more (skipped)')
            break
        if isinstance(seen, str):
            ctx.compare('venn-chunks', {'op': 'venn-chunks', 'fs': fs, 'chunk': chunk, 'sbin': sbin, 'max_sample': mx}, seen, 'ok', tags=('venn-chunks',))
            continue
        eff_sbin, eff_chunk, nchunks = seen[0][0], seen[0][1], len(seen) // 2
        if sbin == 0:
            add(f'sbinq {fs}', lambda ans, fs=fs, v=eff_sbin: ctx.compare(
                'sbinq', {'op': 'sbinq', 'fs': fs}, f'ok {v} {v}', ans, nontrivial=False, tags=('sbinq',)))
        add(f'nchunks {mx} {eff_chunk} 0', lambda ans, fs=fs, chunk=chunk, mx=mx, nchunks=nchunks, eff_chunk=eff_chunk: ctx.compare(
            'venn-chunks', {'op': 'venn-chunks', 'fs': fs, 'chunk': chunk, 'max_sample': mx},
            f'ok {nchunks} {eff_chunk}', ans.rsplit(' ', 1)[0] + f' {chunk or 20 * fs}', nontrivial=nchunks >= 2,
            tags=('venn-chunks', 'venn-chunks_default' if chunk == 0 else 'venn-chunks_given',
                  'venn-chunks_boundary' if mx % eff_chunk in (0, eff_chunk - 1) else 'venn-chunks_inner')))
    # cadzow_np1: which channel windows are de-ranked and with which gain window each is added back
    np1_cases = []
    for i in range(ctx.n(120, 900)):
        case = _np1_case(rng)
        if case['ntr'] == 384 and ctx.quick and i % 3:
            case['ntr'] = case['nswx'] + 2 * (case['nswx'] - case['ovx'])
        real = _np1_real(case)
        if real is None:
            ctx.note('cadzow_np1: cadzow.denoise is not reached through the module attribute any more: windows not observable (skipped)')
            break
        np1_cases.append(case)
        add(f"np1 {case['ntr']} {case['nswx']} {case['ovx']} {case['npad']}", lambda ans, case=case, real=real: ctx.compare(
            'np1-windows', dict(case, op='np1-windows'), *_np1_compare(case, real, ans), nontrivial=not isinstance(real, str) and len(real[0]) >= 2,
            tags=('np1-windows', 'np1_err' if isinstance(real, str) else 'np1_domain' if _np1_domain(case) else
                  'np1_single_window' if case['ntr'] == case['nswx'] else 'np1_npad' if case['npad'] else 'np1_off_grid',
                  'np1_2ovx=nswx' if 2 * case['ovx'] == case['nswx'] else 'np1_2ovx<nswx' if 2 * case['ovx'] < case['nswx'] else 'np1_2ovx>nswx')))
    lap('tie expressions / np1 windows real')
    # ---- run the model once
    answers = _lean_parallel(ctx, lines)
    lap('lean model batch')
    for fn, ans in zip(todo, answers):
        fn(ans)
    if sg_scale:
        ctx.note(f'savgol Float twin vs real: max relative deviation {max(sg_scale):.3g} over {len(sg_scale)} cases (tolerance {TOL_SAVGOL})')

    # ---- real SVD: the property's identities (numeric, oracle statements) and the IndexError branch
    ratios = []
    sel = lays[:ctx.n(10, 208)]
    extra = []
    for lay in sel:
        case = {'family': 'cadzow', 'layout': lay, 'seed': int(rng.integers(0, 2 ** 31)),
                'k': [float(rng.uniform(-0.03, 0.03)), float(rng.uniform(-0.03, 0.03))],
                'purity': bool(len(lay['x']) <= 40 or rng.random() < 0.15), 'form': _draw_form(rng, 'cadzow')}
        r = oracle_cadzow(case)
        ctx.compare('cadzow-real', dict(case, op='cadzow-real'), r or 'ok', 'ok',
                    tags=('cadzow-real', 'cadzow_' + lay['kind']) + _form_tags('cadzow', case['form']))
        if len(extra) < ctx.n(4, 12):
            extra.append(lay)
    rk_lines, rk_impl, rk_desc = [], [], []
    from ibldsp import cadzow
    for lay in extra:
        full = min(_shape(lay))
        for r in (full, full + 1):
            W = np.ones((len(lay['x']), 1), dtype=complex)
            try:
                with np.errstate(all='ignore'):
                    cadzow.denoise(W, np.array(lay['x'], float), np.array(lay['y'], float), r=r)
                impl = 'ok'
            except IndexError:
                impl = 'err IndexError'
            except Exception as e:
                impl = _err(e)
            rk_lines.append(f"derankok {_il(lay['x'])} {_il(lay['y'])} {r}")
            rk_impl.append(impl)
            rk_desc.append({'op': 'derank-rank', 'layout': lay, 'r': r})
    for ns_, im_ in ((5, 0), (5, 3), (5, 9), (1, 1)):
        rk_lines.append(f'imax {ns_} {im_}')
        rk_impl.append(f'ok {int(np.minimum(ns_, im_) if im_ else ns_)}')
        rk_desc.append({'op': 'imax', 'ns': ns_, 'imax': im_})
    for d, a, b in zip(rk_desc, rk_impl, ctx.lean(rk_lines)):
        ctx.compare(d['op'], d, a, b, nontrivial=False, tags=(d['op'],))
    for i in range(ctx.n(40, 300)):
        nc = int(rng.integers(2, 41))
        ns = int(rng.integers(nc, 3 * nc + 20)) if rng.random() < 0.8 else int(rng.integers(2, nc + 1))
        coll = None
        if rng.random() < 0.5:
            coll = [int(v) for v in rng.integers(0, int(rng.integers(1, 5)), nc)]
        case = {'family': 'svd', 'nc': nc, 'ns': ns, 'rho': int(rng.integers(1, max(2, min(nc, ns) // 2))), 'collection': coll,
                'rank': int(rng.integers(1, nc + 1)), 'seed': int(rng.integers(0, 2 ** 31)), 'form': _draw_form(rng, 'svd')}
        r = oracle_svd(case)
        ctx.compare('svd-real', dict(case, op='svd-real'), r or 'ok', 'ok',
                    tags=('svd-real', 'svd_collections' if coll else 'svd_single',
                          'svd_rank=nc' if case['rank'] == nc else 'svd_rank=1' if case['rank'] == 1 else 'svd_1<rank<nc')
                    + _form_tags('svd', case['form']))
    # larger channel counts with intermediate ranks (single collection and per-shank style splits)
    for i in range(ctx.n(10, 200)):
        nc = int(rng.integers(8, ctx.n(97, 161)))
        coll = None if rng.random() < 0.5 else sorted(int(v) for v in rng.integers(0, int(rng.integers(2, 5)), nc))
        case = {'family': 'svd', 'nc': nc, 'ns': nc + 2, 'rho': 1, 'collection': coll, 'rank': int(rng.integers(2, nc)),
                'seed': int(rng.integers(0, 2 ** 31)), 'form': _draw_form(rng, 'svd')}
        r = oracle_svd(case)
        ctx.compare('svd-real', dict(case, op='svd-real'), r or 'ok', 'ok',
                    tags=('svd-real', 'svd_collections' if coll else 'svd_single', 'svd_1<rank<nc', 'svd_nc>=8') + _form_tags('svd', case['form']))
    # cadzow_np1 on the real SVD: full rank of every window returns the input (documented domain)
    dom = [c for c in np1_cases if _np1_domain(c) and (c['ntr'] - c['nswx']) // (c['nswx'] - c['ovx']) <= ctx.n(3, 9)]
    seen_np1 = set()
    for j, c in enumerate(dom):
        keyc = (c['ntr'], c['nswx'], c['ovx'])
        if keyc in seen_np1 or len(seen_np1) >= ctx.n(4, 16):
            continue
        seen_np1.add(keyc)
        case = dict(c, ns=int(rng.choice([4, 6, 8, 16])), seed=int(rng.integers(0, 2 ** 31)), purity=bool(len(seen_np1) == 1))
        r = oracle_np1(case)
        ctx.compare('np1-real', dict(case, op='np1-real'), r or 'ok', 'ok', tags=('np1-real', f"np1-real_windows={(c['ntr'] - c['nswx']) // (c['nswx'] - c['ovx']) + 1}"))
    lap('svd/cadzow numeric')
    # calibration of the noise oracle, recorded every run
    from ibldsp import cadzow as cz
    for lay in [l for l in sel if l['kind'] == 'dense' and len(l['x']) >= 8][:6]:
        g = np.random.default_rng(5)
        x, y = np.array(lay['x'], float), np.array(lay['y'], float)
        P = np.exp(1j * (0.011 * x - 0.017 * y))[:, None] * np.ones((1, 4))
        N = 0.3 * (g.standard_normal(P.shape) + 1j * g.standard_normal(P.shape))
        out = cz.denoise(P + N, x, y, r=1)
        ratios.append(float(np.sum(np.abs(out - P) ** 2) / np.sum(np.abs(N) ** 2)))
    if ratios:
        ctx.note(f'noise energy ratio after rank-1 cadzow on dense layouts: {min(ratios):.3f}..{max(ratios):.3f} (oracle threshold < 1)')
    for k, v in sorted(PURITY_STATS.items()):
        ctx.dist['seq: ' + k] += v
    ctx.note('call sequences (same call repeated on the SAME argument objects among other library calls; results must be those of the '
             'original values): ' + ', '.join(f'{k} = {v}' for k, v in sorted(PURITY_STATS.items())))
    ctx.note(f'rolling_window lengths enumerated completely for n <= {box}, window_len <= n + 2')


# ---------------------------------------------------------------------------------------------
# search / replay / known findings
# ---------------------------------------------------------------------------------------------
def _size(case):
    """Description length; a single-collection svd case counts its implicit nc channels, so that the smallest layout wins."""
    import json
    n = len(json.dumps(case, default=str))
    if case.get('family') == 'svd' and case.get('collection') is None:
        n += 3 * int(case.get('nc', 0))
    return n


def _candidates(ctx):
    """Small structured inputs of every family, smallest first."""
    rng = ctx.subrng(20)
    out = []
    for m in ctx.mismatches[:300]:
        c = dict(m['case'])
        op = c.pop('op', None)
        fam = {'venn': 'venn', 'stack': 'stack', 'rollen': 'rolling', 'rolling': 'rolling', 'lp': 'lp', 'lpad': 'lp', 'lp-real': 'lp',
               'savgol': 'savgol', 'savgol-poly': 'savgol', 'sinterp': 'sinterp', 'traj': 'cadzow', 'denoise-standin': 'cadzow',
               'cadzow-real': 'cadzow', 'derank-rank': 'cadzow', 'svdplan': 'svd', 'svd-real': 'svd', 'allot': 'svd',
               'venn-seq': 'venn', 'stack-seq': 'stack', 'rolling-seq': 'rolling', 'sinterp-seq': 'sinterp',
               'np1-windows': 'np1', 'np1-real': 'np1', 'lpadq': 'lp', 'venn-chunks': 'venn', 'sbinq': 'venn',
               'venn-global': 'venn', 'venn-aligned': 'venn'}.get(op)
        if fam is None:
            continue
        c['family'] = fam
        if op == 'lpadq':
            c = {'family': 'lp', 'n': c['n'], 'pad': c['pad_num'] / c['pad_den']}
        if op in ('venn-chunks', 'sbinq'):
            mx = int(c.get('max_sample', 0))
            c = {'family': 'venn', 'sorters': [[[0, 0], [mx, 0]], [[mx, 0]]], 'sbin': int(c.get('sbin', 0)), 'cbin': 1, 'fs': int(c['fs']),
                 'nch': 1, 'chunk': int(c.get('chunk', 0))}
        if fam == 'lp' and 'n' not in c:
            c['n'] = len(c.get('x', [1, 2, 3]))
        if fam == 'svd' and 'rho' not in c:
            c.update({'ns': max(c.get('ns', 8), 2), 'rho': 1})
        if op == 'allot':
            for coll in [None] + [[0] * sp + [1] * (c['nc'] - sp) for sp in c.pop('splits', [])]:
                out.append({'family': 'svd', 'nc': c['nc'], 'ns': c['nc'] + 2, 'rho': 1, 'rank': c['rank'], 'collection': coll, 'seed': 7})
            continue
        if op == 'svdplan' and c.get('rank'):
            c['ns'] = c['nc'] + 2
        out.append(c)
    # input forms: every window name x length x form for the constants; every form of every other family on small cases
    for win in WINDOWS:
        for wl in range(3, 24):
            for fx in F1D:
                for sp in ('kw', 'pos'):
                    out.append({'family': 'rolling', 'n': wl + 2, 'wl': wl, 'window': win, 'form': {'x': fx, 'spelling': sp}})
    for fx in ('float64', 'float32', 'int16', 'int64'):
        for sp in ('kw', 'pos'):
            for n in (3, 10, 37):
                out.append({'family': 'lp', 'n': n, 'pad': 0.2, 'form': {'x': fx, 'spelling': sp}})
    for fx in F1D:
        for fy in F1D:
            for (w, p_) in ((3, 1), (5, 2), (7, 3)):
                out.append({'family': 'savgol', 'window': w, 'polynom': p_, 'x': np.cumsum(rng.uniform(0.3, 1.7, w + 4)).tolist(),
                            'form': {'x': fx, 'y': fy, 'spelling': str(rng.choice(['kw', 'pos']))}})
    for _ in range(300):
        out.append(dict(_venn_case(rng, small=True), form=_draw_form(rng, 'venn')))
        c = _stack_case(rng)
        c['mismatch'] = 0
        out.append(dict(c, form=_draw_form(rng, 'stack')))
    for _ in range(60):
        out.append(dict(_sinterp_case(rng), form=_draw_form(rng, 'sinterp')))
        nc = int(rng.integers(2, 13))
        out.append({'family': 'svd', 'nc': nc, 'ns': 2 * nc + 1, 'rho': 1, 'rank': int(rng.integers(1, nc + 1)),
                    'collection': [i % 2 for i in range(nc)], 'seed': 5, 'form': _draw_form(rng, 'svd')})
    for _ in range(12):
        out.append({'family': 'cadzow', 'layout': _layout(rng, 'dense', int(rng.integers(1, 4)), int(rng.integers(4, 9))), 'seed': 3,
                    'form': _draw_form(rng, 'cadzow')})
    for (ntr, nswx, ovx) in ((12, 8, 4), (16, 8, 4), (14, 8, 2), (24, 16, 8), (20, 8, 2), (40, 16, 8), (26, 10, 2), (48, 32, 16)):
        out.append({'family': 'np1', 'ntr': ntr, 'nswx': nswx, 'ovx': ovx, 'npad': 0, 'ns': 8, 'seed': 11, 'purity': False})
    # sweep of (nc, requested rank, collection): suspects by the rank each collection receives, confirmed by the data oracle
    out += _allot_suspects()
    for _ in range(200):                       # and an unfiltered sample of intermediate ranks
        nc = int(rng.integers(4, 161))
        out.append({'family': 'svd', 'nc': nc, 'ns': nc + 2, 'rho': 1, 'rank': int(rng.integers(1, nc + 1)),
                    'collection': None if rng.random() < 0.5 else [int(v) for v in np.sort(rng.integers(0, 3, nc))], 'seed': 9})
    # exhaustive / boundary boxes
    for n in range(1, 31):
        for wl in range(3, n + 1):
            out.append({'family': 'rolling', 'n': n, 'wl': wl, 'window': WINDOWS[(n + wl) % 5]})
    for n in (1, 2, 3, 5, 10, 37, 100):
        for pad in (0.2, 0.5, 1.0, 0.05):
            out.append({'family': 'lp', 'n': n, 'pad': pad})
    for _ in range(400):
        out.append(_venn_case(rng, small=True))
    for _ in range(150):
        c = _venn_case(rng, small=True)
        if c['sbin']:
            mx = max([p[0] for s_ in c['sorters'] for p in s_] + [0])
            out.append(dict(c, aligned=[1, 2, mx // c['sbin'] + 1], chunk=c['sbin'], purity=False))
    for _ in range(300):
        out.append(_venn_case(rng))
    # realistic size with the default parameters (direct oracle only, no model)
    g = np.random.default_rng(3)
    big = []
    for n in (300, 500, 400):
        big.append([[int(a), int(b)] for a, b in zip(np.cumsum(g.poisson(3000, n)), g.integers(0, 384, n))])
    out.append({'family': 'venn', 'sorters': big, 'sbin': 0, 'cbin': 4, 'fs': 30000, 'nch': 384, 'chunk': 0})
    out.append({'family': 'venn', 'sorters': big, 'sbin': 0, 'cbin': 4, 'fs': 30000, 'nch': 384, 'chunk': 100000})
    for _ in range(300):
        c = _stack_case(rng)
        c['mismatch'] = 0
        out.append(c)
    for w in (1, 3, 5, 7, 9, 11):
        for p in range(0, min(w, 4)):
            for n in (w + 1, w + 2, 2 * w + 3, 30):
                x = np.cumsum(rng.uniform(0.3, 1.7, n)) * 0.5
                out.append({'family': 'savgol', 'window': w, 'polynom': p, 'x': x.tolist(), 'coef': [0.5, -1.0, 0.25, 0.1][:p + 1]})
                out.append({'family': 'savgol', 'window': w, 'polynom': p, 'x': np.arange(n, dtype=float).tolist(),
                            'coef': [0.5, -1.0, 0.25, 0.1][:p + 1]})
    for _ in range(120):
        out.append(_sinterp_case(rng))
    for c in range(1, 5):
        for r in (4, 5, 6, 9, 16, 40):
            out.append({'family': 'cadzow', 'layout': _layout(rng, 'dense', c, r), 'seed': 1})
    for _ in range(10):
        out.append({'family': 'cadzow', 'layout': _layout(rng, 'checker', None, int(rng.integers(4, 12))), 'seed': 2})
    for nc in (2, 3, 4, 8, 12, 24):
        for coll in (None, [i % 3 for i in range(nc)], [i // max(nc // 2, 1) for i in range(nc)]):
            out.append({'family': 'svd', 'nc': nc, 'ns': 3 * nc, 'rho': max(1, nc // 4), 'collection': coll, 'seed': 4})
    return out


def _fails_standalone(case):
    """Re-run the oracle on `case` in a fresh interpreter: a replay must not depend on what this process did before."""
    import json
    import os
    import subprocess
    import sys
    code = ('import json,sys,numpy as np\nfrom props import c20\ncase=json.loads(sys.stdin.read())\n'
            'with np.errstate(all="ignore"):\n    r=c20.ORACLES[case["family"]](case)\nprint("RESULT", json.dumps(r))')
    env = dict(os.environ, PYTHONPATH=os.pathsep.join(p for p in sys.path if p))
    try:
        p = subprocess.run([sys.executable, '-c', code], input=json.dumps(case, default=str), capture_output=True, text=True,
                           env=env, timeout=600)
        for line in p.stdout.splitlines():
            if line.startswith('RESULT '):
                return json.loads(line[7:])
        return f'oracle process failed: {p.stderr[-300:]}'
    except Exception as e:
        return None if isinstance(e, subprocess.TimeoutExpired) else f'oracle process failed: {e}'


def search(ctx, reasons):
    best = None
    cands = sorted(_candidates(ctx), key=_size)          # smallest description first: the first failure is the reported one
    tries = 0
    for case in cands:
        fn = ORACLES.get(case.get('family'))
        if fn is None:
            continue
        try:
            with np.errstate(all='ignore'):
                r = fn(case)
        except Exception as e:
            r = f'oracle raised {type(e).__name__}: {e}'
        if r:
            alone = _fails_standalone(case)              # the replay has to be self-contained
            tries += 1
            if alone:
                best = (case, alone)
                break
            ctx.note(f'search: {case.get("family")} case failed only after earlier calls in this process, not on its own: skipped')
            if tries >= 30:
                break
    if best is None:
        return None
    case, r = best
    return {'input': case, 'observed': r,
            'expected': 'C20: ' + {
                'venn': 'for every sorter the Venn regions containing it add up to its number of spikes, for any chunk size',
                'stack': 'one row per distinct label (ascending), fold = multiplicity, row = aggregate of exactly the traces with that label',
                'rolling': 'rolling_window keeps the input length and returns constants unchanged',
                'lp': 'smooth.lp keeps the input length and returns constants unchanged',
                'savgol': 'non_uniform_savgol reproduces polynomials up to its order for any spacing',
                'sinterp': 'smooth_interpolate_savgol fills NaN gaps with finite values and keeps the length',
                'cadzow': 'cadzow.denoise returns its input at full rank and for one plane wave at rank 1, and reduces added noise',
                'svd': 'svd_denoise_npx returns its input when rank >= rank of the data (overall rank shared between collections as floor(rank*size/nc)), and reduces added noise otherwise',
                'np1': 'cadzow_np1 (trajectory-matrix rank reduction over sliding channel windows) returns its input when the requested rank is the full rank of every window (documented domain: ntr - nswx a multiple of nswx - ovx, no padding, even ns, all frequencies kept)',
            }[case['family']],
            'how': f"python: harness/props/c20.py ORACLES['{case['family']}'](input)  (./check C20 --replay <this file>)"}


def replay(ctx, rep):
    case = rep['input']
    with np.errstate(all='ignore'):
        r = ORACLES[case['family']](case)
    print('oracle:', r)
    return r is not None


def known_findings(ctx):
    def lp_pad_zero():
        from ibldsp import smooth
        return len(smooth.lp(np.ones(10), [0.1, 0.2], pad=0)) != 10

    def savgol_window_equals_length():
        from ibldsp import smooth
        try:
            smooth.non_uniform_savgol(np.arange(5.0), np.arange(5.0) ** 2, 5, 2)
        except UnboundLocalError:
            return True
        return False

    def venn_narrow_int_chunk():
        from ibldsp import spiketrains
        s, c = (np.array([300]), np.array([300])), (np.array([0]), np.array([0]))
        kw = dict(samples_binsize=4, channels_binsize=4, num_channels=4)
        with _quiet():
            ref = spiketrains.spikes_venn2(s, c, chunk_size=100, **kw)
            try:
                got = spiketrains.spikes_venn2(s, c, chunk_size=np.uint8(100), **kw)
            except Exception:
                return True
        return {k: int(v) for k, v in got.items()} != {k: int(v) for k, v in ref.items()}

    def stack_int_mean_truncated():
        from ibldsp import voltage
        st, _ = voltage.stack(np.array([[1], [2]], dtype=np.int16), np.array([0, 0]))
        return float(st[0, 0]) != 1.5

    def np1_weights(ntr, nswx, ovx, npad, ns=8):
        """Per-channel ratio output / input of cadzow_np1 with denoise replaced by the identity."""
        from ibldsp import cadzow
        wav = np.random.default_rng(1).standard_normal((ntr, ns))
        h = {'x': np.arange(ntr, dtype=float), 'y': np.zeros(ntr)}
        with _patched(cadzow, 'denoise', lambda array, *a, **k: array), _quiet():
            out = cadzow.cadzow_np1(wav, fs=30000, rank=1, h=h, ovx=ovx, nswx=nswx, npad=npad, fmax=1e9)
        return wav, np.asarray(out)

    def cadzow_np1_single_window():
        wav, out = np1_weights(16, 16, 8, 0)
        return out.shape == wav.shape and bool(np.max(np.abs(out[-1])) < 1e-12 < np.max(np.abs(wav[-1])))

    def cadzow_np1_npad():
        wav, out = np1_weights(64, 16, 8, 4)
        return out.shape == wav.shape and bool(np.max(np.abs(out[53] / wav[53])) > 1.01)

    def cadzow_np1_odd_ns():
        wav, out = np1_weights(64, 16, 8, 0, ns=9)
        return out.shape != wav.shape

    return {'cadzow-np1-single-window': cadzow_np1_single_window, 'cadzow-np1-npad': cadzow_np1_npad,
            'cadzow-np1-odd-ns': cadzow_np1_odd_ns,
            'lp-pad-zero': lp_pad_zero, 'savgol-window-equals-length': savgol_window_equals_length,
            'venn-narrow-int-chunk': venn_narrow_int_chunk, 'stack-int-mean-truncated': stack_int_mean_truncated}


LEVEL_TEXT = ('Lean 4 theorems: Venn conservation for any number of sorters, any bin sizes and ANY chunk size (and the total / region validity / '
              'chunk-membership laws), and chunk-size INDEPENDENCE of the whole dictionary for chunk sizes that are multiples of the bin size (it equals a '
              'chunk-free sum over the global bin grid); stack groups ascending, fold = multiplicity, rows = aggregates of exactly their traces; rolling_window and lp '
              'length laws incl. Python banker\'s rounding (lp for every pad = num/den > 0 through lpad = ceil(n pad)), constants fixed (ℝ, and DC gain 1 over ZMod.dft); '
              'non-uniform Savitzky-Golay reproduces every polynomial up to its order at interior and border points for any distinct abscissae (Vandermonde / normal '
              'equations, Mathlib), its three loops partition the samples and never index outside the arrays, also behind NaN gaps (good indices strictly increasing = '
              'exactly the non-NaN positions); truncated SVD returns T whenever r >= rank T, anti-diagonal averaging inverts the trajectory embedding on every '
              'duplicate-free layout, a plane wave on a dense layout embeds as a rank-1 outer product; cadzow_np1: on its documented domain the channel windows cover '
              'every channel, stay inside the recording and their Hann gain windows add up to exactly 1 on every channel for every ntr / nswx / ovx (so full rank '
              'returns the input), with counterexample theorems for a single window and for padding. Translator tie (Tie/C20.lean, regenerated from the source on every '
              'run): lpad, half window, trajectory-matrix shape, imax, number / end of the cadzow_np1 windows, default bin size, number of chunks and chunk offset are '
              'proved equal to the model definitions for all arguments. Exact differential runs tie every index model to the code. PARTIAL: "reduces added noise '
              'otherwise" and "NaN gaps are filled with finite values" are numeric oracle checks only')
LEVEL_NOTE = ('partial: noise reduction (energy ratio < 1, measured each run) and finiteness of interp1d output are not theorems. Trusted: Lean kernel + '
              'Mathlib; LAPACK SVD / inv and scipy interp1d as parameters with stated laws (SVDLaw, InvLaw, interpolation through nodes); np.unique / '
              'bincount / searchsorted contracts; scipy hann = its closed form (compared to 1e-12); in-process stand-ins for derank, _svd_denoise, ft.lp, cadzow.denoise '
              'during the index comparisons; the source-to-Lean translator and its exact-rational reading of float expressions (the IEEE evaluation of lpad and of the '
              'default bin size is executed and compared, not proved). Only compared, not tied by the translator (outside its subset): the crop of rolling_window / lp '
              '(slice bounds inside a return), every loop of non_uniform_savgol (range with an explicit step), the chunk loop of _spikes_venn (tqdm), the window loop of '
              'cadzow_np1 and its first / last / middle choice, the per-collection rank of svd_denoise_npx. Defects of the code carried as excluding hypotheses with '
              'counterexample theorems: lp with lpad = 0 returns an empty array; non_uniform_savgol with len(x) == window >= 3 raises UnboundLocalError; cadzow_np1 '
              'with a single window fades out its last ovx channels, with npad > 0 double-counts the channels before the window that ends at ntr (and with odd ns '
              'returns ns - 1 samples: demonstrated, outside the model)')
TECHNIQUE = ('Lean 4 proofs (list induction, omega; Mathlib: Vandermonde, nonsingular inverse, matrix rank, polynomial composition, ZMod.dft, Finset sums, '
             'Real.cos_pi_sub) over executable models that transcribe the Python; a source-to-Lean translator tie for the integer expressions (re-proved against the '
             'current source text on every run); exact and tolerance-bounded differential correspondence; direct oracles for the numeric claims (partial)')
