"""C03 — NP2.4 shank splitting is lossless and reconstruction is its exact inverse
(neuropixel.NP2Converter / NP2Reconstructor, spikeglx._get_savedChans_subset)."""
import concurrent.futures
import logging
import os
import re
import shutil
import struct
import tempfile
from pathlib import Path

import numpy as np

ID = 'C03'
DRIVER = 'C03'
LEAN_TARGETS = ['IblVerif.Properties.C03', 'IblVerif.Model.Proto']
THEOREMS = [
    'IblVerif.C03.init_params_accepts',
    'IblVerif.C03.kept_ranges_partition',
    'IblVerif.C03.shank_channels_spec',
    'IblVerif.C03.split_is_column_subset',
    'IblVerif.C03.scale_unscale_roundtrip',
    'IblVerif.C03.round_roundtrip_witness',
    'IblVerif.C03.trunc_roundtrip_counterexample',
    'IblVerif.C03.subset_parse_print',
    'IblVerif.C03.reconstruct_split_id',
    'IblVerif.C03.meta_roundtrip_fields',
    'IblVerif.C03.reconstruct_meta_id',
    'IblVerif.C03.meta_subset_all_counterexample',
    'IblVerif.C03.ap_steps_write_every_row',
    'IblVerif.C03.prepare_folders_spec',
    'IblVerif.C03.subset_string_has_colon',
    'IblVerif.C03.shank_subset_has_colon',
    'IblVerif.C03.subset_single_bare_counterexample',
]
RULE = ('a case = (recording length ns, window nwindow, imAiRangeMax/imMaxInt pair, probe type + map key, assignment of the 384 '
        'channels to shank numbers, sample data). ns/nwindow are boundary-biased (ns < window, = window, window+1, last window '
        'aligned / off by one / short, ns < 144 = error branch), nwindow a multiple of 12 above 576; assignments: one shank, '
        'contiguous blocks, stripes, per-channel random over 1..4 shank numbers drawn from {0..3}, a shank with a single channel; '
        'data: full-range random, extremes, and one ramp recording per gain pair holding all 65 536 int16 values on AP columns. '
        'Each case runs NP2Converter(compress=False; post_check=False, a quarter with the built-in check on) and NP2Reconstructor '
        '(process(), or its steps with a reconstruction window below / at / above ns) on a scratch 385-channel recording '
        'and the Lean model on the same samples/metadata; compared: shank folder letters, every shank .ap.bin sample for sample, '
        'every shank .ap.meta key for key, the reconstructed .bin and .meta, the float32 gain bit pattern. '
        'Besides: _ind2save + WindowGenerator of the real converter on row-index signals for hundreds of (ns, nwindow) pairs '
        '(which samples are written, in which order), _get_savedChans_subset/_get_chans on random channel lists, np.rint on float32 '
        'bit patterns. One recording in three runs a stateful call sequence on the SAME objects (metadata helpers on converter.sr.meta, '
        '_ind2save twice on the same arrays, process() with one window, other library calls, init_params(other window) + '
        'process(overwrite=True), NP2Reconstructor.process() twice): every result is compared with the model of the original values; '
        'helpers and _ind2save in the sweeps are called twice on the same argument objects. Whether inputs were modified is recorded '
        'as a tag only. For two cases in three the FORM of the call is drawn independently of the values (FORM_TEXT: str/Path, '
        'positional/keyword, nwindow as int / float / numpy scalar, .bin or multi-chunk .cbin original); a quarter of the recordings hold '
        'only -32768 / 32767 on every AP column and on the sync column. Round h: on every converted recording the folder set-up of the real converter '
        '(shank_info order, key number, folder letter, column list of each shank) is compared with Split.prepAll, and the AP half of the window loop '
        'is observed call by call (_ind2save / _split2shanks wrapped on the instance: window number, rows and columns handed in, ratio, rows kept, rows appended, order) '
        'and compared with Split.apSteps / apAppended (skipped, tagged loop-steps:unobserved, when the methods do not exist); the TEXT of the saved-channel subset '
        '(string, presence of a colon, what _get_chans reads from it, and for >= 2 channels what it reads after write_meta_data / read_meta_data) on single channels, pairs, '
        'all-isolated lists, runs ending at 383 with and without the sync index, lists without sync, the whole probe. non-trivial = the conversion succeeds (>= 2 windows for the sweep); distinct by the whole case description')
ASSUMPTIONS = [
    'input forms: every form in FORM_TEXT is accepted by the unchanged code and gives the same files; nwindow floats are integer-valued (the API converts with int()); positional NP2Converter calls pass delete_original=False, compress=False (equal values, so a swap of just these two parameters is not observable)',
    'C03 does not state that inputs are left untouched or that results do not alias internal buffers: argument bit-identity is recorded as a tag (inputs:untouched / inputs:modified), only wrong RESULTS of a call sequence on the same objects are reported; replays are judged in a fresh interpreter',
    'recordings have 384 AP channels + 1 sync channel (the NP2.4 metadata the converter accepts); the reconstructor code itself assumes exactly one sync column (chns[:-1])',
    'shank numbers are single decimal digits (the code stores int(sh[-1]) of the key "shank<sh>"); NP2.4 has shanks 0..3',
    'ns >= 144: a recording shorter than the LF taper makes extract_lfp raise ValueError before anything is written (modelled as an error branch, compared, excluded from the oracle)',
    'ns >= 3 so that fileTimeSecs >= 1e-4 is written positionally (C09 finding F12 otherwise)',
    'the original metadata describe the file: acqApLfSy[0] = snsApLfSy[0] = 384, nSavedChans = 385, fileSizeBytes = the size, snsSaveChanSubset = 0:384; an original with snsSaveChanSubset=all comes back as 0:384 (finding save-subset-all: excluded from the generator, hypothesis h5 of the metadata theorems, demonstrated by known_findings)',
    'metadata are compared as parsed by spikeglx.read_meta_data (like the repository test), values canonicalised to their written form; line order is not compared',
    'the channel list written for a shank has two or more members (>= 1 channel of the shank + 1 sync column): a one-member list (recording saved without sync word AND a one-channel shank) is rendered as a bare number that read_meta_data re-reads as a float and _get_chans cannot split — outside the 384 + 1 layout, excluded from the via-meta comparison, stated by subset_single_bare_counterexample, demonstrated by known_findings()["single-channel-subset-bare"], reported as an informational note',
    'the call-by-call observation of the window loop wraps _ind2save / _split2shanks on the converter instance; a rewrite that removes these methods is not an alarm (the comparison is skipped), the byte comparison of the files still decides',
    'float32 rounding is the IEEE standard model |delta| <= 2^-24 without under/overflow (true for the SpikeGLX gains, checked bit for bit against NumPy on all int16 values x 9 gain pairs each run)',
]
TRUSTED = [
    'np.rint / astype(float32) / astype(int16) / float32 * and / are IEEE operations equal to Lean Float32 ones (compared bit for bit each run)',
    'int()/split(",")/split(":") parsing of the channel-subset text (the rendering is now in the model, Split.renderToks, and compared with the real string; the inverse law is proved on tokens, the presence of a colon on the text)',
    'the translator harness/pyfn2lean.py and the event patterns / per-item assumptions of harness/tiespecs/c03.py (which statements of the source are read as which event)',
    'write_meta_data / read_meta_data round trip of the untouched keys (C09)',
]
LEVEL_TEXT = ('Lean 4 theorems for every recording length, every window above the overlap, every channel-to-shank assignment and every '
              'sample matrix: written rows = 0..ns-1 once and in order; each shank file = the original columns of that shank then sync '
              '(given the sample codec is the identity on int16); reconstruction of the split = the original frames; channel-subset '
              'print/parse inverse; the subset text of every shank file contains a colon (two or more channels; the single-channel class is the exact exception, '
              'with a counterexample theorem); the window loop in the order of the source appends every sample once; folder letters increase with the shank '
              'number; metadata round trip except original_meta. Translator tie (regenerated from the source each run): _ind2save, init_params, one iteration of '
              '_writemetadata_ap and of _prepare_files_NP24, the AP event sequence of _process_NP24 over WindowGenerator.firstlast, NP2Reconstructor.process / '
              'get_params / write_metadata, the arange bounds of _get_chans = the model definitions, for all arguments. Codec identity: real-analysis theorem in the standard '
              'model of float32 rounding for every gain, plus bit-exact execution against NumPy on all int16 values x 9 gains.')
LEVEL_NOTE = ('partial on one link: "float32 scale/unscale + rint is the identity on int16" is proved over the reals in the standard rounding '
              'model (every gain) and checked bit for bit by execution, not proved about IEEE bit patterns; parsing of the subset text '
              '(split / int) and the .meta text round trip are trusted (C09) and compared numerically (subset-via-meta). Only numeric / not tied by the translator: '
              'NP2Reconstructor._reconstruct (inner loop over an opaque dict: column scatter, sync from the first folder) and _get_savedChans_subset (NumPy run '
              'detection inside a comprehension) are hand-modelled and compared byte for byte / string for string; _split2shanks, extract_lfp, the LF half and '
              'check_NP24 are not in the tie; that wg.iw equals the position of the window is read off the generator (C17 tie), not re-proved here')
TECHNIQUE = ('Lean 4 proofs by functional induction over the window loop, list/array lemmas for column selection and scatter, Mathlib '
             'real arithmetic for the rounding bound, kernel-evaluated Float32 witnesses; source-to-Lean translation of the integer / decision / '
             'event-order skeleton of the anchored functions with theorems translated = model re-checked on every run; byte-exact differential run of the real '
             'converter/reconstructor against the model, incl. call-by-call observation of the window loop and of the folder set-up')

GAINS = [(0.5, 8192), (0.62, 2048), (0.6, 512), (0.62, 8192), (0.5, 512), (0.6, 8192), (0.6, 2048), (0.5, 2048), (0.62, 512)]
FS = 29999.757983
NAME = '_spikeglx_ephysData_g0_t0.imec0.ap'
NC, NAP = 385, 384


def _fixture():
    from framework import SRC
    return SRC / 'tests' / 'fixtures' / 'np2split' / 'NP24_meta' / (NAME + '.meta')


# ---------------------------------------------------------------------------------------------
# deterministic builders (a case description is a small JSON-able dict)
# ---------------------------------------------------------------------------------------------
def make_smap(spec):
    """384 shank numbers from a small description."""
    kind, ids = spec['kind'], list(spec['ids'])
    rng = np.random.default_rng(spec.get('seed', 0))
    if kind == 'one':
        m = np.full(NAP, ids[0])
    elif kind == 'blocks':       # contiguous blocks, random cut points, shank numbers in the given order
        cuts = np.sort(rng.choice(np.arange(1, NAP), size=len(ids) - 1, replace=False)) if len(ids) > 1 else np.array([], int)
        m = np.zeros(NAP, int)
        for i, (a, b) in enumerate(zip(np.r_[0, cuts], np.r_[cuts, NAP])):
            m[a:b] = ids[i]
    elif kind == 'stripes':      # period p, like the hStripe IMRO tables
        p = spec.get('period', 48)
        m = np.array([ids[(c // p) % len(ids)] for c in range(NAP)])
    elif kind == 'random':       # per-channel, every listed shank used at least once
        m = np.array(ids)[rng.integers(0, len(ids), NAP)]
        pos = rng.choice(NAP, size=len(ids), replace=False)
        m[pos] = ids
    elif kind == 'single':       # ids[0] holds exactly one channel `chan`, the others share the rest in blocks
        rest = ids[1:] or [ids[0]]
        m = np.array([rest[(c * len(rest)) // NAP] for c in range(NAP)])
        if len(ids) > 1:
            m[spec['chan']] = ids[0]
    else:
        raise ValueError(kind)
    return [int(x) for x in m]


def make_data(spec, ns):
    kind = spec['kind']
    rng = np.random.default_rng(spec.get('seed', 0))
    if kind == 'random':
        d = rng.integers(-32768, 32768, (ns, NC))
    elif kind == 'extremes':
        d = rng.choice(np.array([-32768, -32767, -16385, -1, 0, 1, 2, 3, 16383, 32766, 32767]), size=(ns, NC))
        d[:, -1] = rng.integers(-32768, 32768, ns)
    elif kind == 'minmax':       # only the two extreme int16 values, on every AP column AND on the sync column, at every sample
        d = rng.choice(np.array([-32768, 32767]), size=(ns, NC))
    elif kind == 'ramp':         # AP columns run through all 65 536 values (171 rows), then keep counting
        d = np.zeros((ns, NC), int)
        idx = np.arange(ns)[:, None] * NAP + np.arange(NAP)[None, :]
        d[:, :NAP] = (idx * spec.get('step', 1) + spec.get('offset', 0)) % 65536 - 32768
        d[:, -1] = (np.arange(ns) * 257) % 65536 - 32768
    elif kind == 'const':
        d = np.full((ns, NC), spec['value'])
        d[:, -1] = spec.get('sync', 0)
    else:
        raise ValueError(kind)
    return d.astype(np.int16)


def write_recording(root, case, data, smap):
    d = Path(root) / 'probe00'
    d.mkdir(parents=True)
    rmax, mint = case['gain']
    ns = case['ns']
    out = []
    for line in _fixture().read_text().splitlines():
        k, v = line.split('=', 1)
        if k == 'fileSizeBytes':
            v = str(ns * NC * 2)
        elif k == 'fileTimeSecs':
            v = repr(ns / FS)
        elif k == 'imAiRangeMax':
            v = repr(rmax)
        elif k == 'imAiRangeMin':
            v = repr(-rmax)
        elif k == 'imMaxInt':
            v = str(mint)
        elif k == 'imDatPrb_type':
            v = str(case.get('prb_type', 24))
        elif k == 'snsSaveChanSubset' and case.get('save_subset'):
            v = case['save_subset']           # only used by the known-finding demonstration ("all")
        elif k == 'snsShankMap':
            if case.get('map_key', 'snsShankMap') == 'snsShankMap':
                v = '(4,2,640)' + ''.join(f'({s}:{i % 2}:{i // 2}:1)' for i, s in enumerate(smap))
            else:   # 2023+ metadata: shank:x:y:flag
                k = 'snsGeomMap'
                v = '(NP2014,4,250,70)' + ''.join(f'({s}:{27 + 32 * (i % 2)}:{15 * (i // 2)}:1)' for i, s in enumerate(smap))
        out.append(f'{k}={v}')
    (d / (NAME + '.meta')).write_text('\n'.join(out) + '\n')
    data.tofile(d / (NAME + '.bin'))
    return d / (NAME + '.bin')


def _token(s):
    return s if re.fullmatch(r'[A-Za-z0-9_.:/,+\-]+', s) else '@' + s.encode().hex()


def canon_meta(md):
    """parsed metadata → {key: canonical written form}, the encoding shared with the driver."""
    out = {}
    for k, v in md.items():
        if isinstance(v, list):
            out[k] = 'l:' + ','.join(str(int(x)) for x in v)
        elif k in ('snsSaveChanSubset', 'snsSaveChanSubset_orig'):
            out[k] = 's:' + (str(int(v)) if isinstance(v, float) else str(v))
        elif isinstance(v, bool):
            out[k] = 'a:' + str(v)
        elif isinstance(v, (int, float)) and float(v).is_integer():
            out[k] = 'i:' + str(int(v))
        elif isinstance(v, float):
            out[k] = 'a:' + _token(repr(v))
        else:
            out[k] = 'a:' + _token(str(v))
    return out


def _frozen(x):
    """deep, comparable snapshot of arrays / dicts / lists (arrays by dtype, shape and bytes)."""
    if isinstance(x, np.ndarray):
        return ('nd', str(x.dtype), x.shape, x.tobytes())
    if isinstance(x, dict):
        return ('dict', tuple((k, _frozen(v)) for k, v in x.items()))
    if isinstance(x, (list, tuple)):
        return ('seq', tuple(_frozen(v) for v in x))
    return ('val', repr(x))


def _read_shanks(tmp):
    import spikeglx
    shanks = {}
    for fold in sorted(Path(tmp).glob('probe00?*')):
        f = fold / (NAME + '.bin')
        mf = fold / (NAME + '.meta')
        shanks[fold.name[len('probe00'):]] = {'bytes': np.fromfile(f, dtype=np.int16) if f.exists() else None,
                                               'meta': spikeglx.read_meta_data(mf) if mf.exists() else None}
    return shanks


def _disk_state(paths):
    return {str(p): (p.read_bytes() if p.exists() else None) for p in paths}


def _interleave(bin_file):
    """other calls of the library's own functions (on their own objects) between two identical calls; nothing the
    harness receives is modified."""
    import neuropixel
    import spikeglx
    from ibldsp.utils import WindowGenerator
    sr2 = spikeglx.Reader(bin_file, sort=True)
    sr2[0:50, :]
    sr2.read(nsel=slice(0, 10), csel=slice(0, 5), sync=False)
    spikeglx.geometry_from_meta(sr2.meta)
    spikeglx._map_channels_from_meta(sr2.meta)
    spikeglx._conversion_sample2v_from_meta(sr2.meta)
    neuropixel.split_trace_header(neuropixel.trace_header(version=2, nshank=4), shank=1)
    sr2.close()
    spikeglx._get_savedChans_subset(np.array([2, 3, 9, 384]))
    wg = WindowGenerator(5000, 1200, 576)
    for _ in wg.firstlast:
        pass


def _hook_loop(conv):
    """observe the AP half of the window loop of the real converter: every `_ind2save(..., etype='ap')` (window number, rows and
    columns of the chunk it is handed, rows it keeps) and every `_split2shanks(..., etype='ap')` (rows appended), in call order.
    The two methods are wrapped on the instance; when the converter does not have them (a rewrite) nothing is observed and the
    comparison is skipped."""
    trace = []
    i2s, s2s = getattr(conv, '_ind2save', None), getattr(conv, '_split2shanks', None)
    if not (callable(i2s) and callable(s2s)):
        return None

    def ind2save(*args, **k):      # transparent: whatever the call looks like, it is passed on unchanged
        out = i2s(*args, **k)
        try:
            chunk, chunk_sync, wg = args[0], args[1], args[2]
            a = args[3:]
            if k.get('etype', a[1] if len(a) > 1 else 'ap') == 'ap':
                trace.append(('keep', int(wg.iw), int(chunk.shape[1]), int(chunk.shape[0]), int(chunk_sync.shape[0]),
                              int(k.get('ratio', a[0] if a else 1)), int(out.shape[0])))
        except Exception:   # noqa
            trace.append(('unobserved',))
        return out

    def split2shanks(*args, **k):
        try:
            chunk, a = args[0], args[1:]
            if k.get('etype', a[0] if a else 'ap') == 'ap':
                trace.append(('append', int(chunk.shape[0]), int(chunk.shape[1])))
        except Exception:   # noqa
            trace.append(('unobserved',))
        return s2s(*args, **k)
    try:
        conv._ind2save, conv._split2shanks = ind2save, split2shanks
    except Exception:   # noqa
        return None
    return trace


def _prep_of(conv):
    """what `_prepare_files_NP24` set up: per entry of shank_info (in its order) the key number, the folder letter, the columns"""
    try:
        out = []
        for key, si in conv.shank_info.items():
            out.append(f'key={int(str(key)[len("shank"):])} letter={ord(Path(si["ap_file"]).parent.name[len("probe00"):][0])} '
                       f'chns={",".join(str(int(c)) for c in si["chns"])}')
        return 'ok ' + ' ;; '.join(out)
    except Exception:   # noqa
        return None


def _canon_trace(trace):
    """observed keep / append calls -> the canonical line compared with the model's `steps` answer"""
    wins, n, order, cols = [], 0, 'keep-append', set()
    i = 0
    while i < len(trace):
        t = trace[i]
        if t[0] != 'keep' or i + 1 >= len(trace) or trace[i + 1][0] != 'append' or trace[i + 1][1] != t[6]:
            order = f'unexpected call order at {i}: {trace[i:i + 2]}'
            break
        wins.append(f'{t[1]}:{t[2]}:{t[6]}')
        cols.add((t[3], t[4], t[5], trace[i + 1][2]))
        n += t[6]
        i += 2
    return f'n={n} win={",".join(wins)} cols={sorted(cols)} order={order}'


def _canon_steps(ans):
    """the model's `steps` answer in the same form (napch AP columns, nc - isync sync columns, ratio 1, appended width nc)"""
    if not ans.startswith('ok'):
        return ans
    f = dict(x.split('=', 1) for x in ans.split(' ')[1:])
    wins = [w.split(':') for w in f['win'].split(',')]
    reads = [r.split(':') for r in f['reads'].split(',')]
    same_rows = all(a[1:3] == b[1:3] == w[1:3] for a, b, w in zip(reads[0::2], reads[1::2], wins)) and len(reads) == 2 * len(wins)
    cols = sorted({(int(a[3]), NC - int(b[3]), 1, NC) for a, b in zip(reads[0::2], reads[1::2])})
    return (f'n={f["n"]} win={",".join(f"{w[0]}:{int(w[2]) - int(w[1])}:{w[3]}" for w in wins)} cols={cols} '
            f'order={"keep-append" if same_rows else "model reads differ between AP and sync"}')


FORM_TEXT = ('form: path = ap_file / raw_ephys_path given as str or pathlib.Path; spelling = options by keyword or positionally in the '
             'signature order NP2Converter(ap_file, post_check, delete_original, compress), init_params(nsamples, nwindow, extra, nshank), '
             'process(overwrite), NP2Reconstructor(raw_ephys_path, pname, compress); nwindow = the same window size as Python int, '
             'integer-valued float (like 0.04 * 30000), numpy int16/int32/int64 or float64; container = the original given as .bin or as '
             'mtscomp .cbin + .ch (300-sample chunks)')


def _wform(w, kind):
    return {'int': int, 'float': float, 'np.int16': np.int16, 'np.int32': np.int32, 'np.int64': np.int64,
            'np.float64': np.float64}[kind or 'int'](w)


SEQ_TEXT = ('call sequence "stateful": c = NP2Converter(bin, post_check, compress=False); spikeglx._map_channels_from_meta / '
            '_conversion_sample2v_from_meta / geometry_from_meta(c.sr.meta); c.init_params(nwindow=nwindow0); '
            'c._ind2save(chunk, sync, wg) twice on the same first-window arrays; c.process(); a second Reader, geometry and '
            'WindowGenerator calls of the library on their own objects; c.init_params(nwindow=nwindow); c.process(overwrite=True); '
            'r = NP2Reconstructor(...); r.process(); delete its output; r.process() again. Every RESULT (both _ind2save outputs, the shank '
            'files after each process(), both reconstructions) must satisfy C03 with respect to the original sample values')


def run_real(case, data, smap, reconstruct=True):
    """Run the real converter (and reconstructor) on a scratch recording, following the case's call sequence
    (`seq`: 'plain' = one process() + one reconstruction; 'stateful' = SEQ_TEXT).  Returns a dict of observables;
    `purity` lists every argument / input that a call modified — informational only (a tag in the evidence): C03 does not
    say inputs stay untouched, so only a wrong RESULT of a later call is ever reported."""
    import neuropixel
    import spikeglx
    from ibldsp.utils import WindowGenerator
    logging.getLogger('ibllib').setLevel(logging.CRITICAL)
    logging.getLogger().setLevel(logging.CRITICAL)
    tmp = tempfile.mkdtemp(prefix='c03_')
    stateful = case.get('seq') == 'stateful'
    form = case.get('form') or {}
    pos = form.get('spelling') == 'pos'
    aspath = (lambda q: str(q)) if form.get('path') == 'str' else (lambda q: q)
    res = {'purity': []}

    def untouched(what, before, after, step):
        if before != after:
            res['purity'].append(f'{what} modified by {step}')

    def reconstruct_once(rec):
        if case.get('recon_window'):      # the steps of process(), with a smaller reconstruction window
            rec.shank_info = rec._prepare_files()
            if rec.shank_info is None:
                return 0
            rec.get_params()
            rec.samples_window = int(case['recon_window'])
            st = rec._reconstruct()
            rec.write_metadata()
            return st
        return rec.process()

    def init_params(conv, w):
        w = _wform(w, form.get('nwindow'))
        return conv.init_params(None, w) if pos else conv.init_params(nwindow=w)
    try:
        bin_file = write_recording(tmp, case, data, smap)
        meta_file = bin_file.with_suffix('.meta')
        res['orig_meta'] = spikeglx.read_meta_data(meta_file)
        if form.get('container') == 'cbin':      # the original as mtscomp .cbin + .ch
            import contextlib
            import io
            sr0 = spikeglx.Reader(bin_file, sort=False)
            with contextlib.redirect_stderr(io.StringIO()):      # mtscomp progress bars; 300-sample chunks
                cbin = sr0.compress_file(keep_original=False, chunk_duration=0.01)
            sr0.close()
            bin_file = Path(cbin)
        inputs = [bin_file, meta_file] + ([bin_file.with_suffix('.ch')] if bin_file.suffix == '.cbin' else [])
        disk0 = _disk_state(inputs)
        conv = None
        try:
            pc = bool(case.get('post_check', False))
            conv = (neuropixel.NP2Converter(aspath(bin_file), pc, False, False) if pos else
                    neuropixel.NP2Converter(aspath(bin_file), post_check=pc, compress=False))
            s2v = conv.sr.channel_conversion_sample2v
            res['gain_bits'] = int(np.asarray(s2v['ap'][:1], dtype=np.float32).view(np.uint32)[0])
            res['sync_gain_bits'] = int(np.asarray(s2v['ap'][-1:], dtype=np.float32).view(np.uint32)[0])
            meta0, s2v0 = _frozen(dict(conv.sr.meta)), _frozen(s2v)

            def inputs_untouched(step):
                untouched('original .bin/.meta on disk', disk0, _disk_state(inputs), step)
                untouched('converter.sr.meta', meta0, _frozen(dict(conv.sr.meta)), step)
                untouched('converter.sr.channel_conversion_sample2v', s2v0, _frozen(s2v), step)
            if stateful:
                for fn in (spikeglx._map_channels_from_meta, spikeglx._conversion_sample2v_from_meta, spikeglx.geometry_from_meta):
                    fn(conv.sr.meta)
                inputs_untouched('the metadata helpers called on converter.sr.meta')
                init_params(conv, case['nwindow0'])
                wg = WindowGenerator(case['ns'], case['nwindow0'], conv.samples_overlap)
                first, last = next(iter(wg.firstlast))
                chunk, sync = conv.sr[first:last, :conv.napch].T, conv.sr[first:last, conv.idxsyncch:].T
                args0 = _frozen([chunk, sync])
                res['ind2save'] = []
                for rep in (1, 2):
                    res['ind2save'].append(np.array(conv._ind2save(chunk, sync, wg, ratio=1, etype='ap')))
                    untouched('_ind2save argument arrays (chunk, chunk_sync)', args0, _frozen([chunk, sync]), f'_ind2save call {rep}')
                res['status_first'] = conv.process()
                res['shanks_first'] = _read_shanks(tmp)
                inputs_untouched(f'process() with nwindow={case["nwindow0"]}')
                _interleave(bin_file)
                inputs_untouched('unrelated library calls')
            init_params(conv, case['nwindow'])
            res['loop_trace'] = _hook_loop(conv)
            res['status'] = (conv.process(True) if pos else conv.process(overwrite=True)) if stateful else conv.process()
            res['prep'] = _prep_of(conv)
            inputs_untouched(f'process({"overwrite=True" if stateful else ""}) with nwindow={case["nwindow"]}')
        except Exception as e:   # noqa
            res['split_error'] = type(e).__name__
            res['split_error_msg'] = str(e)[:200]
        finally:
            if conv is not None:
                try:
                    conv.sr.close()
                except Exception:
                    pass
                for si in getattr(conv, 'shank_info', {}).values():
                    for key in ('ap_open_file', 'lf_open_file'):
                        if key in si:
                            si[key].close()
        res['shanks'] = _read_shanks(tmp)
        if reconstruct and 'split_error' not in res:
            shutil.rmtree(Path(tmp) / 'probe00')
            shank_paths = sorted(p for p in Path(tmp).glob('probe00?*/*.ap.*') )
            shank0 = _disk_state(shank_paths)
            try:
                rec = (neuropixel.NP2Reconstructor(aspath(Path(tmp)), 'probe00', False) if pos else
                       neuropixel.NP2Reconstructor(aspath(Path(tmp)), pname='probe00', compress=False))
                f = Path(tmp) / 'probe00' / (NAME + '.bin')
                for rep in ((1, 2) if stateful else (1,)):
                    st = reconstruct_once(rec)
                    key = '' if rep == 1 else '2'
                    res['recon_status' + key] = st
                    res['recon_bytes' + key] = np.fromfile(f, dtype=np.int16) if f.exists() else None
                    res['recon_meta' + key] = spikeglx.read_meta_data(f.with_suffix('.meta')) if f.with_suffix('.meta').exists() else None
                    untouched('shank .ap.bin/.ap.meta files', shank0, _disk_state(shank_paths), f'reconstruction {rep}')
                    if stateful and rep == 1:       # remove the output, keep the folder the constructor made
                        for q in (Path(tmp) / 'probe00').glob('*'):
                            q.unlink()
            except Exception as e:   # noqa
                res['recon_error'] = type(e).__name__
                res['recon_error_msg'] = str(e)[:200]
    finally:
        shutil.rmtree(tmp, ignore_errors=True)
    return res


# ---------------------------------------------------------------------------------------------
# case generator
# ---------------------------------------------------------------------------------------------
def _rand_smap_spec(rng):
    k = int(rng.choice([1, 2, 3, 4], p=[0.15, 0.25, 0.2, 0.4]))
    ids = sorted(int(x) for x in rng.choice(4, size=k, replace=False))
    if rng.random() < 0.3:
        ids = [int(x) for x in rng.permutation(ids)]
    kind = str(rng.choice(['one', 'blocks', 'stripes', 'random', 'single'], p=[0.1, 0.25, 0.15, 0.3, 0.2]))
    spec = {'kind': kind, 'ids': ids, 'seed': int(rng.integers(0, 2 ** 31))}
    if kind == 'one':
        spec['ids'] = ids[:1]
    if kind == 'stripes':
        spec['period'] = int(rng.choice([1, 2, 32, 48, 96]))
    if kind == 'single':
        spec['chan'] = int(rng.choice([0, 1, 191, 382, 383, int(rng.integers(0, NAP))]))
    return spec


def _rand_lengths(rng, max_ns, max_win):
    w = int(rng.choice([588, 588, 600, 612, 1200, 2400, 12 * int(rng.integers(50, 251))]))
    stride = w - 576
    kind = str(rng.choice(['lt_w', 'eq_w', 'w+1', 'aligned', 'aligned-1', 'aligned+1', 'short_last', 'free']))
    kmax = max(1, min(max_win - 1, (max_ns - w) // stride))
    k = int(rng.integers(1, kmax + 1))
    if kind == 'lt_w':
        ns = int(rng.integers(144, w))
    elif kind == 'eq_w':
        ns = w
    elif kind == 'w+1':
        ns = w + 1
    elif kind == 'aligned':
        ns = w + k * stride
    elif kind == 'aligned-1':
        ns = w + k * stride - 1
    elif kind == 'aligned+1':
        ns = w + k * stride + 1
    elif kind == 'short_last':
        ns = w + (k - 1) * stride + int(rng.integers(1, stride))
    else:
        ns = int(rng.integers(w, w + kmax * stride + 1))
    return ns, w, kind


def _rand_form(rng, w):
    return {'path': str(rng.choice(['str', 'Path'])), 'spelling': str(rng.choice(['kw', 'pos'])),
            'nwindow': str(rng.choice(['int', 'float', 'np.int64', 'np.int32', 'np.float64'] + (['np.int16'] if w < 32768 else []))),
            'container': str(rng.choice(['bin', 'bin', 'cbin']))}


def _cases(ctx):
    rng = ctx.rng
    cases = []
    # one ramp recording per gain pair: every int16 value on AP columns (172 rows x 384 columns)
    for i, g in enumerate(GAINS):
        ids = [[0, 1, 2, 3], [0], [1, 3], [0, 1, 2]][i % 4]
        cases.append({'ns': 172 + i, 'nwindow': 588, 'gain': list(g), 'prb_type': 24 if i % 2 == 0 else 2013,
                      'map_key': 'snsShankMap' if i % 3 else 'snsGeomMap',
                      'shanks': {'kind': ['blocks', 'one', 'stripes', 'random'][i % 4], 'ids': ids, 'seed': i, 'period': 48},
                      'data': {'kind': 'ramp', 'offset': int(rng.integers(0, 65536)), 'step': 1}, 'lenkind': 'ramp',
                      'form': {'path': ['str', 'Path'][i % 2], 'spelling': ['kw', 'pos'][(i // 2) % 2], 'container': ['bin', 'cbin', 'bin'][i % 3],
                               'nwindow': ['int', 'float', 'np.int16', 'np.int32', 'np.int64', 'np.float64'][i % 6]}})
    if not ctx.quick:   # further full-scale / max-int pairs, every int16 value each
        for i, g in enumerate([(0.7, 8192), (1.0, 32768), (0.55, 1024), (0.62, 4096), (0.3, 512), (1.2, 2048), (0.61, 8191)]):
            cases.append({'ns': 171 + 12 * i, 'nwindow': 588, 'gain': list(g), 'prb_type': 24, 'map_key': 'snsShankMap',
                          'shanks': {'kind': 'stripes', 'ids': [0, 1, 2, 3], 'seed': i, 'period': 32},
                          'data': {'kind': 'ramp', 'offset': int(rng.integers(0, 65536)), 'step': 1}, 'lenkind': 'ramp'})
    n = ctx.n(16, 180)
    for j in range(n):
        stateful = j % 3 == 0      # one case in three runs the stateful call sequence (SEQ_TEXT), on a shorter recording
        ns, w, kind = _rand_lengths(rng, *((ctx.n(1200, 4000), ctx.n(20, 80)) if stateful else (ctx.n(1800, 6000), ctx.n(30, 120))))
        g = GAINS[int(rng.integers(0, len(GAINS)))]
        geom = rng.random() < 0.35
        cases.append({'ns': ns, 'nwindow': w, 'gain': list(g), 'prb_type': int(rng.choice([24, 2013])),
                      'map_key': 'snsGeomMap' if geom else 'snsShankMap', 'shanks': _rand_smap_spec(rng),
                      'data': {'kind': str(rng.choice(['random', 'random', 'extremes'])), 'seed': int(rng.integers(0, 2 ** 31))},
                      'lenkind': kind, 'post_check': bool(rng.random() < 0.25),
                      'recon_window': int(rng.choice([0, 0, 1, 500, 1000, ns - 1, ns, ns + 1]))})
        if rng.random() < 0.65:      # the FORM of the call, drawn independently of the values
            cases[-1]['form'] = _rand_form(rng, w)
        if j % 4 == 1:
            cases[-1]['data'] = {'kind': 'minmax', 'seed': int(rng.integers(0, 2 ** 31))}
        if stateful:
            cases[-1].update(seq='stateful', nwindow0=int(rng.choice([w0 for w0 in (588, 600, 1200, 2400) if w0 != w])))
    # error branch: shorter than the LF taper
    for ns in ([3, 143] if ctx.quick else [3, 17, 100, 143]):
        cases.append({'ns': ns, 'nwindow': 588, 'gain': [0.5, 8192], 'prb_type': 24, 'map_key': 'snsShankMap',
                      'shanks': {'kind': 'one', 'ids': [0], 'seed': 0}, 'data': {'kind': 'random', 'seed': ns}, 'lenkind': 'tiny'})
    # nwindow not a multiple of 12: init_params asserts
    cases.append({'ns': 700, 'nwindow': 590, 'gain': [0.5, 8192], 'prb_type': 24, 'map_key': 'snsShankMap',
                  'shanks': {'kind': 'one', 'ids': [0], 'seed': 0}, 'data': {'kind': 'random', 'seed': 1}, 'lenkind': 'assert'})
    return cases


# ---------------------------------------------------------------------------------------------
# model side
# ---------------------------------------------------------------------------------------------
def _f64bits(x):
    return struct.unpack('<Q', struct.pack('<d', float(x)))[0]


def model_lines(case, data, smap, orig_meta):
    cm = canon_meta(orig_meta)
    rmax, mint = case['gain']
    return [
        f'data {case["ns"]} {NC} ' + ','.join(map(str, data.ravel().tolist())),
        'meta ' + ' '.join(f'{k}={v}' for k, v in cm.items()),
    ] + ([f'split {case["nwindow0"]} {_f64bits(rmax)} {mint} {NAP} 1 ' + ','.join(map(str, smap))] if case.get('seq') == 'stateful' else []) + [
        f'split {case["nwindow"]} {_f64bits(rmax)} {mint} {NAP} 1 ' + ','.join(map(str, smap)),
        f'recon {case.get("recon_window") or "default"}',
    ]


def _kv(tok):
    return dict(p.split('=', 1) for p in tok.split('|')) if tok != '-' else {}


def parse_model(split_ans, recon_ans):
    out = {}
    if not split_ans.startswith('ok'):
        out['split_error'] = split_ans
        return out
    parts = split_ans.split(' ;; ')
    out['gain_bits'] = int(parts[0].split('gain=')[1])
    shanks = {}
    for p in parts[1:]:
        f = dict(x.split('=', 1) for x in p.split(' '))
        shanks[chr(97 + int(f['sh']))] = {
            'sub': f['sub'], 'rows': int(f['rows']), 'width': int(f['width']), 'meta': _kv(f['md']),
            'bytes': np.array(f['data'].split(','), dtype=np.int64).astype(np.int16) if f['data'] != '-' else np.zeros(0, np.int16)}
    out['shanks'] = shanks
    if recon_ans.startswith('ok'):
        f = dict(x.split('=', 1) for x in recon_ans.split(' ')[1:])
        out['recon'] = {'rows': int(f['rows']), 'width': int(f['width']), 'meta': _kv(f['md']),
                        'bytes': np.array(f['data'].split(','), dtype=np.int64).astype(np.int16) if f['data'] != '-' else np.zeros(0, np.int16)}
    else:
        out['recon_error'] = recon_ans
    return out


ERRMAP = {'AssertionError': 'err AssertionError', 'ValueError': 'err ValueError', 'IndexError': 'err IndexError',
          'KeyError': 'err KeyError'}


def _digest(a):
    return f'n={a.size} sum={int(a.astype(np.int64).sum())} first_diff=-'


def _cmp_meta(impl, model):
    """canonical (impl, model): 'same' twice, or only the entries that differ."""
    if impl == model:
        return 'same', 'same'
    keys = sorted(k for k in set(impl) | set(model) if impl.get(k) != model.get(k))[:6]
    return ([(k, impl.get(k, '<absent>')[:80]) for k in keys], [(k, model.get(k, '<absent>')[:80]) for k in keys])


def _cmp_arrays(impl, model):
    """canonical (impl, model) strings: equal iff the arrays are identical; otherwise they name the first difference."""
    if impl is None:
        return 'missing', f'n={model.size}'
    if impl.size == model.size and np.array_equal(impl, model):
        return 'same', 'same'
    if impl.size != model.size:
        return f'n={impl.size}', f'n={model.size}'
    i = int(np.argmax(impl != model))
    return f'[{i}]={int(impl[i])}', f'[{i}]={int(model[i])}'


def compare_case(ctx, case, real, model, model_first=None, data=None):
    desc = _clean(case)
    nsh = len(set(make_smap(case['shanks'])))
    nwin = max(-(-(case['ns'] - case['nwindow']) // (case['nwindow'] - 576)), 0) + 1 if case['nwindow'] > 576 else 0
    tags = ('reconW=default' if not case.get('recon_window') else 'reconW<ns' if case['recon_window'] < case['ns'] else 'reconW>=ns',
            f'gain={case["gain"][0]}/{case["gain"][1]}', f'shanks={nsh}', f'map={case["shanks"]["kind"]}', case['map_key'],
            f'len={case["lenkind"]}', 'nwin=1' if nwin == 1 else 'nwin=2' if nwin == 2 else 'nwin=3..9' if nwin < 10 else 'nwin>=10',
            f'data={case["data"]["kind"]}') + (tuple(f'form:{k}={v}' for k, v in sorted(case['form'].items())) if case.get('form') else ('form:default',))
    # outcome of the conversion
    i_out = ERRMAP.get(real.get('split_error'), 'err ' + str(real.get('split_error'))) if 'split_error' in real else f'ok status={real.get("status")}'
    m_out = model['split_error'] if 'split_error' in model else 'ok status=1'
    ok = ctx.compare('split-outcome', dict(desc, op='split-outcome'), i_out, m_out, nontrivial=('split_error' not in real), tags=tags)
    if 'split_error' in real or 'split_error' in model:
        return
    ctx.compare('gain-bits', dict(desc, op='gain'), real['gain_bits'], model['gain_bits'], nontrivial=False)
    if case['gain'] == [0.62, 2048]:    # the literal used by the kernel-evaluated witnesses
        ctx.compare('gain-literal', dict(desc, op='gain-literal'), f'ok {real["gain_bits"]} {real["gain_bits"]}', ctx.gainlit, nontrivial=False)
    ctx.compare('sync-gain', dict(desc, op='sync-gain'), real['sync_gain_bits'], 0x3f800000, nontrivial=False)
    ctx.compare('shank-folders', dict(desc, op='folders'), sorted(real['shanks']), sorted(model['shanks']), nontrivial=False)
    for s in sorted(set(real['shanks']) & set(model['shanks'])):
        r, m = real['shanks'][s], model['shanks'][s]
        a, b = _cmp_arrays(r['bytes'], m['bytes'])
        ctx.compare('shank-bytes', dict(desc, op='shank-bytes', shank=s), a, b, nontrivial=True, tags=('shank-file',))
        rm = canon_meta(r['meta']) if r['meta'] is not None else {}
        a, b = _cmp_meta(rm, m['meta'])
        ctx.compare('shank-meta', dict(desc, op='shank-meta', shank=s), a, b, nontrivial=False)
    # state carried between calls: inputs untouched, first pass of the same converter object, repeated private call
    ctx.case(dict(desc, op='call-sequence'), nontrivial=False,      # informational, never a disagreement
             tags=('seq=' + case.get('seq', 'plain'), 'inputs:modified' if real['purity'] else 'inputs:untouched'))
    if real['purity'] and len(ctx.notes) < 40:
        ctx.note(f'informational: {real["purity"][0]} (ns={case["ns"]}, nwindow={case["nwindow"]}); only results are compared')
    if case.get('seq') == 'stateful' and model_first is not None:
        if 'split_error' in model_first:
            ctx.compare('first-pass', dict(desc, op='first-pass'), f'ok status={real.get("status_first")}', model_first['split_error'], nontrivial=False)
        else:
            ctx.compare('first-pass-folders', dict(desc, op='first-pass-folders'), sorted(real.get('shanks_first', {})), sorted(model_first['shanks']), nontrivial=False)
            for s in sorted(set(real.get('shanks_first', {})) & set(model_first['shanks'])):
                a, b = _cmp_arrays(real['shanks_first'][s]['bytes'], model_first['shanks'][s]['bytes'])
                ctx.compare('first-pass-bytes', dict(desc, op='first-pass-bytes', shank=s), a, b, nontrivial=True, tags=('first-pass-file',))
                rm = canon_meta(real['shanks_first'][s]['meta']) if real['shanks_first'][s]['meta'] is not None else {}
                a, b = _cmp_meta(rm, model_first['shanks'][s]['meta'])
                ctx.compare('first-pass-meta', dict(desc, op='first-pass-meta', shank=s), a, b, nontrivial=False)
        for rep, out in enumerate(real.get('ind2save', []), 1):
            a, b = _cmp_arrays(out.ravel(), data[:out.shape[0]].ravel())
            ctx.compare('ind2save-repeat', dict(desc, op='ind2save-repeat', call=rep), a, b, nontrivial=False)
    # reconstruction (twice on the same object in the stateful sequence)
    for key in (('', '2') if case.get('seq') == 'stateful' else ('',)):
        i_out = ('err ' + real['recon_error']) if 'recon_error' in real else f'ok status={real.get("recon_status" + key)}'
        m_out = model['recon_error'] if 'recon_error' in model else 'ok status=1'
        ctx.compare('recon-outcome', dict(desc, op='recon-outcome' + key), i_out, m_out, nontrivial=False)
        if 'recon' in model and real.get('recon_bytes' + key) is not None:
            a, b = _cmp_arrays(real['recon_bytes' + key], model['recon']['bytes'])
            ctx.compare('recon-bytes', dict(desc, op='recon-bytes' + key), a, b, nontrivial=True, tags=('recon-file',))
            rm = canon_meta(real['recon_meta' + key]) if real.get('recon_meta' + key) is not None else {}
            a, b = _cmp_meta(rm, model['recon']['meta'])
            ctx.compare('recon-meta', dict(desc, op='recon-meta' + key), a, b, nontrivial=False)


def _small_ops(ctx):
    """cheap primitives: np.rint, _get_savedChans_subset / _get_chans, on thousands of inputs."""
    import neuropixel
    import spikeglx
    rng = ctx.rng
    # np.rint on float32 bit patterns
    n = ctx.n(4000, 40000)
    import warnings
    with np.errstate(all='ignore'), warnings.catch_warnings():
        warnings.simplefilter('ignore')
        anyf = rng.integers(0, 2 ** 32, n // 4, dtype=np.uint64).astype(np.uint32).view(np.float32).astype(np.float64)
    vals = np.r_[rng.integers(-70000, 70000, n // 2) / 2.0, rng.normal(0, 40000, n // 4), anyf,
                 [0.5, 1.5, 2.5, -0.5, -1.5, -2.5, 8388607.5, 8388608.0, 1e10, -1e10, np.inf, -np.inf, 32767.5, -32768.5]]
    import warnings
    with np.errstate(all='ignore'), warnings.catch_warnings():
        warnings.simplefilter('ignore')
        x = vals.astype(np.float32)
    x = x[~np.isnan(x)]
    ans = ctx.lean(['rint ' + ','.join(str(int(b)) for b in x.view(np.uint32))])[0]
    got = np.array(ans.split()[1].split(','), dtype=np.uint64).astype(np.uint32)
    want = np.rint(x).view(np.uint32)
    # -0.0 and +0.0 are the same number for astype(int16): compare values, bit patterns only away from zero
    same = (got == want) | ((got & 0x7fffffff) == 0) & ((want & 0x7fffffff) == 0)
    ctx.compare('rint', {'op': 'rint', 'n': int(x.size)}, 'all equal', 'all equal' if bool(same.all()) else
                f'differs at {x[~same][:3].tolist()}', nontrivial=True, tags=('rint',))
    # subset print / parse
    lines, impl, descs = [], [], []
    rec = neuropixel.NP2Reconstructor.__new__(neuropixel.NP2Reconstructor)
    for _ in range(ctx.n(600, 6000)):
        k = int(rng.choice([1, 2, 3, 5, 20, 96, 200]))
        p = float(rng.choice([0.05, 0.3, 0.7, 0.97]))
        ch = [c for c in range(NAP) if rng.random() < p][:k] if rng.random() < 0.5 else \
            sorted(int(c) for c in rng.choice(NAP, size=min(k, NAP), replace=False))
        if rng.random() < 0.4:
            ch = sorted(set(ch) | {383})
        if not ch:
            ch = [int(rng.integers(0, NAP))]
        ch = ch + [384]
        try:
            arr = np.array(ch)
            s = spikeglx._get_savedChans_subset(arr)
            md = {'snsSaveChanSubset_orig': s}
            back = np.atleast_1d(rec._get_chans(md)).tolist()
            # the same argument objects again: the results must still be those of the original values
            s2 = spikeglx._get_savedChans_subset(arr)
            back2 = np.atleast_1d(rec._get_chans(md)).tolist()
            impl.append(f'ok {s} ' + ','.join(map(str, back)) if (s2, back2) == (s, back) else
                        f'second call on the same objects: ok {s2} ' + ','.join(map(str, back2)))
        except Exception as e:   # noqa
            impl.append('err ' + type(e).__name__)
        lines.append('subset ' + ','.join(map(str, ch)))
        descs.append(ch)
    for ch, a, b in zip(descs, impl, ctx.lean(lines)):
        ctx.compare('subset', {'op': 'subset', 'chns': ch if len(ch) < 12 else [len(ch), ch[0], ch[-2]]}, a, b,
                    nontrivial=True, tags=('subset', 'groups>=3' if a.count(',') >= 5 else 'groups<3'))


def _subset_text(ctx):
    """the TEXT of the saved-channel subset (`_get_savedChans_subset`) on the shapes where its branches meet: one channel, two
    channels, all isolated, runs ending at 383 with / without the sync index, the whole probe; compared: the string, whether it
    contains ':', what `_get_chans` reads back from it, and (two or more channels = every list the converter writes) what
    `_get_chans` reads after the string went through write_meta_data / read_meta_data."""
    import neuropixel
    import spikeglx
    rng = ctx.rng
    rec = neuropixel.NP2Reconstructor.__new__(neuropixel.NP2Reconstructor)
    lists = [[c] for c in (0, 1, 5, 383, 384)] + [[0, 1], [0, 2], [5, 384], [383, 384], [382, 383], [0, 384], list(range(385)),
             list(range(0, 384, 2)) + [384], list(range(1, 384, 2)) + [384], list(range(0, 384, 2)), [1, 3, 5, 384], [382, 383, 384],
             list(range(96, 192)) + [384], list(range(288, 384)) + [384], list(range(288, 384))]
    for _ in range(ctx.n(150, 1500)):
        kind = str(rng.choice(['single', 'pair', 'isolated', 'tail383', 'nosync', 'random']))
        if kind == 'single':
            ch = [int(rng.integers(0, 385))]
        elif kind == 'pair':
            a = int(rng.integers(0, 384))
            ch = [a, int(rng.choice([a + 1, 384, int(rng.integers(a + 1, 385))]))]
        elif kind == 'isolated':
            ch = sorted(int(c) for c in rng.choice(np.arange(0, 384, 2), size=int(rng.integers(2, 40)), replace=False)) + [384]
        elif kind == 'tail383':
            a = int(rng.integers(300, 384))
            ch = sorted(set(int(c) for c in rng.choice(a, size=int(rng.integers(0, 6)), replace=False))) + list(range(a, 384)) + [384]
        elif kind == 'nosync':
            ch = sorted(int(c) for c in rng.choice(384, size=int(rng.integers(2, 30)), replace=False))
        else:
            ch = sorted(int(c) for c in rng.choice(384, size=int(rng.integers(1, 384)), replace=False)) + [384]
        lists.append(sorted(set(ch)))
    tmp = tempfile.mkdtemp(prefix='c03_')
    impl, via = [], []
    try:
        for ch in lists:
            try:
                s = spikeglx._get_savedChans_subset(np.array(ch))
                back = np.atleast_1d(rec._get_chans({'snsSaveChanSubset_orig': s})).tolist()
                impl.append(f'ok {s} colon={int(":" in s)} ' + ','.join(map(str, back)))
            except Exception as e:   # noqa
                impl.append('err ' + type(e).__name__)
                via.append(None)
                continue
            try:        # through the .meta text, as the reconstructor meets it
                f = Path(tmp) / 'x.meta'
                spikeglx.write_meta_data({'snsSaveChanSubset_orig': s}, f)
                via.append('ok ' + ','.join(map(str, np.atleast_1d(rec._get_chans(spikeglx.read_meta_data(f))).tolist())))
            except Exception as e:   # noqa
                via.append('err ' + type(e).__name__)
    finally:
        shutil.rmtree(tmp, ignore_errors=True)
    single_via = set()
    for ch, a, v, b in zip(lists, impl, via, ctx.lean(['subsetx ' + ','.join(map(str, ch)) for ch in lists])):
        d = {'op': 'subset-text', 'chns': ch if len(ch) < 12 else [len(ch), ch[0], ch[-2], ch[-1]]}
        ctx.compare('subset-text', d, a, b, nontrivial=True, tags=('subset-text', 'subset-text:n=1' if len(ch) == 1 else 'subset-text:n>=2'))
        if len(ch) >= 2 and v is not None:       # theorem subset_string_has_colon: the parser keeps it a string
            ctx.compare('subset-via-meta', dict(d, op='subset-via-meta'), v, 'ok ' + b.split(' ')[-1] if b.startswith('ok') else b,
                        nontrivial=True, tags=('subset-via-meta',))
        elif v is not None:
            single_via.add(v.split(' ')[0] + (' ' + v.split(' ')[1] if v.startswith('err') else ''))
    ctx.note('single-channel subset (bare number, outside the 384+1 layout: theorem subset_single_bare_counterexample) through the '
             f'.meta text: {sorted(single_via)} — informational, not a demand')


def _runs(a):
    if len(a) == 0:
        return '-'
    brk = np.r_[0, np.where(np.diff(a) != 1)[0] + 1, len(a)]
    return ','.join(f'{int(a[i])}-{int(a[j - 1])}' for i, j in zip(brk[:-1], brk[1:]))


def _kept_sweep(ctx):
    """`_ind2save` + WindowGenerator of the real converter on row-index signals, for many (ns, nwindow):
    which samples are written, in which order (cheap: one column)."""
    import neuropixel
    from ibldsp.utils import WindowGenerator
    rng = ctx.rng
    pairs = set()
    ws = [588, 600, 612, 624, 1152, 1164, 1200, 2400, 30000] + [12 * int(k) for k in rng.integers(49, 400, ctx.n(6, 40))]
    for w in ws:
        stride = w - 576
        for k in range(0, ctx.n(4, 8)):
            for d in (-1, 0, 1, stride // 2, stride - 1):
                pairs.add((max(1, w + k * stride + d), w))
        for ns in (1, 143, 144, 287, 288, 289, 575, 576, 577, w - 1):
            pairs.add((ns, w))
        for _ in range(ctx.n(4, 30)):
            pairs.add((int(rng.integers(1, min(30000, w + 60 * stride))), w))
    pairs = sorted(p for p in pairs if p[0] <= 30000 and (p[0] - p[1]) // (p[1] - 576) <= 400)
    tmp = tempfile.mkdtemp(prefix='c03_')
    impl = []
    try:
        case = {'ns': 144, 'nwindow': 588, 'gain': [0.62, 2048]}
        f = write_recording(tmp, case, make_data({'kind': 'const', 'value': 0}, 144), [0] * NAP)
        conv = neuropixel.NP2Converter(f, post_check=False, compress=False)
        s2v = conv.sr.channel_conversion_sample2v['ap']
        for ns, w in pairs:
            conv.init_params(nwindow=w)
            conv.napch, conv.idxsyncch = 1, NAP           # one AP column, the sync column
            wg = WindowGenerator(ns, w, conv.samples_overlap)
            out = []
            try:
                for first, last in wg.firstlast:
                    idx = np.arange(first, last).astype(np.float32)[None, :]
                    volts, sy = idx * s2v[0], idx.copy()
                    c2s = conv._ind2save(volts, sy, wg, ratio=1, etype='ap')
                    assert np.array_equal(c2s[:, 0], c2s[:, 1])
                    again = conv._ind2save(volts, sy, wg, ratio=1, etype='ap')     # same argument objects
                    out.append(c2s[:, 0].astype(int) if np.array_equal(again, c2s) else -again[:, 0].astype(int) - 1)
                kept = np.concatenate(out) if out else np.zeros(0, int)
                impl.append(f'ok n={kept.size} {_runs(kept)}')
            except Exception as e:   # noqa
                impl.append('err ' + type(e).__name__)
        conv.sr.close()
    finally:
        shutil.rmtree(tmp, ignore_errors=True)
    model = ctx.lean([f'kept {ns} {w}' for ns, w in pairs])
    for (ns, w), a, b in zip(pairs, impl, model):
        nwin = max(-(-(ns - w) // (w - 576)), 0) + 1
        ctx.compare('kept', {'op': 'kept', 'ns': ns, 'nwindow': w}, a, b, nontrivial=nwin >= 2,
                    tags=('kept', 'kept:nwin=1' if nwin == 1 else 'kept:nwin=2' if nwin == 2 else 'kept:nwin>=3',
                          'kept:aligned' if (ns - w) % (w - 576) == 0 and ns >= w else 'kept:unaligned'))


def correspondence(ctx):
    cm = ctx.lean(['consts'])[0]
    ctx.compare('consts', {'op': 'consts'}, f'ok overlap={ctx.consts.get("CONV_OVERLAP")} taper={ctx.consts.get("CONV_OVERLAP", 0) // max(ctx.consts.get("CONV_TAPER_DIV", 1), 1)} '
                f'ratio={ctx.consts.get("CONV_FS_AP", 0) // max(ctx.consts.get("CONV_FS_LF", 1), 1)} wrecon={ctx.consts.get("CONV_WINDOW_SECS", 0) * ctx.consts.get("CONV_FS_AP", 0)}',
                cm, nontrivial=False)
    import time
    t0 = time.time()
    ctx.gainlit = ctx.lean(['gainlit'])[0]
    _small_ops(ctx)
    _subset_text(ctx)
    t1 = time.time()
    _kept_sweep(ctx)
    t2 = time.time()
    cases = _cases(ctx)
    seen = {}
    for c in cases:
        if c['data']['kind'] == 'ramp':
            seen[tuple(c['gain'])] = len(np.unique(make_data(c['data'], c['ns'])[:, :NAP]))
    assert all(tuple(g) in seen and seen[tuple(g)] == 65536 for g in GAINS), seen
    nthreads = min(8, os.cpu_count() or 2)
    with concurrent.futures.ThreadPoolExecutor(max_workers=nthreads) as pool:
        futs = []
        for case in cases:
            smap = make_smap(case['shanks'])
            data = make_data(case['data'], case['ns'])
            real = run_real(case, data, smap)
            lines = model_lines(case, data, smap, real['orig_meta'])
            futs.append((case, real, data, pool.submit(ctx.lean, lines)))
        for case, real, data, fut in futs:
            ans = fut.result()
            first = parse_model(ans[2], 'none') if case.get('seq') == 'stateful' else None
            compare_case(ctx, case, real, parse_model(ans[-2], ans[-1]), first, data)
    # the folder set-up and the window loop of the same runs, step by step (Split.prepAll / Split.apSteps)
    obs = [(case, real) for case, real, _, _ in futs if 'split_error' not in real]
    lines = []
    for case, real in obs:
        lines += [f'chans {NC} 1 ' + ','.join(map(str, make_smap(case['shanks']))), f'steps {case["ns"]} {case["nwindow"]} {NAP} {NAP}']
    ans = ctx.lean(lines) if lines else []
    for k, (case, real) in enumerate(obs):
        desc = _clean(case)
        if real.get('prep') is not None:
            ctx.compare('prepare-files', dict(desc, op='prepare-files'), real['prep'], ans[2 * k], nontrivial=True, tags=('prepare-files',))
        tr = real.get('loop_trace')
        if tr and not any(t[0] == 'unobserved' for t in tr):
            ctx.compare('loop-steps', dict(desc, op='loop-steps'), _canon_trace(tr), _canon_steps(ans[2 * k + 1]), nontrivial=len(tr) >= 4,
                        tags=('loop-steps',))
        else:
            ctx.case(dict(desc, op='loop-steps'), nontrivial=False, tags=('loop-steps:unobserved',))
    ctx.note(f'timing: primitives {t1 - t0:.1f}s, kept sweep {t2 - t1:.1f}s, recordings {time.time() - t2:.1f}s')
    ctx.note(f'{len(cases)} recordings split and reconstructed by the real code and by the model; every gain pair saw all 65 536 int16 values')


# ---------------------------------------------------------------------------------------------
# oracle: the property text, directly on the real code (no model involved)
# ---------------------------------------------------------------------------------------------
def _check_shanks(shanks, smap, data, label=''):
    want_letters = [chr(97 + int(s)) for s in sorted(set(smap.tolist()))]
    if sorted(shanks) != want_letters:
        return f'{label}shank folders {sorted(shanks)} instead of {want_letters}'
    for s in sorted(set(smap.tolist())):
        cols = np.r_[np.where(smap == s)[0], NAP]
        got = shanks[chr(97 + int(s))]['bytes']
        want = data[:, cols]
        if got is None:
            return f'{label}shank {s}: no .ap.bin written'
        if got.size != want.size:
            return f'{label}shank {s}: file holds {got.size} samples ({got.size / len(cols):.2f} frames of {len(cols)}) instead of {want.shape[0]} frames'
        got = got.reshape(want.shape)
        if not np.array_equal(got, want):
            t, j = (int(v[0]) for v in np.where(got != want))
            return (f'{label}shank {s} file, frame {t}, column {j} (original channel {int(cols[j])}): wrote {int(got[t, j])}, '
                    f'original sample is {int(want[t, j])}')
    return None


def oracle(case):
    """None when C03 holds on this case (along its call sequence); otherwise a description of the first violation."""
    if case['ns'] < 144 or case['nwindow'] % 12 or case['nwindow'] <= 576:
        return None     # outside the property's domain
    stateful = case.get('seq') == 'stateful'
    if stateful and (case['nwindow0'] % 12 or case['nwindow0'] <= 576):
        return None
    smap = np.array(make_smap(case['shanks']))
    data = make_data(case['data'], case['ns'])
    real = run_real(case, data, smap.tolist())
    if 'split_error' in real:
        return f'splitting raised {real["split_error"]}: {real.get("split_error_msg", "")}' + (' (stateful call sequence)' if stateful else '')
    if stateful:
        for rep, out in enumerate(real.get('ind2save', []), 1):
            want = data[:out.shape[0]]
            if out.shape != want.shape or not np.array_equal(out, want):
                return (f'_ind2save call {rep} of 2 on the same first-window arrays (nwindow={case["nwindow0"]}) did not return the original '
                        f'samples of the kept rows' + (' although call 1 did' if rep == 2 else ''))
        r = _check_shanks(real.get('shanks_first', {}), smap, data, f'first process() (nwindow={case["nwindow0"]}): ')
        if r:
            return r
    r = _check_shanks(real['shanks'], smap, data,
                      f'second process(overwrite=True) on the same converter after init_params(nwindow={case["nwindow"]}): ' if stateful else '')
    if r:
        return r
    if 'recon_error' in real:
        return f'reconstruction raised {real["recon_error"]}: {real.get("recon_error_msg", "")}'
    for key, label in ((('', 'first reconstruction: '), ('2', 'second process() of the same NP2Reconstructor: ')) if stateful else (('', ''),)):
        if real.get('recon_status' + key) != 1:
            return f'{label}reconstruction returned status {real.get("recon_status" + key)}'
        rb = real.get('recon_bytes' + key)
        if rb is None or rb.size != data.size:
            return f'{label}reconstructed file holds {None if rb is None else rb.size} samples instead of {data.size}'
        if not np.array_equal(rb.reshape(data.shape), data):
            t, c = (int(v[0]) for v in np.where(rb.reshape(data.shape) != data))
            return f'{label}reconstructed sample {t}, channel {c} is {int(rb.reshape(data.shape)[t, c])}, original {int(data[t, c])}'
        rm = dict(real['recon_meta' + key] or {})
        flag = rm.pop('original_meta', None)
        om = dict(real['orig_meta'])
        if rm != om:
            diff = sorted(k for k in set(rm) | set(om) if rm.get(k, '<absent>') != om.get(k, '<absent>'))
            k = diff[0]
            return f'{label}reconstructed metadata differ in {diff[:4]}: {k}={str(rm.get(k, "<absent>"))[:60]} vs original {str(om.get(k, "<absent>"))[:60]}'
        if flag is None:
            return f'{label}reconstructed metadata lack the provenance flag original_meta'
    return None


def _size(case):
    nsh = len(set(make_smap(case['shanks'])))
    return (case['ns'], nsh, case['shanks']['kind'] != 'one', case['data']['kind'] != 'const', case['nwindow'])


def oracle_fresh(case):
    """the oracle in a NEW interpreter: what a stand-alone replay of `case` will see (no state left by earlier calls of
    this process in the library's module-level caches)."""
    import json
    import subprocess
    import sys
    code = ('import sys, json; sys.path.insert(0, %r); import framework; framework.setup_paths(); import props.c03 as m; '
            'print("RESULT " + json.dumps(m.oracle(json.loads(sys.argv[1]))))' % str(Path(__file__).resolve().parents[1]))
    p = subprocess.run([sys.executable, '-c', code, json.dumps(case)], capture_output=True, text=True, timeout=600)
    for line in p.stdout.splitlines():
        if line.startswith('RESULT '):
            return json.loads(line[7:])
    return f'oracle process failed: {p.stderr[-300:]}'


def _shrink(case, budget=26):
    """greedy simplification of a failing case; every attempt is judged in a fresh interpreter, so that the result is a
    self-contained call sequence."""
    best = dict(case)
    why = oracle_fresh(best)
    calls = 0

    def attempt(c):
        nonlocal best, why, calls
        if calls >= budget or c == best:
            return False
        calls += 1
        try:
            r = oracle_fresh(c)
        except Exception as e:   # noqa
            r = f'oracle raised {type(e).__name__}: {e}'
        if r:
            best, why = c, r
            return True
        return False
    m = re.search(r'original sample is (-?\d+)|original (-?\d+)$', why or '')
    val = int(next(g for g in m.groups() if g is not None)) if m else None
    attempt({k: v for k, v in best.items() if k != 'form'})                        # does it fail in the default form?
    for fk in ('container', 'nwindow', 'spelling', 'path'):
        if best.get('form') and fk in best['form']:
            attempt(dict(best, form={k: v for k, v in best['form'].items() if k != fk}))
    attempt({k: v for k, v in best.items() if k not in ('seq', 'nwindow0')})      # does it fail without the call sequence?
    attempt({k: v for k, v in best.items() if k not in ('recon_window', 'post_check')})
    attempt({k: v for k, v in best.items() if k != 'post_check'})
    attempt(dict(best, shanks={'kind': 'one', 'ids': [0], 'seed': 0}))
    attempt(dict(best, map_key='snsShankMap', prb_type=24))
    for ns, w in ((144, 588), (150, 588), (588, 588), (589, 588), (600, 588), (601, 588), (612, 588), (1200, 600)):
        if ns < best['ns'] and attempt(dict(best, ns=ns, nwindow=w)):
            break
    if val is not None:
        attempt(dict(best, data={'kind': 'const', 'value': val, 'sync': 0}))
    for v in (1, 3):
        if best['data']['kind'] != 'const':
            attempt(dict(best, data={'kind': 'const', 'value': v, 'sync': v}))
    if best['data']['kind'] != 'const':
        attempt(dict(best, data={'kind': 'ramp', 'offset': 0, 'step': 1}))
    elif abs(best['data']['value']) > 16:      # a smaller sample value with the same fate
        for v in range(1, 17):
            if attempt(dict(best, data={'kind': 'const', 'value': v, 'sync': 0})):
                break
    attempt(dict(best, gain=[0.5, 8192]))
    return best, why


def _clean(case):
    return {k: case[k] for k in ('ns', 'nwindow', 'gain', 'prb_type', 'map_key', 'shanks', 'data', 'recon_window', 'post_check', 'save_subset', 'seq', 'nwindow0', 'form') if case.get(k) not in (None, 0, False)}


def search(ctx, reasons):
    cands, seen = [], set()

    def add(c):
        c = _clean(c)
        key = repr(sorted(c.items(), key=lambda kv: kv[0]))
        if key not in seen:
            seen.add(key)
            cands.append(c)
    for m in ctx.mismatches[:60]:
        c = m['case']
        if 'ns' in c and 'shanks' in c:
            add(c)
        elif c.get('op') == 'kept' and 144 <= c['ns'] <= 8000:
            add({'ns': c['ns'], 'nwindow': c['nwindow'], 'gain': [0.5, 8192], 'prb_type': 24, 'map_key': 'snsShankMap',
                 'shanks': {'kind': 'one', 'ids': [0], 'seed': 0}, 'data': {'kind': 'ramp', 'offset': 0, 'step': 1}})
    base = {'prb_type': 24, 'map_key': 'snsShankMap'}
    for i, g in enumerate(GAINS):      # every value x every gain, 1 and 4 shanks, 1 / 2 / many windows
        add(dict(base, ns=171, nwindow=588, gain=list(g), shanks={'kind': 'one', 'ids': [0], 'seed': 0}, data={'kind': 'ramp', 'offset': 0, 'step': 1}))
    for ns, w in ((600, 588), (612, 588), (1177, 600), (700, 588)):
        for sh in ({'kind': 'blocks', 'ids': [0, 1, 2, 3], 'seed': 1}, {'kind': 'random', 'ids': [1, 3], 'seed': 2},
                   {'kind': 'single', 'ids': [2, 0, 1], 'chan': 383, 'seed': 3}):
            add(dict(base, ns=ns, nwindow=w, gain=[0.62, 2048], shanks=sh, data={'kind': 'random', 'seed': ns}))
    add(dict(base, ns=700, nwindow=588, gain=[0.6, 512], shanks={'kind': 'stripes', 'ids': [0, 1, 2, 3], 'seed': 0, 'period': 48},
             data={'kind': 'extremes', 'seed': 4}, map_key='snsGeomMap', prb_type=2013))
    for ns, w, w0 in ((700, 588, 600), (1300, 600, 588)):      # state carried between calls
        add(dict(base, ns=ns, nwindow=w, nwindow0=w0, seq='stateful', gain=[0.62, 2048], data={'kind': 'random', 'seed': 7},
                 shanks={'kind': 'blocks', 'ids': [1, 3], 'seed': 1}))
        add(dict(base, ns=ns, nwindow=w, nwindow0=w0, seq='stateful', gain=[0.5, 8192], data={'kind': 'random', 'seed': 8},
                 shanks={'kind': 'random', 'ids': [0, 1, 2, 3], 'seed': 2}, map_key='snsGeomMap', prb_type=2013))
    for c in _cases(ctx)[:40]:
        add(c)
    found, stale = None, []
    for c in cands:
        try:
            r = oracle(c)
        except Exception as e:   # noqa
            r = f'oracle raised {type(e).__name__}: {e}'
        if not r:
            continue
        # must also fail as a stand-alone call sequence (fresh interpreter); otherwise try it as the stateful sequence
        variants = [c] if c.get('seq') == 'stateful' else [c, dict(c, seq='stateful', nwindow0=600 if c['nwindow'] != 600 else 588)]
        for v in variants:
            if oracle_fresh(v):
                found = v
                break
        if found or len(stale) >= 3:
            break
        stale.append((c, r))
    if not found:
        if not stale:
            return None
        c, r = stale[0]      # fails only after the earlier conversions of this process: report it as such
        return {'input': c, 'observed': r + ' (only after earlier conversions in the same interpreter; stand-alone it passes)',
                'expected': 'C03 on every call, whatever was converted before', 'how': 'harness/props/c03.py search(): candidates run in order'}
    best, why = _shrink(found)
    return {'input': best, 'observed': why,
            'expected': 'C03: every shank .ap.bin = the original int16 samples of that shank\'s channels then sync, all frames once, in order; '
                        'NP2Reconstructor output = the original .bin byte for byte and its metadata = the original fields + original_meta',
            'how': 'harness/props/c03.py oracle(input): builds the 385-channel recording described by input (make_smap, make_data, '
                   'NP24_meta fixture), runs NP2Converter(post_check=False, compress=False).init_params(nwindow).process() and NP2Reconstructor'
                   + ('; ' + SEQ_TEXT if best.get('seq') == 'stateful' else '') + ('; ' + FORM_TEXT if best.get('form') else '')}


def replay(ctx, rep):
    r = oracle(rep['input'])
    print('oracle:', r)
    return r is not None


def known_findings(ctx):
    def short_recording():
        case = {'ns': 100, 'nwindow': 588, 'gain': [0.5, 8192], 'prb_type': 24, 'map_key': 'snsShankMap',
                'shanks': {'kind': 'one', 'ids': [0], 'seed': 0}, 'data': {'kind': 'const', 'value': 1, 'sync': 0}}
        real = run_real(case, make_data(case['data'], 100), make_smap(case['shanks']), reconstruct=False)
        return real.get('split_error') == 'ValueError'
    def save_subset_all():
        case = {'ns': 200, 'nwindow': 588, 'gain': [0.5, 8192], 'prb_type': 24, 'map_key': 'snsShankMap', 'save_subset': 'all',
                'shanks': {'kind': 'one', 'ids': [0], 'seed': 0}, 'data': {'kind': 'const', 'value': 1, 'sync': 0}}
        r = oracle(case)
        return bool(r) and 'snsSaveChanSubset' in r
    def single_channel_subset_bare():
        # a one-member channel list (only possible without a sync column: outside the 384 + 1 layout) is rendered without ':' and
        # is re-read from the .meta text as a number, which _get_chans cannot split (theorem subset_single_bare_counterexample)
        import neuropixel
        import spikeglx
        tmp = tempfile.mkdtemp(prefix='c03_')
        try:
            s = spikeglx._get_savedChans_subset(np.array([5]))
            spikeglx.write_meta_data({'snsSaveChanSubset_orig': s}, Path(tmp) / 'x.meta')
            rec = neuropixel.NP2Reconstructor.__new__(neuropixel.NP2Reconstructor)
            try:
                return np.atleast_1d(rec._get_chans(spikeglx.read_meta_data(Path(tmp) / 'x.meta'))).tolist() != [5]
            except Exception:   # noqa
                return True
        finally:
            shutil.rmtree(tmp, ignore_errors=True)
    return {'recording-shorter-than-lf-taper': short_recording, 'save-subset-all': save_subset_all,
            'single-channel-subset-bare': single_channel_subset_bare}
