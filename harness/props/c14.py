"""C14 — Spike features obey their ordering, extremum and equivariance laws (ibldsp.waveforms.compute_spike_features)."""
import math
import warnings
from fractions import Fraction

import numpy as np

ID = 'C14'
DRIVER = 'C14'
LEAN_TARGETS = ['IblVerif.Properties.C14']
THEOREMS = [
    'IblVerif.C14.nan_is_zero',
    'IblVerif.C14.succeeds',
    'IblVerif.C14.fails_on_first_sample_peak',
    'IblVerif.C14.fails_on_offset_beyond_window',
    'IblVerif.C14.peak_is_abs_extremum',
    'IblVerif.C14.peak_is_swapped_trough',
    'IblVerif.C14.tip_lt_peak_le_trough',
    'IblVerif.C14.trough_is_extremum_after_peak',
    'IblVerif.C14.tip_is_extremum_before_peak',
    'IblVerif.C14.half_peak_nearest',
    'IblVerif.C14.half_peak_absent',
    'IblVerif.C14.recovery_fallback',
    'IblVerif.C14.recovery_prefix_counterexample',
    'IblVerif.C14.swapped_positive_peak_witness',
    'IblVerif.C14.scale_equivariant',
    'IblVerif.C14.scale_derived_columns',
    'IblVerif.C14.channel_perm',
    'IblVerif.C14.channel_perm_tie_counterexample',
    'IblVerif.C14.batch_independent',
    'IblVerif.C14.recovery_offset_nearest',
    'IblVerif.C14.call_is_batch_then_derived_columns',
    'IblVerif.C14.call_scale_equivariant',
    'IblVerif.C14.call_batch_independent',
    'IblVerif.C14.call_channel_perm',
    'IblVerif.C14.durations_sign',
    'IblVerif.C14.slopes_finite_iff',
]
RULE = ('(a) seeded structured batches arr[N, T, C] of integer- or dyadic-valued waveforms held as float32 / float64 / int16 / int32 / int64 '
        '(dtype, memory layout C / F / transposed view / strided view, positional vs keyword spelling, return_peak_channel, and the scalar '
        'types of fs and recovery_duration_ms are drawn independently of the values; int16 up to full scale +-32767; odd peaks with flank '
        'samples at floor and ceil of |peak|/2), T in 10..200 (boundary-biased: '
        '10, 11, 200, short windows), C in 1..40 (biased to 1, 2, 40), N in 1..10: synthetic biphasic spikes of either polarity with a tip lobe, '
        'spatial decay over channels and integer noise; peak planted at every position incl. samples 1, 2, T-3..T-1 and T-k-1..T-k+1; '
        'planted boundaries: trough exactly at 2/3 of the peak (+-1), equal maxima in time and across channels, no half-peak sample '
        'before / after the peak, a sample exactly at half the peak, positive peak that stays high afterwards (former finding F21 class), NaN-padded and '
        'partially-NaN channels, small-integer noise waveforms (many ties), a waveform with its peak on sample 0 (must raise), recovery '
        'offsets k in {0..T+1} through (fs, recovery_duration_ms) incl. the defaults, 2-D input, dyadic scale factors over 30 decades: 1/4, 1/2, '
        '1024 and 2^-40, 2^-27, 2^-25 (Volt-scale data, 3e-8..9e-5), 2^-13, 2^30, 2^60 (for these the model runs on the integers and its value '
        'columns are scaled afterwards: theorem scale_equivariant); '
        '(b) the exhaustive box of ALL single-channel waveforms over {-1, 0, 1} of length 10 (thorough: also 11) whose largest deflection is '
        'not on sample 0, plus those where it is (quick: a sample; thorough: all of length 10), with k in {0, 1, 5, T-1}; '
        'each batch runs once through the real compute_spike_features and once through the Lean call model `Features.call` (the stage list of '
        'compute_spike_features interpreted stage by stage; it gets recovery_duration_ms as the exact rational of the scalar handed over and fs, '
        'and computes the recovery offset itself); a case is one batch; sampling rates incl. powers of two (1024, 32768: the duration columns '
        'are then compared exactly); '
        '(c) recovery offsets: (fs, recovery_duration_ms) with recovery_duration_ms * fs / 1000 = j + f, j in 0..170, f in {0, +-0.1, +-0.3, '
        '+-0.45, +-0.49, random} (never within 1e-6 of an exact tie), some through float32; the offset the real call uses is read off the frame '
        '(recovery_time_idx - trough_time_idx on a 200-sample waveform) and compared with the model\'s recoveryOffset; '
        'non-trivial = succeeds with >= 1 waveform whose peak is not the last sample (offsets: >= 0.3 sample from an integer); distinct by generated content')
ASSUMPTIONS = [
    'waveform samples are integers < 2^22 times a power of two (2^-40 .. 2^60) held in float32/float64: abs, max, negation, halving, '
    'subtraction of the half maximum and all comparisons are then exact in NumPy, and float32 rounding of peak/trough cannot move '
    'the quotient across 1.5 (|2p-3t|/(2t) >= 1/(2t) > 2^-24 * 1.5); the model computes in exact rationals',
    'derived float columns (durations, ratio, slopes) are compared with the exact rational of the model (Feat.ratio, durOf, slopeOf: float '
    'division with its inf / NaN outcomes) to rel. 2e-6 (float32 inputs) / 1e-12 (float64), inf/NaN by kind; the durations exactly when fs is a '
    'power of two (every float operation is then exact); peak_to_trough_ratio_log against math.log of the model ratio to 1e-5 (np.log is not modelled)',
    'recovery offset: the model computes int(round(recovery_duration_ms * fs / 1000)) on the exact rational value of the arguments, round half to '
    'even (Features.recoveryOffset; theorem recovery_offset_nearest); the float evaluation of the code agrees unless the quotient is within ~1e-12 of '
    'x.5: generated durations keep >= 0.1 sample (batches) / 1e-6 sample (offset class) away from an exact tie, and exact ties are never '
    'generated (which neighbour a tie goes to is not demanded by the property; the translator tie checks the formula text); fs is integer-valued; '
    'recovery_duration_ms * fs < 0 is outside the call model (CallErr.negOffset) and never generated',
    'the search oracle judges the derived columns by their documented definitions evaluated on the row\'s own index / value columns (rel. 2e-6), '
    'with lower priority than any index / value law',
    'NaN samples are zeroed in place by _validate_arr_in before anything else (modelled: none -> 0; the zeroing of the caller\'s array is '
    'checked too); +-inf samples are outside the property',
    'batches containing a waveform whose largest deflection is on sample 0, and offsets k >= T, raise for the whole batch: modelled and '
    'compared by exception type (ValueError), outside the success claim of the property; the oracle of the search does not judge them',
    'ties: the model (as the code) takes the first channel / first sample reaching the largest |deflection|; the search oracle accepts '
    'any of the tied locations, and demands the channel-permutation law only under a unique maximal channel',
    'former finding F21 (positive largest deflection after which the trace never falls below 2/3 of it, e.g. a positive peak on the last '
    'sample) is repaired in /repo (3bee7fb): that class is generated (plant stays-high, peaks on the last sample, ternary box) and ALL '
    'columns are compared and demanded on it like on any other input',
    'input forms: integer dtypes carry integer values without NaN; finding F22a excludes integer arrays containing the most negative value of '
    'their dtype (np.abs overflow: never generated) and F22b excludes the slope columns of integer-typed rows whose slope numerator leaves '
    'the dtype (not compared / not demanded there); read-only arrays are not a supported form (the code zeroes NaN in place and raises '
    'ValueError: assignment destination is read-only); narrow numpy integers (int16, uint8) are used for fs / recovery_duration_ms only when '
    'recovery_duration_ms * fs stays inside that type (NumPy scalar arithmetic wraps otherwise); unsigned waveform dtypes are not generated',
]
TRUSTED = [
    'np.argmax / np.nanargmax return the first maximal index; np.nanargmax raises ValueError on an all-NaN row (NumPy documentation)',
    'pandas df.loc[index] = frame aligns the assigned frame on index labels and column names',
    'exactness of IEEE float32/float64 arithmetic on the dyadic inputs used (see assumptions)',
    'translator tie: harness/pyfn2lean.py (reads float expressions as exact rationals, drops array statements; a pandas column expression is '
    'read pointwise: df["c"] -> one Int parameter) and its event regular expressions in harness/tiespecs/c14.py',
]
LEVEL_TEXT = ('Lean 4 theorems for every batch of rational-valued multi-channel waveforms (all N, T, C >= 1, all offsets): success domain '
              'and the two error branches, peak = first global absolute extremum or the swapped trough, tip < peak <= trough, trough/tip '
              'extremality, nearest half-peak samples and their fall-backs, recovery index with fall-back, value columns = samples, scale '
              'equivariance (incl. derived columns), channel permutation under a unique maximal channel, batch independence (the vectorised '
              'pipeline incl. the df_index sub-selection and write-back equals the per-waveform pipeline); the whole call as the interpretation '
              'of its stage list with the model\'s own recovery offset (nearest integer, ties to even) = batch pipeline + derived columns, and for '
              'the complete 20-column table: scale law, batch independence, channel permutation, sign of the durations, finiteness of the slopes; '
              'model tied to compute_spike_features by an exact differential run incl. an exhaustive ternary box, and by a translator tie '
              '(stage order + offset formula, find_tip_trough branch, recovery fallback index, duration / slope column arithmetic regenerated '
              'from the source on every run and proved equal to the model)')
LEVEL_NOTE = ('trusted: Lean kernel + Mathlib order lemmas on Rat, the Python correspondence harness, the source translator of the tie, exactness of '
              'float32/float64 arithmetic on the dyadic inputs used. Proved about the model AND re-proved against the regenerated source text: stage '
              'order of compute_spike_features, recovery offset formula, swap-block decision len(df_index) > 0, fallback index T-1, duration / slope '
              'column expressions. Tied by the correspondence run only (array code outside the translator subset): argmax / NaN-mask / np.where '
              'statements, the 1.5 ratio test, the two raise guards. Partial / numeric only: the float ROUNDING of the derived columns (the model '
              'is exact-rational with IEEE inf / NaN outcomes; compared to rel. 2e-6 / 1e-12, exactly for the durations at power-of-two fs), '
              'peak_to_trough_ratio_log (np.log, compared to 1e-5), the float evaluation of the offset within 1e-12 of an exact tie')
TECHNIQUE = ('Lean 4 proofs by induction over first-occurrence argmax / masked argmax and list plumbing (simp/omega/linarith) over exact rationals; '
             'call model = fold of the stage list of compute_spike_features; translator tie (pyfn2lean -> Generated/SrcC14.lean, Tie/C14.lean: 9 theorems '
             'translated source = model, rebuilt on every run); exact correspondence run of index and value columns, observed recovery offsets; '
             'derived float columns: exact-rational model, float rounding numeric (partial)')

IDX_COLS = ['peak_trace_idx', 'peak_time_idx', 'peak_val', 'invert_sign_peak', 'trough_time_idx', 'trough_val',
            'tip_time_idx', 'tip_val', 'half_peak_post_time_idx', 'half_peak_pre_time_idx', 'half_peak_post_val',
            'half_peak_pre_val', 'recovery_time_idx', 'recovery_val']
DER_COLS = ['peak_to_trough_ratio', 'peak_to_trough_duration', 'half_peak_duration', 'depolarisation_slope',
            'repolarisation_slope', 'recovery_slope']
INT_COLS = {'peak_trace_idx', 'peak_time_idx', 'trough_time_idx', 'tip_time_idx', 'half_peak_post_time_idx',
            'half_peak_pre_time_idx', 'recovery_time_idx'}


# ---------------------------------------------------------------------------------------------
# running the real code
# ---------------------------------------------------------------------------------------------
PLAIN_FORM = {'layout': 'C', 'spelling': 'keywords', 'fs_type': 'int', 'rd_type': 'float'}
_SCALAR = {'int': int, 'float': float, 'np.int16': np.int16, 'np.int32': np.int32, 'np.uint8': np.uint8,
           'np.float32': np.float32, 'np.float64': np.float64}


def _apply_layout(a, layout):
    """the same values in another memory layout"""
    if layout == 'F':
        return np.asfortranarray(a)
    if layout == 'transposed-view':          # non-contiguous view of an array stored with the axes reversed
        rev = tuple(range(a.ndim))[::-1]
        return np.ascontiguousarray(a.transpose(rev)).transpose(rev)
    if layout == 'strided-view':             # every other element of a larger array
        big = np.zeros(tuple(2 * n for n in a.shape), a.dtype)
        sl = tuple(slice(None, None, 2) for _ in a.shape)
        big[sl] = a
        return big[sl]
    return a


def _features(arr, _copy=True, _form=None, **kw):
    """compute_spike_features on `arr` (a private copy unless _copy=False) in the call form `_form` (memory layout, positional /
    keyword spelling in the order of today's signature (arr_in, fs, recovery_duration_ms, return_peak_channel), scalar types of
    fs and recovery_duration_ms); returns (DataFrame | None, error | None).  With the option return_peak_channel the returned
    traces are kept in `_features.peak_traces`; the array actually handed over is `_features.passed`."""
    from ibldsp import waveforms
    form = _form or PLAIN_FORM
    a = np.array(arr, copy=True) if _copy else arr
    a = _apply_layout(a, form.get('layout', 'C'))
    _features.passed, _features.peak_traces = a, None
    kw = dict(kw)
    if 'fs' in kw:
        kw['fs'] = _SCALAR[form.get('fs_type', 'int')](kw['fs'])
    if 'recovery_duration_ms' in kw:
        kw['recovery_duration_ms'] = _SCALAR[form.get('rd_type', 'float')](kw['recovery_duration_ms'])
    sp = form.get('spelling', 'keywords')
    rpc = sp.endswith('+return_peak_channel')
    with warnings.catch_warnings():
        warnings.simplefilter('ignore')
        with np.errstate(all='ignore'):
            try:
                if sp.startswith('positional') and kw:
                    res = waveforms.compute_spike_features(a, kw['fs'], kw['recovery_duration_ms'], *((True,) if rpc else ()))
                else:
                    res = waveforms.compute_spike_features(a, **kw, **({'return_peak_channel': True} if rpc else {}))
                if rpc:
                    res, _features.peak_traces = res
                return res, None
            except Exception as e:  # compared by exception type only (messages may be reworded)
                return None, f'err {type(e).__name__}'


def _peak_traces_ok(arr3, df):
    """documented option return_peak_channel: the second result holds, per waveform, the trace of the peak channel"""
    pk = _features.peak_traces
    if pk is None:
        return True
    pk = np.asarray(pk, dtype=float)
    x = np.where(np.isnan(arr3.astype(float)), 0.0, arr3.astype(float))
    exp = np.stack([x[n, :, int(df['peak_trace_idx'].iloc[n])] for n in range(x.shape[0])])
    return pk.shape == exp.shape and bool(np.array_equal(pk, exp))


MODEL_ERR = {'err allNaN': 'err ValueError', 'err offsetOOB': 'err ValueError', 'err zeroSize': 'err ValueError',
             'err index': 'err IndexError'}      # 'err order' / 'err negOffset' (outside the call model) map to nothing: a mismatch


def _frac(x):
    x = float(x)
    if math.isnan(x):
        return 'nan'
    if math.isinf(x):
        return 'inf' if x > 0 else '-inf'
    f = Fraction(x)
    return str(f.numerator) if f.denominator == 1 else f'{f.numerator}/{f.denominator}'


def _tok(x):
    """one sample of the line protocol"""
    return 'n' if math.isnan(x) else _frac(x)


def _encode(arr3):
    """(N, T, C) → waveforms `|`, channels `;`, samples `,` (channel-major, as the model wants it)"""
    return '|'.join(';'.join(','.join(_tok(v) for v in arr3[n, :, c].tolist()) for c in range(arr3.shape[2]))
                    for n in range(arr3.shape[0]))


def _k_of(fs, rd):
    return int(round(rd * fs / 1000))


DEFAULT_FS, DEFAULT_RD = 30000, 0.16          # asserted against the signature of compute_spike_features in `correspondence`


def _rd_token(kw, form=None):
    """recovery_duration_ms as the call receives it (typed scalar -> its exact value), as `num/den` for the model, which
    computes the offset int(round(recovery_duration_ms * fs / 1000)) itself (Features.recoveryOffset)"""
    rd = kw.get('recovery_duration_ms', DEFAULT_RD)
    if form is not None and 'recovery_duration_ms' in kw:
        rd = _SCALAR[form.get('rd_type', 'float')](rd)
    f = Fraction(float(rd))
    return str(f.numerator) if f.denominator == 1 else f'{f.numerator}/{f.denominator}'


def _call_line(kw, form, T, fs, marr):
    return f"call {_rd_token(kw, form)} {int(fs)} {T} {_encode(marr)}"


# ---------------------------------------------------------------------------------------------
# independent predicates on the input (written from the property text, not from the model)
# ---------------------------------------------------------------------------------------------
def _extremum(x):
    """x: (T, C) with NaN → 0.  First channel holding the largest |deflection|, first time on it."""
    a = np.abs(x)
    m = a.max()
    c = int(np.where(a.max(axis=0) == m)[0][0])
    t = int(np.where(a[:, c] == m)[0][0])
    return c, t


def _clean(x):
    return np.where(np.isnan(x), 0.0, x).astype(np.float64)


def _first_sample_peak(x):
    return _extremum(_clean(x))[1] == 0


def _first_sample_tie(x):
    """some channel reaches the largest |deflection| on sample 0 (whether or not it is the first to do so)"""
    a = np.abs(_clean(x))
    return bool(a[0].max() == a.max())


def _stays_high(x):
    """Former finding F21 class (only used to report how often it is exercised): a positive largest deflection after
    which the trace never falls below 2/3 of it."""
    x = _clean(x)
    a = np.abs(x)
    m = a.max()
    for t, c in zip(*np.where(a == m)):
        v = x[t, c]
        if v > 0 and np.all(3 * x[t:, c] >= 2 * v):
            return True
    return False


def _unique_max_channel(x):
    a = np.abs(_clean(x)).max(axis=0)
    return int(np.sum(a == a.max())) == 1


# ---------------------------------------------------------------------------------------------
# generator
# ---------------------------------------------------------------------------------------------
def _pick(rng, options, weights=None):
    w = None if weights is None else np.array(weights, float) / np.sum(weights)
    return options[int(rng.choice(len(options), p=w))]


def _spike(rng, T, C, k, plant, A=None):
    pol = 1 if rng.random() < 0.5 else -1
    A = A or 6 * int(rng.integers(5, 500))
    if plant == 'half-odd' and A % 2 == 0:
        A += 1                               # odd peak: |peak|/2 is not an integer
    pos_opts = [int(rng.integers(1, T)), 1, 2, T - 1, T - 2, T - 3, T - 1 - k, T - k, T - k + 1, T // 2]
    p0 = int(np.clip(_pick(rng, pos_opts, [8, 1, 1, 2, 1, 1, 1, 1, 1, 3]), 1, T - 1))
    c0 = int(_pick(rng, [int(rng.integers(0, C)), 0, C - 1], [4, 1, 1]))
    t = np.arange(T)[:, None].astype(float)
    w1, w2, w3 = rng.uniform(0.7, 4), rng.uniform(1.5, 6), rng.uniform(1, 5)
    d, e = int(rng.integers(2, 13)), int(rng.integers(2, 10))
    r = float(_pick(rng, [0.0, rng.uniform(0.1, 0.6), rng.uniform(0.6, 0.72), rng.uniform(0.72, 1.0)], [1, 4, 2, 2]))
    q = float(rng.uniform(0, 0.4))
    tpl = (np.exp(-((t - p0) / w1) ** 2) - r * np.exp(-((t - p0 - d) / w2) ** 2) - q * np.exp(-((t - p0 + e) / w3) ** 2))
    dec = rng.uniform(0.3, 0.95) ** np.abs(np.arange(C) - c0)[None, :]
    nz = int(_pick(rng, [0, 1, 5, A // 12], [1, 2, 3, 2]))
    x = np.rint(pol * A * tpl * dec * 0.98 + (rng.integers(-nz, nz + 1, size=(T, C)) if nz else 0))
    x = np.clip(x, -(A - 1), A - 1)          # nothing reaches the planted extremum
    x[p0, c0] = pol * A
    tag = plant
    if plant == 'ratio':                      # trough exactly at / next to 2/3 of the peak
        qpos = min(p0 + d, T - 1)
        if qpos > p0:
            val = 2 * A // 3 + int(rng.integers(-1, 2))
            post = x[p0 + 1:, c0] * (-pol)
            x[p0 + 1:, c0] = -pol * np.minimum(post, val - 1)
            x[qpos, c0] = -pol * val
        else:
            tag = 'spike'
    elif plant == 'tie-time':                 # the same |extremum| once more on the peak channel
        p1 = int(rng.integers(0, T))
        x[p1, c0] = pol * A * (1 if rng.random() < 0.5 else -1)
    elif plant == 'tie-chan' and C > 1:       # the same |extremum| on another channel
        c1 = int(rng.integers(0, C))
        x[int(rng.integers(1, T)), c1] = pol * A * (1 if rng.random() < 0.5 else -1)
    elif plant == 'stays-high':               # former F21 class (for pol > 0): the trace stays within [0.7 A, A] after the peak
        x[p0:, c0] = pol * rng.integers(int(0.7 * A), A, size=T - p0)
        x[p0, c0] = pol * A
    elif plant == 'no-half-pre':              # no sample before the peak is back within half of it
        x[:p0, c0] = pol * rng.integers(A // 2, A, size=p0)
    elif plant == 'no-half-post':             # none after it (amplitudes in [A/2, 2A/3): no swap)
        x[p0 + 1:, c0] = pol * rng.integers(A // 2, 2 * A // 3, size=T - p0 - 1)
    elif plant == 'half-exact':               # samples exactly at half the peak next to it are not "within"
        if p0 + 1 < T:
            x[p0 + 1, c0] = pol * A // 2
        x[p0 - 1, c0] = pol * A // 2
    elif plant == 'half-odd':                 # flank samples at floor(|peak|/2) (within half) and ceil(|peak|/2) (not within)
        lo, hi = A // 2, A // 2 + 1
        side = rng.random() < 0.5
        if p0 + 1 < T:
            x[p0 + 1, c0] = pol * (lo if side else hi)
            if p0 + 2 < T:
                x[p0 + 2, c0] = pol * (hi if side else lo)
        x[p0 - 1, c0] = pol * (hi if side else lo)
        if p0 - 2 >= 0:
            x[p0 - 2, c0] = pol * (lo if side else hi)
    return x, tag


def _small(rng, T, C):
    m = int(_pick(rng, [1, 2, 3, 8]))
    return rng.integers(-m, m + 1, size=(T, C)).astype(float), 'small'


def gen_batch(rng, quick=True):
    """One case: dict(arr (N,T,C) float array possibly with NaN, kw for the call, k, fs, tags, two_d)."""
    T = int(_pick(rng, [int(rng.integers(10, 201)), int(rng.integers(10, 40)), 10, 11, 200], [3, 6, 1, 1, 0.3 if quick else 1]))
    C = int(_pick(rng, [int(rng.integers(1, 41)), int(rng.integers(1, 8)), 1, 2, 40], [2, 6, 2, 1, 0.3 if quick else 1]))
    N = int(_pick(rng, [int(rng.integers(1, 11)), 1, 2], [5, 2, 1]))
    # the FORM of the call is drawn independently of the VALUES
    dtype = _pick(rng, ['float32', 'float64', 'int16', 'int32', 'int64'], [3, 2, 1.5, 1.5, 1])
    is_int = dtype.startswith('int')
    form = {'layout': _pick(rng, ['C', 'F', 'transposed-view', 'strided-view'], [4, 1, 1, 1]), 'spelling': 'keywords',
            'fs_type': 'int', 'rd_type': 'float'}
    kkind = _pick(rng, ['default', 'small', 'edge', 'any'], [3, 3, 2, 1])
    if kkind == 'default':
        fs, rd, k, kw = 30000, 0.16, 5, {}
        form['spelling'] = _pick(rng, ['keywords', 'keywords+return_peak_channel'], [4, 1])
    else:
        fs = int(_pick(rng, [30000, 1000, 2500, 20000, 32768, 1024], [4, 4, 4, 4, 2, 1]))
        k = {'small': int(rng.integers(0, 9)), 'edge': int(_pick(rng, [T - 2, T - 1, T, T + 1])), 'any': int(rng.integers(0, T))}[kkind]
        if rng.random() < 0.25:               # offset given as an integer number of milliseconds
            fs, rd = 1000, k
            form['rd_type'] = _pick(rng, ['int', 'np.uint8', 'np.int16', 'float', 'np.float64'])
            form['fs_type'] = _pick(rng, ['int', 'float', 'np.float64'])
        else:
            for frac in (float(rng.uniform(-0.4, 0.4)), 0.25, 0.0):
                rd = (k + frac) * 1000 / fs
                if rd >= 0 and _k_of(fs, rd) == k:
                    break
            form['rd_type'] = _pick(rng, ['float', 'np.float64', 'np.float32'], [3, 1, 1])
            form['fs_type'] = _pick(rng, ['int', 'float', 'np.int32', 'np.float64', 'np.int16'], [3, 1, 1, 1, 1])
        form['spelling'] = _pick(rng, ['keywords', 'positional', 'positional+return_peak_channel'], [3, 2, 1])
        try:                                  # the typed scalars must still mean the same offset
            with np.errstate(all='ignore'), warnings.catch_warnings():
                warnings.simplefilter('ignore')
                ok = (_k_of(_SCALAR[form['fs_type']](fs), _SCALAR[form['rd_type']](rd)) == k
                      and float(_SCALAR[form['fs_type']](fs)) == fs)
        except (OverflowError, ValueError):
            ok = False
        if not ok:
            form['fs_type'], form['rd_type'] = 'int', ('int' if isinstance(rd, int) else 'float')
        kw = {'fs': fs, 'recovery_duration_ms': rd}
    err_batch = rng.random() < 0.08          # keep one waveform whose extremum is on sample 0
    plants = ['spike', 'ratio', 'tie-time', 'tie-chan', 'stays-high', 'no-half-pre', 'no-half-post', 'half-exact', 'half-odd', 'small']
    pw = [8, 3, 1.5, 1.5, 1, 1, 1, 1, 2.5, 2]
    waves, tags = [], set()
    for n in range(N):
        for attempt in range(50):
            plant = _pick(rng, plants, pw)
            amp = 32767 if (dtype == 'int16' and rng.random() < 0.15) else None      # full-scale int16 counts
            x, tag = _small(rng, T, C) if plant == 'small' else _spike(rng, T, C, k, plant, amp)
            if amp and plant != 'small':
                tag += '+int16-fullscale'
            nan_kind = 'none' if is_int else _pick(rng, ['none', 'chan', 'partial'], [7, 2, 1])
            if nan_kind == 'chan' and C > 1:
                keep = _extremum(x)[0]
                for c in rng.choice(C, size=int(rng.integers(1, max(2, C // 2 + 1))), replace=False):
                    if c != keep:
                        x[:, int(c)] = np.nan
                tag += '+nanchan'
            elif nan_kind == 'partial':
                x[rng.random(x.shape) < 0.05] = np.nan
                tag += '+nanpart'
            bad = _first_sample_peak(x)
            if bad and err_batch and n == N - 1:
                tag += '+first-sample'
                break
            if not bad:
                break
        waves.append(x)
        tags.add(tag)
    base = np.stack(waves)                   # integer-valued
    # moderate dyadic scales are given to the model as they are; the extreme ones (Volt-scale data = integers * 2^-25, i.e.
    # 3e-8 .. 9e-5, and scales down to 2^-40 / up to 2^60) reach the real code only: the model runs on the integers and its
    # value columns are multiplied by the scale afterwards, which `scale_equivariant` justifies (exact for powers of two)
    if is_int:
        sc = float(_pick(rng, [1, 1024], [6, 1])) if dtype != 'int16' else 1.0
    else:
        sc = float(_pick(rng, [1, 0.25, 0.5, 1024, 2.0 ** -25, 2.0 ** -40, 2.0 ** -27, 2.0 ** -13, 2.0 ** 30, 2.0 ** 60],
                         [8, 1, 1, 1, 1.5, 0.5, 0.5, 0.5, 0.5, 0.5]))
    extreme = not (2.0 ** -3 <= sc <= 2.0 ** 11)
    arr = (base * sc).astype(dtype)
    two_d = bool(N == 1 and rng.random() < 0.3)
    return {'arr': arr, 'marr': base if extreme else arr, 'mscale': Fraction(sc) if extreme else Fraction(1),
            'kw': kw, 'k': k, 'fs': fs, 'T': T, 'C': C, 'N': N, 'tags': sorted(tags), 'two_d': two_d,
            'scale': sc, 'dtype': np.dtype(dtype).name, 'form': form}


# ---------------------------------------------------------------------------------------------
# correspondence
# ---------------------------------------------------------------------------------------------
def _close(a, m, rel):
    """float of the implementation against the model's token (rational / nan / inf / -inf)."""
    a = float(a)
    if m in ('nan', 'inf', '-inf'):
        return (math.isnan(a) and m == 'nan') or (math.isinf(a) and (a > 0) == (m == 'inf') and m != 'nan')
    if not math.isfinite(a):
        return False
    v = float(Fraction(m))
    return abs(a - v) <= rel * max(abs(v), abs(a)) + 1e-300


def _impl_rows(df):
    """per waveform: (dict of exact tokens for IDX_COLS, dict of floats for DER_COLS + log)"""
    cols = {c: df[c].to_numpy() for c in IDX_COLS + DER_COLS + ['peak_to_trough_ratio_log']}
    out = []
    for i in range(len(df)):
        ex = {c: (str(int(cols[c][i])) if c in INT_COLS else _frac(cols[c][i])) for c in IDX_COLS}
        de = {c: float(cols[c][i]) for c in DER_COLS}
        de['peak_to_trough_ratio_log'] = float(cols['peak_to_trough_ratio_log'][i])
        out.append((ex, de))
    return out


VAL_COLS = ['peak_val', 'trough_val', 'tip_val', 'half_peak_post_val', 'half_peak_pre_val', 'recovery_val']
SLOPE_COLS = ['depolarisation_slope', 'repolarisation_slope', 'recovery_slope']


def _scale_tok(tok, m):
    if tok in ('nan', 'inf', '-inf'):
        return tok
    f = Fraction(tok) * m
    return str(f.numerator) if f.denominator == 1 else f'{f.numerator}/{f.denominator}'


def _model_rows(ans, mscale=Fraction(1)):
    """rows of the model's answer; value columns and slopes multiplied by `mscale` (the model ran on the unscaled data)"""
    rows = []
    for tok in ans[3:].split('|'):
        f = tok.split(',')
        ex, de = dict(zip(IDX_COLS, f[:14])), dict(zip(DER_COLS, f[14:20]))
        if mscale != 1:
            for c in VAL_COLS:
                ex[c] = _scale_tok(ex[c], mscale)
            for c in SLOPE_COLS:
                de[c] = _scale_tok(de[c], mscale)
        rows.append((ex, de))
    return rows


def _canon(ex, skip):
    return ','.join('*' if c in skip else ex[c] for c in IDX_COLS)


class _Stats:
    def __init__(self):
        self.rows = self.f21 = self.f21_still = self.f21_agree = 0
        self.c = __import__('collections').Counter()


def _compare_batch(ctx, st, op, desc, arr, call, kw, k, T, dtype, ans, tags, mscale=Fraction(1), form=None):
    """Run the real code on `call` (the array handed to compute_spike_features; `arr` is the same data as (N, T, C)),
    compare with the model's answer `ans`, register the case."""
    N = arr.shape[0]
    before_nan = bool(np.isnan(call).any())
    df, err = _features(call, _form=form, **kw)
    passed = _features.passed
    rel = 2e-6 if dtype == 'float32' else 1e-12
    nontriv = False
    if df is None:
        impl_s, model_s = err, MODEL_ERR.get(ans, ans)
        tags = tags + [f'raises ({ans})']
    elif not ans.startswith('ok '):
        impl_s, model_s = f'ok ({len(df)} rows)', ans
    else:
        tags = tags + ['succeeds']
        irows, mrows = _impl_rows(df), _model_rows(ans, mscale)
        if len(irows) != len(mrows) or len(irows) != N:
            impl_s, model_s = f'ok {len(irows)} rows', f'ok {len(mrows)} rows'
        else:
            ip, mp = [], []
            for n, ((iex, ide), (mex, mde)) in enumerate(zip(irows, mrows)):
                sh = _stays_high(arr[n])
                skip = set()
                if arr.dtype.kind == 'i':      # finding F22: the slope numerators are formed in the integer dtype of the data and wrap
                    lim, v = np.iinfo(arr.dtype).max, {c: Fraction(mex[c]) for c in VAL_COLS}
                    for c, (p, q) in {'depolarisation_slope': ('peak_val', 'tip_val'), 'repolarisation_slope': ('trough_val', 'peak_val'),
                                      'recovery_slope': ('recovery_val', 'trough_val')}.items():
                        if abs(v[p] - v[q]) > lim:
                            skip.add(c)
                            st.c['F22: slope numerator beyond the integer dtype (column not compared)'] += 1
                fs_v = float(kw.get('fs', DEFAULT_FS))
                pow2 = fs_v > 0 and math.log2(fs_v) == int(math.log2(fs_v))     # durations (index difference / fs) are then exact floats
                if pow2:
                    st.c['fs a power of two: durations compared exactly'] += 1
                bad = [c for c in DER_COLS if c not in skip
                       and not _close(ide[c], mde[c], 0.0 if (pow2 and c.endswith('duration')) else rel)]
                rt = mde['peak_to_trough_ratio']
                if rt not in ('nan', 'inf', '-inf') and Fraction(rt) > 0:
                    if not abs(ide['peak_to_trough_ratio_log'] - math.log(Fraction(rt))) <= 1e-5:
                        bad.append('peak_to_trough_ratio_log')
                ip.append(_canon(iex, set()) + (' derived:' + ','.join(f'{c}={ide[c]!r}' for c in bad) if bad else ''))
                mp.append(_canon(mex, set()) + (' derived:' + ','.join(f'{c}={mde.get(c)}' for c in bad) if bad else ''))
                # per-waveform statistics for the evidence
                st.rows += 1
                pt, trg = int(iex['peak_time_idx']), int(iex['trough_time_idx'])
                cc, tt = _extremum(_clean(arr[n]))
                st.c['peak on last sample' if pt == T - 1 else 'peak on sample 1' if pt == 1 else 'peak inside'] += 1
                st.c['peak moved to the trough (swap)' if pt != tt else 'positive peak at the extremum' if float(Fraction(mex['peak_val'])) > 0
                     else 'negative peak at the extremum'] += 1
                st.c['trough+k<T' if trg + k < T else 'trough+k=T' if trg + k == T else 'trough+k>T'] += 1
                st.c['trough on last sample' if trg == T - 1 else 'trough = peak' if trg == pt else 'trough inside'] += 1
                st.c['no half-peak sample after the peak' if int(iex['half_peak_post_time_idx']) == 0 else 'half-peak sample after the peak'] += 1
                st.c['no half-peak sample before the peak' if int(iex['half_peak_pre_time_idx']) == T - 1 and pt != T else 'half-peak sample before the peak'] += 1
                if not _unique_max_channel(arr[n]):
                    st.c['several channels reach the maximum'] += 1
                if sh:
                    st.f21 += 1
                    real_tip = _clean(arr[n])[int(iex['tip_time_idx']), int(iex['peak_trace_idx'])]
                    st.f21_agree += int(_canon(iex, set()) == _canon(mex, set()))
                    st.f21_still += int(float(Fraction(iex['tip_val'])) == real_tip)
                nontriv = nontriv or pt < T - 1
            impl_s, model_s = 'ok ' + '|'.join(ip), 'ok ' + '|'.join(mp)
        # the in-place NaN → 0 of _validate_arr_in is observable on the caller's array
        if before_nan and np.isnan(passed).any():
            impl_s += ' input-still-has-NaN'
        if not _peak_traces_ok(arr, df):
            impl_s += ' return_peak_channel-traces-differ-from-the-peak-channel'
    ctx.compare(op, desc, impl_s, model_s, nontrivial=nontriv, tags=tuple(tags))


def scale_batch(seed, j):
    """A batch LARGER than any internal block (2^16 waveforms): 66 000 - 70 000 rows drawn with repetition from a pool of 160
    short waveforms of every planted kind (weakly positive / trough-swap spikes included).  Returns (pool, idx, kw, k)."""
    rng = np.random.default_rng([seed, 14, 77, j])
    T, C, k = int(rng.choice([16, 24, 32])), int(rng.choice([1, 2, 3])), 5
    plants = ['spike', 'ratio', 'stays-high', 'no-half-pre', 'no-half-post', 'half-exact', 'half-odd']
    pool = []
    while len(pool) < 160:
        x, _ = _spike(rng, T, C, k, plants[len(pool) % len(plants)])
        if not _first_sample_peak(x):
            pool.append(x)
    pool = np.stack(pool).astype(np.float32 if j % 2 == 0 else np.float64)
    N = int(rng.choice([65536 + 64, 66000, 70001]))
    idx = rng.integers(0, len(pool), size=N)
    idx[-64:] = np.arange(64) * 2 % len(pool)            # the tail (past row 65536) holds every kind
    return pool, idx, {}, k


def scale_oracle(seed, j):
    """features of a very large batch = features of each of its waveforms in a small batch (None when it holds)"""
    pool, idx, kw, k = scale_batch(seed, j)
    dp, ep = _features(pool, **kw)
    if dp is None:
        return None                      # the pool itself is rejected: nothing to compare (does not happen on the unchanged tree)
    big = pool[idx]
    db, eb = _features(big, **kw)
    if db is None:
        return f'a batch of {len(idx)} waveforms raises ({eb}) although the same waveforms in a batch of {len(pool)} are processed'
    if len(db) != len(idx):
        return f'{len(db)} rows for {len(idx)} waveforms'
    cols = [c for c in IDX_COLS if c in db.columns and c in dp.columns]
    a = db[cols].to_numpy(dtype=float)
    b = dp[cols].to_numpy(dtype=float)[idx]
    bad = ~((a == b) | (np.isnan(a) & np.isnan(b)))
    if bad.any():
        r, cidx = np.argwhere(bad)[0]
        return (f'waveform {int(r)} of a batch of {len(idx)}: {cols[int(cidx)]} is {a[r, cidx]!r} in the large batch and {b[r, cidx]!r} '
                f'for the same waveform in a batch of {len(pool)}')
    return None


def scale_cases(ctx):
    for j in range(ctx.n(2, 8)):
        try:
            r = scale_oracle(ctx.seed, j)
        except Exception as e:  # noqa
            r = f'oracle raised {type(e).__name__}: {e}'
        ctx.compare('scale', {'op': 'scale', 'j': j, 'seed': ctx.seed}, 'ok' if r is None else 'C14 fails at scale: ' + str(r)[:300], 'ok',
                    tags=('scale', 'scale-N>65536'))
        if r is not None:
            ctx.scale_failures = getattr(ctx, 'scale_failures', []) + [(j, r)]


def _observe_offset(fs, rd):
    """the offset the real call uses, read off the returned frame: recovery_time_idx - trough_time_idx on a 200-sample
    waveform whose trough is sample 23 (valid while 23 + offset < 200)"""
    from ibldsp import waveforms
    x = np.zeros((1, 200, 1), np.float64)
    x[0, 20, 0], x[0, 23, 0] = -100.0, 30.0
    with warnings.catch_warnings(), np.errstate(all='ignore'):
        warnings.simplefilter('ignore')
        try:
            df = waveforms.compute_spike_features(x, fs=fs, recovery_duration_ms=rd)
        except Exception as e:  # noqa
            return f'err {type(e).__name__}'
    trg, rec = int(df['trough_time_idx'].iloc[0]), int(df['recovery_time_idx'].iloc[0])
    return f'k {rec - trg}' if trg == 23 else f'trough at {trg}'


def offset_cases(ctx):
    """(c) the recovery offset int(round(recovery_duration_ms * fs / 1000)): observed on the real call vs the model's
    `recoveryOffset`, for durations up to 0.49 sample either side of an integer number of samples.  Exact ties
    (x.5 samples) are NOT generated: which neighbour a tie goes to is not part of the property (the model follows the code:
    ties to even, theorem recovery_offset_nearest; the translator tie checks the formula itself)."""
    rng = ctx.subrng(5, 0)
    n, cases = ctx.n(150, 1200), []
    while len(cases) < n:
        fs = _pick(rng, [30000, 1000, 2500, 20000, 25000, 32000, 30000.0, np.float64(2500), np.int32(30000)], [4, 2, 1, 1, 1, 1, 1, 1, 1])
        j = int(_pick(rng, [int(rng.integers(0, 171)), int(rng.integers(0, 12)), 0, 1, 5], [3, 4, 1, 1, 1]))
        frac = float(_pick(rng, [0.49, -0.49, 0.45, -0.45, 0.3, -0.3, 0.1, -0.1, 0.0, float(rng.uniform(-0.49, 0.49))], [2, 2, 1, 1, 1, 1, 1, 1, 2, 4]))
        rd = (j + frac) * 1000 / float(fs)
        if rng.random() < 0.15:
            rd = float(np.float32(rd))                    # a duration that came through float32
        if rd < 0:
            continue
        v = rd * fs / 1000                                # as the code evaluates it
        if abs((v % 1) - 0.5) < 1e-6 or v > 171:          # not within 1e-6 of a tie (float and exact evaluation then agree)
            continue
        cases.append((fs, rd, j, frac))
    answers = ctx.lean([f'offset {_rd_token({"recovery_duration_ms": rd})} {int(fs)}' for fs, rd, _, _ in cases])
    for (fs, rd, j, frac), ans in zip(cases, answers):
        obs = _observe_offset(fs, rd)
        ctx.compare('offset', {'op': 'offset', 'fs': float(fs), 'fs_type': type(fs).__name__, 'recovery_duration_ms': rd}, obs, ans,
                    nontrivial=abs(frac) >= 0.3, tags=('recovery offset', 'offset within 0.05 of a tie' if abs(frac) >= 0.45 else
                                                       'offset 0.3 from an integer' if abs(frac) >= 0.3 else 'offset near an integer',
                                                       'offset 0' if ans == 'k 0' else 'offset > 0'))
    ctx.note(f'{len(cases)} recovery offsets observed on the real call (recovery_time_idx - trough_time_idx) = model recoveryOffset; '
             'exact ties excluded (see offset_cases)')


def correspondence(ctx):
    st = _Stats()
    # (a) structured random batches --------------------------------------------------------------
    ncase = ctx.n(700, 6000)
    cases = [gen_batch(ctx.subrng(1, i), ctx.quick) for i in range(ncase)]
    # the model gets recovery_duration_ms and fs as the call does and computes the offset itself (op `call`)
    lines = [_call_line(g['kw'], g['form'], g['T'], g['fs'], g['marr']) for g in cases]
    model = []
    for a in range(0, len(lines), 400):
        model += ctx.lean(lines[a:a + 400])
    for i, (g, ans) in enumerate(zip(cases, model)):
        arr = g['arr']
        call = arr[0] if g['two_d'] else arr
        desc = {'case': i, 'N': g['N'], 'T': g['T'], 'C': g['C'], 'k': g['k'], 'fs': g['fs'], 'dtype': g['dtype'],
                'two_d': g['two_d'], 'scale': g['scale'], 'plants': g['tags'], 'form': g['form']}
        tags = ['random batch', 'N=1' if g['N'] == 1 else 'N>1',
                'T=10..11' if g['T'] <= 11 else 'T<40' if g['T'] < 40 else 'T>=40',
                'C=1' if g['C'] == 1 else 'C=2..7' if g['C'] < 8 else 'C>=8', g['dtype'],
                'k=default' if not g['kw'] else ('k>=T' if g['k'] >= g['T'] else 'k=T-2..T-1' if g['k'] >= g['T'] - 2
                                                 else 'k=0' if g['k'] == 0 else 'k<T-2')]
        tags += ['plant:' + t for t in g['tags']] + (['2-D input'] if g['two_d'] else [])
        tags.append('scale 1' if g['scale'] == 1 else 'scale 2^-25 (Volt-scale data)' if g['scale'] == 2.0 ** -25 else
                    'scale <= 2^-13' if g['scale'] < 1e-3 else 'scale >= 2^30' if g['scale'] > 1e6 else 'scale 1/4..1024')
        fm = g['form']
        tags += ['layout ' + fm['layout'], 'spelling ' + fm['spelling']]
        if g['kw']:
            tags += ['fs as ' + fm['fs_type'], 'recovery_duration_ms as ' + fm['rd_type']]
        _compare_batch(ctx, st, 'batch', desc, arr, call, g['kw'], g['k'], g['T'], g['dtype'], ans, tags, g['mscale'], fm)
    n_random_rows = st.rows
    # (b) exhaustive box: every single-channel waveform with samples in {-1, 0, 1} ----------------------
    import itertools
    box_T = (10,) if ctx.quick else (10, 11)
    nbox = nbox_edge = 0
    for T in box_T:
        allw = np.array(list(itertools.product([-1.0, 0.0, 1.0], repeat=T)))
        inside = np.abs(allw[:, 0]) < np.abs(allw).max(axis=1)
        groups = [('box', allw[inside], 400)]
        edge = allw[~inside]                 # some largest deflection on sample 0: raises unless every row is swapped away from it
        edge_all = not ctx.quick and T == 10
        if not edge_all:
            edge = edge[ctx.subrng(3, T).choice(len(edge), size=ctx.n(300, 3000), replace=False)]
        groups.append(('box-first-sample', edge, 3 if edge_all else 1))
        for op, W, B in groups:
            blines, barrs = [], []
            for bi, a in enumerate(range(0, len(W), B)):
                arr = W[a:a + B][:, :, None]
                k = (0, 1, 5, T - 1)[bi % 4]
                fs = 1000
                blines.append(f'call {k} {fs} {T} {_encode(arr)}')
                barrs.append((arr, k, a))
            answers = []
            for a in range(0, len(blines), 2000):
                answers += ctx.lean(blines[a:a + 2000])
            for (arr, k, a), ans in zip(barrs, answers):
                kw = {'fs': 1000, 'recovery_duration_ms': float(k)}
                desc = {'op': op, 'T': T, 'first_row': a, 'rows': int(arr.shape[0]), 'k': k,
                        'first_waveform': arr[0, :, 0].tolist()}
                _compare_batch(ctx, st, op, desc, arr, arr, kw, k, T, 'float64', ans, [op, f'T={T}'])
                if op == 'box':
                    nbox += arr.shape[0]
                else:
                    nbox_edge += arr.shape[0]
    ctx.note(f'{ncase} structured random batches with {n_random_rows} waveforms, and the exhaustive box of single-channel waveforms over '
             f'{{-1,0,1}} for T in {list(box_T)} ({nbox} waveforms whose largest deflection is not on sample 0: all of them; {nbox_edge} with a '
             f'largest deflection on sample 0' + (' (sample)' if ctx.quick else ': all of them for T = 10, a sample for T = 11') + '): all 14 index/value columns exact, 7 derived columns numeric')
    ctx.note('per-waveform distribution (successful extractions): ' + ', '.join(f'{k}: {v}' for k, v in sorted(st.c.items())))
    ctx.note(f'former finding F21 class (positive peak that stays above 2/3 of itself, e.g. on the last sample): {st.f21} waveforms, all '
             f'columns compared; model = code on {st.f21_agree} of them, tip_val is the sample at tip_time_idx on {st.f21_still}')
    # constants owned by the code: defaults of compute_spike_features (k = 5) and the 1.5 swap threshold
    import inspect
    from ibldsp import waveforms
    sig = inspect.signature(waveforms.compute_spike_features)
    d_fs, d_rd = sig.parameters['fs'].default, sig.parameters['recovery_duration_ms'].default
    kdef = _k_of(d_fs, d_rd)
    mk = ctx.lean([f'offset {_rd_token({"recovery_duration_ms": DEFAULT_RD})} {DEFAULT_FS}'])[0]      # the model's own offset for the defaults
    ctx.compare('defaults', {'op': 'defaults'}, f'fs={float(d_fs)} recovery_duration_ms={float(d_rd)} k={kdef}',
                f'fs={float(DEFAULT_FS)} recovery_duration_ms={float(DEFAULT_RD)} ' + mk.replace('k ', 'k='), nontrivial=False, tags=('defaults',))
    for dlt, exp in ((0, True), (1, True), (-1, False)):      # trough = -(2A/3 + dlt): ratio <= 1.5 iff dlt >= 0
        A = 300
        x = np.zeros((12, 1), np.float32)
        x[4, 0], x[7, 0] = A, -(2 * A // 3 + dlt)
        df, err = _features(x[None])
        swapped = bool(df is not None and int(df['peak_time_idx'][0]) == 7)
        ans = ctx.lean([f'batch 5 12 30000 {_encode(x[None])}'])[0]
        mswapped = ans.startswith('ok ') and ans[3:].split(',')[1] == '7'
        ctx.compare('ratio-threshold', {'op': 'ratio-threshold', 'delta': dlt}, f'swap={swapped}', f'swap={mswapped}',
                    nontrivial=True, tags=('ratio-threshold',))
        ctx.compare('ratio-threshold-doc', {'op': 'ratio-threshold-doc', 'delta': dlt}, f'swap={swapped}', f'swap={exp}',
                    nontrivial=False, tags=('ratio-threshold',))
    ctx.exhaustive = False


# ---------------------------------------------------------------------------------------------
# oracle: the property, stated directly on the real code
# ---------------------------------------------------------------------------------------------
    scale_cases(ctx)
    offset_cases(ctx)


def _row_laws(x, r, k, T):
    """x: cleaned (T, C) waveform; r: the data-frame row.  Returns a description of the first broken law or None.
    Ties (several samples reaching the same largest |deflection|, several equal minima) are accepted either way."""
    a = np.abs(x)
    M = a.max()
    pc, pt, pv = int(r['peak_trace_idx']), int(r['peak_time_idx']), float(r['peak_val'])
    C = x.shape[1]
    if not (0 <= pc < C and 0 <= pt < T):
        return f'peak index (channel {pc}, sample {pt}) outside the waveform ({C} channels, {T} samples)'
    row = x[:, pc]
    if pv != row[pt]:
        return f'peak_val {pv} is not the sample {row[pt]} at peak_time_idx {pt} of channel {pc}'
    if a[:, pc].max() != M:
        c, t = _extremum(x)
        return f'peak_trace_idx {pc}: the largest |deflection| {M} is reached on channel {c} (sample {t}), channel {pc} only reaches {a[:, pc].max()}'

    def swap_state(t0):
        """(may swap, must swap, trough value) for a positive extremum at t0 of the peak channel"""
        v, m = row[t0], row[t0:].min()
        if not v > 0 or m == 0:
            return False, False, m
        return bool(2 * abs(v) <= 3 * abs(m)), bool(2 * abs(v) < 3 * abs(m)), m
    ext = [t0 for t0 in range(T) if a[t0, pc] == M]
    plain_ok = pt in ext and not swap_state(pt)[1]
    swapped_ok = any(t0 <= pt and swap_state(t0)[0] and row[pt] == swap_state(t0)[2] for t0 in ext)
    if not (plain_ok or swapped_ok):
        t0 = ext[0]
        may, must, m = swap_state(t0)
        if must:
            return (f'weakly positive spike (peak {row[t0]} at sample {t0}, trough {m} at sample {t0 + int(np.argmin(row[t0:]))}, '
                    f'|peak/trough| <= 1.5): peak reported at sample {pt} ({pv}), expected the swap to the trough on channel {pc}')
        return (f'peak reported at sample {pt} (value {pv}) of channel {pc}; the global absolute extremum of that channel is '
                f'{row[t0]} at sample {t0}' + ('' if not may else ' (or its trough, ratio exactly 1.5)'))
    tip, trg = int(r['tip_time_idx']), int(r['trough_time_idx'])
    if not (0 <= tip < pt <= trg < T):
        return f'ordering tip < peak <= trough < T broken: tip {tip}, peak {pt}, trough {trg}, T {T}'
    if float(r['trough_val']) != row[trg]:
        return f'trough_val {float(r["trough_val"])} is not the sample {row[trg]} at trough_time_idx {trg}'
    flip = -1.0 if pv > 0 else 1.0           # turns the spike into a negative-going one
    if flip * row[trg] != (flip * row[pt:]).max():
        return (f'trough at sample {trg} ({row[trg]}) is not the most opposite sample to the peak ({pt}, {pv}) from the peak on: '
                f'sample {pt + int(np.argmax(flip * row[pt:]))} holds {row[pt + int(np.argmax(flip * row[pt:]))]}')
    rec = int(r['recovery_time_idx'])
    exp = trg + k if trg + k < T else T - 1
    if rec != exp:
        return f'recovery_time_idx {rec}, expected {exp} (trough {trg} + offset {k}, T = {T})'
    if flip * row[tip] != (flip * row[:pt]).max():
        return (f'tip at sample {tip} ({row[tip]}) is not the most opposite sample to the peak ({pt}, {pv}) before it: '
                f'sample {int(np.argmax(flip * row[:pt]))} holds {row[int(np.argmax(flip * row[:pt]))]}')
    within = (row < pv / 2) if pv > 0 else (row > pv / 2)
    post = [u for u in range(pt, T) if within[u]]
    pre = [u for u in range(0, pt) if within[u]]
    hpost, hpre = int(r['half_peak_post_time_idx']), int(r['half_peak_pre_time_idx'])
    if post and hpost != post[0]:
        return f'half_peak_post_time_idx {hpost}: the nearest sample after the peak ({pt}, {pv}) within half of it is {post[0]}'
    if pre and hpre != pre[-1]:
        return f'half_peak_pre_time_idx {hpre}: the nearest sample before the peak ({pt}, {pv}) within half of it is {pre[-1]}'
    for nm, ix in (('tip', tip), ('half_peak_post', hpost), ('half_peak_pre', hpre), ('recovery', rec)):
        if not (0 <= ix < T) or float(r[nm + '_val']) != row[ix]:
            return f'{nm}_val {float(r[nm + "_val"])} is not the sample {row[ix] if 0 <= ix < T else None} at {nm}_time_idx {ix}'
    return None


def _derived_laws(r, fs, int_lim=None):
    """The derived columns of one row against their documented definitions (docstrings of peak_to_trough_duration,
    half_peak_duration, peak_to_trough_ratio, polarisation_slopes, recovery_slope), evaluated in float64 from the row's own
    index / value columns; relative tolerance 2e-6, inf / NaN by kind.  `int_lim`: integer-typed data - slope numerators
    beyond the dtype are finding F22 (not judged)."""
    g = lambda c: float(r[c])        # noqa

    def div(a, b):
        if b == 0:
            return math.nan if a == 0 else math.copysign(math.inf, a)
        return a / b
    exp = {'peak_to_trough_duration': (g('trough_time_idx') - g('peak_time_idx')) / fs,
           'half_peak_duration': (g('half_peak_post_time_idx') - g('half_peak_pre_time_idx')) / fs,
           'peak_to_trough_ratio': abs(div(g('peak_val'), g('trough_val')))}
    for c, (v1, v0, t1, t0) in {'depolarisation_slope': ('peak_val', 'tip_val', 'peak_time_idx', 'tip_time_idx'),
                                'repolarisation_slope': ('trough_val', 'peak_val', 'trough_time_idx', 'peak_time_idx'),
                                'recovery_slope': ('recovery_val', 'trough_val', 'recovery_time_idx', 'trough_time_idx')}.items():
        if int_lim is not None and abs(g(v1) - g(v0)) > int_lim:
            continue
        exp[c] = div(g(v1) - g(v0), (g(t1) - g(t0)) / fs)
    for c, e in exp.items():
        a = g(c)
        ok = (math.isnan(a) and math.isnan(e)) or (math.isinf(e) and a == e) or \
             (math.isfinite(a) and math.isfinite(e) and abs(a - e) <= 2e-6 * max(abs(a), abs(e)) + 1e-300)
        if not ok:
            return f'derived column {c} is {a!r}; its definition on the row\'s own index / value columns gives {e!r}'
    return None


def _same(r1, r2, cols, fac=1.0):
    for c in cols:
        a, b = float(r1[c]), float(r2[c])
        if c in INT_COLS:
            if int(a) != int(b):
                return c
        elif not (a * fac == b or (math.isnan(a) and math.isnan(b)) or (math.isinf(a) and a == b)):
            return c
    return None


SCALE_FACTORS = [2.0 ** -40, 2.0 ** -30, 2.0 ** -27, 2.0 ** -20, 2.0 ** -13, 0.5, 2.0, 3.0, 2.0 ** 10, 2.0 ** 30]


def _fmt_c(c):
    e = math.log2(c)
    return f'{c!r} (= 2^{int(e)})' if e == int(e) else repr(c)


def _scale_laws(arr, kw, df=None, form=None):
    """"Scaling the waveform by c > 0 scales all values and leaves all indices unchanged", for c over many decades (powers of
    two, so that the scaling itself is exact; factors that would leave the normal range of the dtype are skipped).
    Returns (c, description) for the first factor that breaks it, else None."""
    if df is None:
        df, err = _features(arr, _form=form, **kw)
        if df is None:
            return None
    N = arr.shape[0]
    is_int = arr.dtype.kind == 'i'
    a = np.abs(_clean(arr))
    amax, amin = a.max(), (a[a > 0].min() if (a > 0).any() else 1.0)
    lim = 100 if arr.dtype == np.float32 else 900
    cols_i = [c for c in IDX_COLS if c in INT_COLS]
    cols_v = [c for c in IDX_COLS if c not in INT_COLS and c != 'invert_sign_peak']
    weak = None
    for cfac in ([2, 3, 1024] if is_int else SCALE_FACTORS):
        if is_int and amax * cfac > np.iinfo(arr.dtype).max:
            continue                          # integer counts: integer factors that do not overflow the dtype
        if not is_int and not (amax * cfac < 2.0 ** lim and amin * cfac > 2.0 ** -lim):
            continue
        scaled = arr * arr.dtype.type(cfac)
        with np.errstate(all='ignore'):
            if not np.array_equal(scaled.astype(np.float64), arr.astype(np.float64) * cfac, equal_nan=True):
                continue                      # the scaling itself is not exact in this dtype (wide mantissas x 3): law not testable
        d2, e2 = _features(scaled, _form=form, **kw)
        if d2 is None:
            return cfac, f'scaling the batch by c = {_fmt_c(cfac)} makes the extraction raise ({e2})'
        pow2 = math.log2(cfac) == int(math.log2(cfac))
        for n in range(N):
            r1, r2 = df.iloc[n], d2.iloc[n]
            bad = _same(r1, r2, cols_i) or _same(r1, r2, cols_v, cfac)
            if not bad and pow2:          # derived columns: ratio and durations invariant, slopes * c (exact for powers of two)
                bad = _same(r1, r2, ['peak_to_trough_ratio', 'peak_to_trough_ratio_log', 'peak_to_trough_duration', 'half_peak_duration'])
                if not bad and not (is_int and 2 * amax * cfac > np.iinfo(arr.dtype).max):   # (finding F22: integer slope numerators wrap)
                    bad = _same(r1, r2, SLOPE_COLS, cfac)
            if bad and bad not in IDX_COLS and weak is None:
                weak = (cfac, n, bad, r1, r2)          # a derived column only: keep looking for an index / value column
                continue
            if bad:
                exp = 'the same' if bad in INT_COLS or bad.startswith('peak_to_trough') or bad.endswith('duration') else f'{float(r1[bad]) * cfac!r}'
                return cfac, (f'waveform {n}: scaling the batch by c = {_fmt_c(cfac)} changes {bad} from {float(r1[bad])!r} to '
                              f'{float(r2[bad])!r} (expected {exp}); peak {float(r1["peak_val"])!r} at {int(r1["peak_time_idx"])} / '
                              f'trough {float(r1["trough_val"])!r} at {int(r1["trough_time_idx"])} unscaled, peak at '
                              f'{int(r2["peak_time_idx"])} / trough at {int(r2["trough_time_idx"])} scaled')
    if weak:
        cfac, n, bad, r1, r2 = weak
        exp = 'the same' if not bad.endswith('slope') else f'{float(r1[bad]) * cfac!r}'
        return cfac, (f'waveform {n}: scaling the batch by c = {_fmt_c(cfac)} changes {bad} from {float(r1[bad])!r} to '
                      f'{float(r2[bad])!r} (expected {exp}); peak {float(r1["peak_val"])!r} / trough {float(r1["trough_val"])!r} unscaled')
    return None


def oracle(arr, kw, k, rng=None, form=None):
    """C14 on the real code for one batch (N, T, C).  None when every law holds, else a description."""
    arr = np.asarray(arr)
    N, T, C = arr.shape
    xs = [_clean(arr[n]) for n in range(N)]
    in_domain = not any(_first_sample_tie(x) for x in xs) and k < T
    df, err = _features(arr, _form=form, **kw)
    if not in_domain:
        return None                       # outside the property (the code raises there; compared by the correspondence only)
    if df is None:
        return f'feature extraction raised ({err}) although no waveform has its largest deflection on sample 0 and offset {k} < T = {T}'
    if len(df) != N:
        return f'{len(df)} rows for {N} waveforms'
    if not _peak_traces_ok(arr, df):
        return 'return_peak_channel=True: the returned traces are not the traces of the reported peak channels'
    for n in range(N):
        msg = _row_laws(xs[n], df.iloc[n], k, T)
        if msg:
            return f'waveform {n}: {msg}'
    weak_msg = None
    fs_ = float(kw.get('fs', DEFAULT_FS))
    for n in range(N):
        msg = _derived_laws(df.iloc[n], fs_, np.iinfo(arr.dtype).max if arr.dtype.kind == 'i' else None)
        if msg:
            weak_msg = f'waveform {n}: {msg}'      # reported only when no index / value law is broken (below)
            break
    # the same values in the plain form (float64 for integer counts, C order, keywords, Python scalars) give the same features
    if form not in (None, PLAIN_FORM) or arr.dtype.kind == 'i':
        ref_arr = arr.astype(np.float64) if arr.dtype.kind == 'i' else arr
        dr, er = _features(ref_arr, **kw)
        if dr is None:
            return f'the same values as a plain C-ordered {ref_arr.dtype} array with keyword arguments raise ({er})'
        for n in range(N):
            bad = _same(df.iloc[n], dr.iloc[n], IDX_COLS)
            if bad:
                return (f'waveform {n}: {bad} is {float(df.iloc[n][bad])!r} for the call form {form} on dtype {arr.dtype} and '
                        f'{float(dr.iloc[n][bad])!r} for the same values as a plain C-ordered {ref_arr.dtype} array with keyword arguments')
    # scaling by c > 0, over many decades
    sv = _scale_laws(arr, kw, df, form)
    if sv:
        return sv[1]
    # batch independence
    if N > 1:
        for n in range(N):
            d1, e1 = _features(arr[n:n + 1], _form=form, **kw)
            if d1 is None:
                return f'waveform {n} alone raises ({e1}) but not inside the batch'
            bad = _same(df.iloc[n], d1.iloc[0], IDX_COLS)
            if bad:
                return f'waveform {n}: {bad} is {float(df.iloc[n][bad])} in the batch and {float(d1.iloc[0][bad])} alone'
    # channel permutation (only when the maximal channel is unique in every waveform)
    if C > 1 and all(_unique_max_channel(arr[n]) for n in range(N)):
        rng = rng or np.random.default_rng(0)
        for _ in range(2):
            perm = rng.permutation(C)
            dp, ep = _features(arr[:, :, perm], _form=form, **kw)
            if dp is None:
                return f'permuting the channels by {perm.tolist()} makes the extraction raise ({ep})'
            for n in range(N):
                bad = _same(df.iloc[n], dp.iloc[n], [c for c in IDX_COLS if c != 'peak_trace_idx'])
                if bad:
                    return f'waveform {n}: permuting the channels by {perm.tolist()} changes {bad}'
                if int(perm[int(dp.iloc[n]['peak_trace_idx'])]) != int(df.iloc[n]['peak_trace_idx']):
                    return f'waveform {n}: after permuting the channels by {perm.tolist()} the peak channel is not the same physical channel'
    return weak_msg


def _fails(arr, kw, k, form=None):
    try:
        return oracle(arr, kw, k, form=form)
    except Exception as e:
        return f'oracle raised {type(e).__name__}: {e}'


def _sev(msg):
    """2 = an index / value column or a raise; 1 = only a derived column (ratio, duration, slope) under scaling"""
    if not msg:
        return 0
    return 1 if ('derived column ' in msg or any(f'changes {c} ' in msg for c in DER_COLS + ['peak_to_trough_ratio_log'])) else 2


def _dyadic_unit(arr):
    """largest power of two u such that every finite sample of `arr` is an integer multiple of u (1.0 for integer dtypes / all-zero)"""
    if arr.dtype.kind != 'f':
        return 1.0
    v = np.abs(arr[np.isfinite(arr) & (arr != 0)].astype(np.float64))
    if v.size == 0:
        return 1.0
    m, e = np.frexp(v)                                   # v = m * 2^e, m in [0.5, 1)
    mi = (m * 2.0 ** 53).astype(np.int64)                # integer mantissa
    tz = np.array([(int(x) & -int(x)).bit_length() - 1 for x in mi])      # trailing zero bits
    return float(2.0 ** int((e.astype(np.int64) - 53 + tz).min()))


def _shrink(arr, kw, k, form=None):
    """Greedy reduction of a failing batch (never to a weaker kind of failure): single waveform, fewer channels, shorter
    window, smaller numbers."""
    msg = _fails(arr, kw, k, form)
    sev = _sev(msg)
    improved = True
    while improved:
        improved = False
        N, T, C = arr.shape
        cands = []
        if N > 1:
            cands += [arr[n:n + 1] for n in range(N)] + [np.delete(arr, n, axis=0) for n in range(N)]
        if C > 1:
            cands += [np.delete(arr, c, axis=2) for c in range(C)]
        if T > max(k + 1, 10):
            cands += [arr[:, 1:, :], arr[:, :-1, :]] + [np.delete(arr, t, axis=1) for t in range(1, T - 1)][:60]
        for cand in cands:
            m2 = _fails(cand, kw, k, form)
            if _sev(m2) >= sev:
                arr, msg, improved = cand, m2, True
                break
    unit = _dyadic_unit(arr)                  # samples are integers x unit (a power of two): shrink the integers, keep the unit
    for div in (1000, 100, 10, 4, 2):        # smaller magnitudes
        with np.errstate(all='ignore'):
            cand = (np.where(np.isnan(arr), np.nan, np.trunc(arr / unit / div) * unit) + 0.0).astype(arr.dtype)
        m2 = _fails(cand, kw, k, form)
        if _sev(m2) >= sev:
            arr, msg = cand, m2
    return arr, msg


def search(ctx, reasons):
    cands = []
    for m in ctx.mismatches[:60]:
        i = m['case'].get('case')
        if i is not None:
            cands.append(gen_batch(ctx.subrng(1, i), ctx.quick))
    n_extra = ctx.n(500, 3000)
    best, nfound = None, 0
    t_start = __import__('time').time()
    for j in range(len(cands) + n_extra):
        g = cands[j] if j < len(cands) else gen_batch(ctx.subrng(2, j), True)
        msg = _fails(g['arr'], g['kw'], g['k'], g['form'])
        if msg:
            arr, msg = _shrink(g['arr'], g['kw'], g['k'], g['form'])
            size = (-_sev(msg), arr.size)
            if best is None or size < best[0]:
                best = (size, arr, g, msg)
            if size <= (-2, 40):
                break
            nfound += 1
        if best and (j >= len(cands) + 50 or nfound >= 25):
            break
        if __import__('time').time() - t_start > 600:
            break
    if not best:
        for j, r in getattr(ctx, 'scale_failures', []):
            return {'input': {'generator': 'harness/props/c14.py scale_batch(seed, j)', 'seed': ctx.seed, 'j': j,
                              'what': 'a batch of 66 000 - 70 000 waveforms drawn with repetition from a pool of 160 short waveforms'},
                    'observed': r, 'expected': 'C14: features do not depend on the rest of the batch; extraction succeeds',
                    'how': 'python: harness/props/c14.py scale_oracle(seed, j)'}
        return None
    _, arr, g, msg = best
    form = g['form']
    for simpler in (PLAIN_FORM, dict(form, layout='C'), dict(form, spelling='keywords')):   # the plainest form that still fails
        m2 = _fails(arr, g['kw'], g['k'], simpler)
        if _sev(m2) >= _sev(msg):
            form, msg = simpler, m2
            break
    g = dict(g, form=form)
    inp = {'arr_in (wav, time, trace)': [[[None if math.isnan(v) else v for v in row] for row in w] for w in arr.tolist()],
           'dtype': str(arr.dtype), 'kwargs': g['kw'], 'idx_from_trough': g['k'], 'form': g['form']}
    sv = _scale_laws(arr, g['kw'], None, g['form'])
    if sv and sv[1] == msg:               # the broken law is the scaling law: name the factor
        inp['scale_factor_c'] = sv[0]
        inp['scale_factor_c_exact'] = _fmt_c(sv[0])
    return {'input': inp,
            'observed': msg,
            'expected': 'C14: extraction succeeds when no largest deflection is on sample 0; peak = first global |extremum| (or the documented '
                        'trough swap for positive peaks with peak/trough <= 1.5); tip < peak <= trough; half-peak points are the nearest samples '
                        'within half the peak; recovery index = trough + offset, or T-1 beyond the end; scaling by c>0 scales values only; channel '
                        'permutation only permutes peak_trace_idx; features do not depend on the rest of the batch',
            'how': 'python: harness/props/c14.py oracle(np.array(arr_in, dtype), kwargs, idx_from_trough) -> '
                   'ibldsp.waveforms.compute_spike_features in the call form `form` (dtype, memory layout, positional/keyword spelling, scalar types), '
                   'and again on arr_in * c for c in SCALE_FACTORS '
                   '(scale_factor_c, when present, is the factor that breaks the scaling law)'}


def replay(ctx, rep):
    i = rep['input']
    if str(i.get('generator', '')).endswith('scale_batch(seed, j)'):
        r = scale_oracle(int(i['seed']), int(i['j']))
        print('oracle:', r)
        return r is not None
    arr = np.array([[[np.nan if v is None else v for v in row] for row in w] for w in i['arr_in (wav, time, trace)']],
                   dtype=np.dtype(i['dtype']))
    form = i.get('form')
    r = _fails(arr, i['kwargs'], i['idx_from_trough'], form)
    print('oracle:', r)
    if r is None and i.get('scale_factor_c'):      # the recorded factor alone
        c = float(i['scale_factor_c'])
        d1, _ = _features(arr, _form=form, **i['kwargs'])
        d2, _ = _features(arr * arr.dtype.type(c), _form=form, **i['kwargs'])
        if d1 is not None and (d2 is None or any(_same(d1.iloc[n], d2.iloc[n], [x for x in IDX_COLS if x in INT_COLS]) for n in range(len(d1)))):
            r = f'scaling by {c} changes an index'
            print('oracle:', r)
    return r is not None


# ---------------------------------------------------------------------------------------------
# known findings (integer-typed waveforms)
# ---------------------------------------------------------------------------------------------
def _demo_int_min():
    """int16 counts with a saturated sample -32768: np.abs(-32768) overflows to -32768, the sample is not seen as the extremum."""
    x = np.zeros((1, 12, 1), np.int16)
    x[0, 5, 0], x[0, 7, 0] = -32768, 100
    df, err = _features(x)
    return bool(df is not None and int(df['peak_time_idx'].iloc[0]) != 5)


def _demo_int16_slope():
    """int16 counts, peak 30000 and tip -10000: peak_val - tip_val = 40000 wraps in int16, the depolarisation slope changes sign."""
    x = np.zeros((1, 12, 1), np.int16)
    x[0, 3, 0], x[0, 6, 0] = 10000, -30000
    df, err = _features(x)
    ref, _ = _features(x.astype(np.float64))
    return bool(df is not None and ref is not None
                and float(df['depolarisation_slope'].iloc[0]) != float(ref['depolarisation_slope'].iloc[0]))


def known_findings(ctx):
    return {'int-min-sample-abs-overflow': _demo_int_min, 'int16-slope-numerator-overflow': _demo_int16_slope}
