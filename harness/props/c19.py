"""C19 — Clock synchronisation recovers the affine map and only true event pairs (ibldsp.utils.sync_timestamps).

Ties between the code and the Lean models `IblVerif.SyncTs` (lean/IblVerif/Model/SyncTs.lean, Model/SyncTsFull.lean):

* exact, matching passes: the index pairs returned by `sync_timestamps(..., return_indices=True)` against `SyncTs.sync`, the
  model of the two matching passes over exact rationals, with the coarse offset `delta_t` and the intermediate map `fcn_a2b`
  recomputed by the harness with the calls the code makes (`_coarse`, `_fit`) and handed over as exact rationals (every float64
  IS a dyadic rational): no tolerance, events planted exactly at the threshold.
* closed model: `SyncTs.syncClosedF` computes EVERYTHING from (tsa, tsb, tbin, linear) — histograms, cross-correlation, first
  maximum, parabolic refinement, lag origin, threshold, both passes, np.polyfit as normal equations, interp1d as chord, drift —
  and is compared with the real call: index pairs exactly (outside a float-sensitivity guard), drift_ppm, the returned map at
  query points inside / outside the matched range and delta_t to stated tolerances.
* translator tie (harness/tiespecs/c19.py, lean/IblVerif/Tie/C19.lean): threshold = tbin, drift_ppm = ab[0]*1e6 and the order of
  the external calls of _interp_fcn per mode are re-read from the source text on every run and proved equal to the model's.
* numeric (what the theorems do not carry: recovery rate, millisecond tolerance, ppm): an oracle with ground truth on the
  property's own input domain.
"""
import concurrent.futures
import hashlib
import inspect
import signal
import threading
import warnings

import numpy as np

ID = 'C19'
DRIVER = 'C19'
LEAN_TARGETS = ['IblVerif.Properties.C19']
THEOREMS = [
    'IblVerif.C19.bin_index_in_range',
    'IblVerif.C19.nbins_prefix_counterexample',
    'IblVerif.C19.parabolic_peak_within_half_bin',
    'IblVerif.C19.matching_injective',
    'IblVerif.C19.pass1_duplicate_counterexample',
    'IblVerif.C19.pairs_within_threshold',
    'IblVerif.C19.separation_of_affine',
    'IblVerif.C19.pass1_only_true',
    'IblVerif.C19.pass1_sound',
    'IblVerif.C19.pass1_sound_affine',
    'IblVerif.C19.pass2_sound',
    'IblVerif.C19.sync_exact_pairs',
    'IblVerif.C19.interp_extrapolation_counterexample',
    'IblVerif.C19.fit_exact_on_collinear',
    'IblVerif.C19.lsq_minimiser_on_collinear',
    'IblVerif.C19.drift_and_linear_map_exact',
    'IblVerif.C19.interp_exact_on_collinear',
    # closed model (coarse offset, fit and interpolant inside the model)
    'IblVerif.C19.corr_peak_is_first_max',
    'IblVerif.C19.coarse_offset_within_half_bin',
    'IblVerif.C19.coarse_offset_exact_on_shifted_copy',
    'IblVerif.C19.closed_is_sync',
    'IblVerif.C19.closed_matching_injective',
    'IblVerif.C19.closed_exact_copy',
    'IblVerif.C19.fit_is_normal_equations',
    'IblVerif.C19.closed_map_exact_on_collinear',
    'IblVerif.C19.interp_through_samples',
    'IblVerif.C19.linear_map_increasing',
]
RULE = ('event trains built from a ground truth (true event times t_e, b = (1+ppm*1e-6)*t + offset, per-side jitter, '
        'events deleted per side), all times rounded to the 2^-20 s grid (exact float64): '
        '"domain" = the property quantifier (30..300 events boundary-biased to 30/31/299/300, gaps i.i.d. in [0.5,10] s '
        '(uniform, a power-law biased to short gaps, or a random mix of the end points 0.5 and 10 with uniform ones; trains that a '
        'non-zero shift maps onto themselves for more than 40 % of the events are resampled: periodic trains are ambiguous, not "irregular"), drift in {-100,100,0,U(-100,100)} ppm, offset in '
        '{0,+-0.05,+-1,+-60,+-300,U(-300,300)} s, 0..5 events missing per side at the start / end / adjacent / the same on both '
        'sides / random, jitter amplitude per side in {0,1e-5,1e-4} s, both modes); "corner" = 280..300 events, gaps U(9,10) s with '
        'sprinkled 0.5 s and 10 s gaps, +-100 ppm (drift*duration > tbin); "intspan" / "intspan_domain" = total span a whole number of seconds (F16; the second inside the property domain); '
        '"dense" = gaps 0.01..0.3 s (several candidates per window: exercises the used/nearest rules, duplicate b indices '
        'and a large second pass; outside the property domain, model comparison only); "dyadic" = tbin = 1/8, times on the '
        '2^-10 grid, events planted exactly at the threshold on either side (all float operations exact); "small" = 0..5 '
        'events; "tbin" = other bin lengths.  "intsec" = whole-second trains (integer gaps, half with tbin = 1), "f32safe" = float32-exact trains (2^-10 grid below 4096 s without drift, or 2^-16 grid below 128 s with drift and jitter): the carriers of the dtype forms.  Every train is run in both modes, in a drawn input form (see ASSUMPTIONS), under one of four call protocols (single, repeat, mutate_returns, interleave; see run_sequence).  A case is non-trivial when at least one '
        'event is unmatched or matched in the second pass or a window held several candidates; distinct by the digest '
        'of the two time vectors + mode + tbin.  The closed model (everything computed from (tsa, tsb, tbin, linear)) is run on every '
        'train of at most 80 events in both modes and on the larger ones in one mode (alternating with the key), plus "special" trains '
        'aimed at the coarse step: exact copies shifted by a whole number of bins (tbin 1/8, 1/4: delta_t = shift, pairs (i,i), drift 0 '
        'and map x - shift demanded EXACTLY, theorem closed_exact_copy), decimal trains with events ON bin boundaries (tbin = 0.1, whole '
        'milliseconds), several events per bin, events one grid step either side of a boundary, nearly periodic trains (several lags '
        'with the maximal correlation), 1..3 events.  "externals": interp1d / np.polyfit themselves against the model\'s chord / normal '
        'equations on exact dyadic samples (sorted and unsorted, queries at the samples, between, far outside).')
ASSUMPTIONS = [
    'input forms: the form (dtype of tsa/tsb incl. mixed, strided / read-only / list layout, keyword vs positional spelling in the '
    'order (tsa, tsb, tbin, return_indices, linear), tbin as omitted / float / np.float64 / int / np.int64 / np.uint8, the '
    'return_indices=False entry) is drawn independently of the values; integer dtypes only for whole-second trains, float32 only for '
    'float32-exact trains, so every form denotes the same mathematical values.  Python lists are not accepted by the API '
    '(AttributeError: no .shape) — counted under form_list_unsupported, not compared; float16 is rejected by numpy.linalg (not generated)',
    'known finding unsigned-negative-offset: for unsigned integer arrays with a matched b time smaller than its a time the comparison of '
    'drift / mapping with the plain form and the oracle are skipped (the index pairs are still compared with the model)',
    'the model is a pure function of (tsa, tsb, tbin, linear); the code is called without defensive copies and about half of the '
    'cases run a call sequence on the SAME argument objects (three calls in a row; or calls on other trains of the same lengths and '
    'end points plus parabolic_max interleaved between two calls): every call must return the model result of the ORIGINAL values '
    '(index pairs; drift and mapping equal to the first call) and pass the oracle.  An argument overwritten in place is only a tag '
    '(info_argument_modified_in_place; it triggers a follow-up call on the same objects), and the protocol that overwrites the '
    'returned ia/ib between calls is informational (tag info_result_depends_on_returned_arrays): neither is a demand of C19',
    'first tie (SyncTs.sync): delta_t (peak of scipy.signal.correlate through parabolic_max) and the intermediate fcn_a2b (np.polyfit / '
    'scipy interp1d) are inputs of the model; the harness recomputes them with the same calls as the code, a divergence '
    'shows up as an index-pair disagreement.  Second tie (SyncTs.syncClosedF): nothing is an input, the harness copies only feed the '
    'float-sensitivity guard',
    'closed model, what is compared and when: the model works over exact rationals with the binning quotients (t - tmin)/tbin, floor '
    'and ceil executed in IEEE double precision (Lean Float) exactly as NumPy does; scipy.signal.correlate is read as its textbook sum '
    '(on 0/1 histograms a coincidence count).  (1) ties > 1 = the maximal correlation is attained at several lags: the code\'s '
    'floating-point (FFT) correlation may prefer any of them, not compared (tag closed_corr_tie); (2) delta_t must agree with the '
    'double-precision value to 1e-9 s; (3) index pairs are compared exactly unless a decision of the matching lies within 1e-7 s of its '
    'boundary (tag closed_float_sensitive: the exact delta_t / fitted map differ from the double-precision ones by ~1e-13 / ~1e-10 s); '
    '(4) drift_ppm to 1e-3 ppm and the returned map at 9 query points (matched events, midpoints, 3.7 s before the first and 11.3 s '
    'beyond the last event) to 1e-8 s, only when the pairs agree and no array is float32 (the code then rounds in single precision; '
    'with float32 arrays the pairs are compared only when delta_t agrees); (5) fewer than two distinct matched abscissae: the '
    'model says `undetermined` (NumPy RankWarning / SciPy error or nan), not compared.  The deviations actually seen are written '
    'to the evidence on every run',
    'the theorems about the coarse step are about the binning over the rationals (SyncTs.coarse); the driver reports for every case '
    'whether it puts every event in the same bin as the double-precision binning: it must whenever no quotient (t - tmin)/tbin is '
    'within 1e-9 (relative) of an integer (tag closed_ratbins_agree / closed_ratbins_differ; whole-second or millisecond trains with '
    'tbin = 0.1, whose double is a little above 1/10, legitimately differ)',
    'the model compares exact rationals, the code compares float64 differences: a case is compared only when it is '
    'exact-dyadic (all values multiples of 2^-30, so every float operation of the matching is exact) or when no comparison '
    'of the matching lies within 1e-9 s of its decision boundary (threshold or tie); skipped cases are counted under the '
    'tag float-sensitive',
    '"irregular spacing" is made precise as: no shift of the train by a non-zero lag maps more than half of its events onto '
    'events of the same train (props/c19.py:ambiguity <= 0.5; generated trains stay below 0.4).  A (nearly) periodic train '
    'with events missing is matched equally well one period off — inherent ambiguity, not demanded; the shrinker of the '
    'failing-input search respects the same predicate (in_domain)',
    'numeric oracle (partial): every returned pair true, >= 95 % of the true pairs returned, |f(t) - true(t)| <= 1 ms at '
    'held-out times (the true A-time of every event missing on either side, at any position incl. 0, 1, n-2, n-1, and 5 random times; '
    'a non-finite value of the map there is a failure); '
    'in interpolating mode a held-out time up to 60 s OUTSIDE the range of the matched a events is allowed 1 ms + J*(1 + 2*D/gap) '
    '(chord through the two end pairs `gap` apart, each within the jitter J of the true line, D = distance beyond the end pair), '
    '|drift - true| <= 0.05 ppm + the worst-case least-squares slope error for the bounded jitter of the case '
    '(J * sum|x - mean| / sum (x - mean)^2)',
    'a non-finite intermediate map (interp1d on fewer than two first-pass matches returns nan; only trains of 2-3 events) has no '
    'rational value: such cases are counted under the tag nonfinite_intermediate_map and not compared',
    'known finding interp-extrapolation (see known_findings): the oracle is not applied to linear=False when a true pair '
    'lies outside the coarse window |tsa[i] - delta_t - tsb[j]| < tbin (the model comparison still is)',
]
TRUSTED = [
    'first tie: harness recomputation of delta_t and of the intermediate map (props/c19.py:_coarse, _fit) with the calls the code makes; '
    'second tie (closed model): nothing recomputed, the copies only feed the float-sensitivity guard',
    'scipy.signal.correlate(x, y, "full")[k] = sum_l x[l]*y[l-k+N-1] (textbook definition; its FFT evaluation is compared through '
    'delta_t on every case, deviation ~1e-13 s)',
    'np.polyfit returns a least-squares minimiser (the theorem fit_exact_on_collinear is about any minimiser / the normal equations; '
    'the model\'s normal-equation solution is compared with np.polyfit itself on every run: externals sweep, drift_ppm, returned map)',
    'scipy interp1d(kind=linear, fill_value=extrapolate) sorts its samples and evaluates the chord through the two neighbouring ones '
    '(compared with the model\'s interpEval on every run: externals sweep, returned map)',
    'Lean Float = IEEE double: -, /, floor, ceil of the binning quotients agree bit for bit with NumPy',
    'translator tie: harness/pyfn2lean.py reads threshold, drift_ppm and the calls of _interp_fcn off the source text; a tie that '
    'does not check only escalates the correspondence',
]

GRID = 2.0 ** 20


def _sync():
    from ibldsp.utils import sync_timestamps
    return sync_timestamps


def fresh_state():
    """Re-import ibldsp.utils so that module-level caches start empty: a replayed call sequence must fail on its own, not
    because of calls made earlier in the process."""
    import importlib
    import sys
    m = sys.modules.get('ibldsp.utils')
    if m is not None:
        importlib.reload(m)


def default_tbin():
    return float(inspect.signature(_sync()).parameters['tbin'].default)


# ---------------------------------------------------------------------------------------------
# the external steps, with the same calls as the code
# ---------------------------------------------------------------------------------------------
def _coarse(tsa, tsb, tbin):
    import scipy.signal
    from ibldsp.utils import parabolic_max
    tmin = np.min([np.min(tsa), np.min(tsb)])
    tmax = np.max([np.max(tsa), np.max(tsb)])
    x = np.zeros(int(np.ceil((tmax - tmin) / tbin)) + 1)
    y = np.zeros_like(x)
    x[np.int32(np.floor((tsa - tmin) / tbin))] = 1
    y[np.int32(np.floor((tsb - tmin) / tbin))] = 1
    return (parabolic_max(scipy.signal.correlate(x, y, mode="full"))[0] - x.shape[0] + 1) * tbin


def _fit(tsa, tsb, ib, linear):
    import scipy.interpolate
    ab = np.polyfit(tsa[ib >= 0], tsb[ib[ib >= 0]] - tsa[ib >= 0], 1)
    if linear:
        return lambda x: x * (1 + ab[0]) + ab[1]
    return scipy.interpolate.interp1d(tsa[ib >= 0], tsb[ib[ib >= 0]], fill_value="extrapolate")


class DidNotTerminate(Exception):
    """The call used more than CALL_CPU_S seconds of CPU (a normal call takes milliseconds)."""


CALL_CPU_S = 5.0


def _raise_hang(signum, frame):
    raise DidNotTerminate()


PROTOCOLS = ('single', 'repeat', 'mutate_returns', 'interleave')

# ---------------------------------------------------------------------------------------------
# input forms: the same mathematical values / the same call in another legitimate representation
# ---------------------------------------------------------------------------------------------
FORM0 = {'dtype': 'float64', 'layout': 'contiguous', 'spelling': 'keywords', 'tbin': 'omitted', 'noidx': False}
UNSIGNED = ('uint16', 'uint32', 'uint64')


def form_text(form):
    return ' '.join(f'{k}={form[k]}' for k in ('dtype', 'layout', 'spelling', 'tbin')) + (' +return_indices=False call' if form.get('noidx') else '')


def draw_form(rng, kind, tbin):
    """The FORM is drawn independently of the VALUE; the value class only decides which dtypes are lossless."""
    form = dict(FORM0)
    if rng.integers(0, 4) == 0:          # a quarter of the cases keep the plain form
        return form
    if kind == 'intsec':                 # whole seconds: every integer and float dtype holds the values exactly
        form['dtype'] = str(rng.choice(['int64', 'int32', 'int16', 'uint16', 'uint32', 'uint64', 'float32', 'float64', 'mixed_int64_float64']))
    elif kind == 'f32safe':              # multiples of 2^-10 below 4096 (or of 2^-16 below 128): exact in float32
        form['dtype'] = str(rng.choice(['float32', 'float32', 'mixed_float32_float64', 'float64']))
    form['layout'] = str(rng.choice(['contiguous', 'strided', 'readonly', 'strided', 'list'], p=[0.3, 0.3, 0.25, 0.1, 0.05]))
    form['spelling'] = str(rng.choice(['keywords', 'positional']))
    if tbin is None:
        form['tbin'] = str(rng.choice(['omitted', 'float', 'np.float64'])) if form['spelling'] == 'keywords' else str(rng.choice(['float', 'np.float64']))
    else:
        opts = ['float', 'np.float64'] + (['int', 'np.int64', 'np.uint8'] if float(tbin).is_integer() else [])
        form['tbin'] = str(rng.choice(opts))
    form['noidx'] = bool(rng.integers(0, 4) == 0)
    return form


def dtypes_of(form):
    d = form['dtype']
    if d.startswith('mixed_'):
        _, da, db = d.split('_')
        return da, db
    return d, d


def plain_args(tsa, tsb, form):
    """Contiguous arrays of the form's dtypes (what the harness feeds to its own _coarse / _fit)."""
    da, db = dtypes_of(form)
    return np.asarray(tsa, float).astype(da), np.asarray(tsb, float).astype(db)


def form_args(tsa, tsb, form):
    """The argument objects handed to the code, in the form's dtype and memory layout."""
    out = []
    for x in plain_args(tsa, tsb, form):
        if form['layout'] == 'strided':
            big = np.full(3 * x.size + 1, 77, dtype=x.dtype)
            big[1::3] = x
            x = big[1::3]
        elif form['layout'] == 'readonly':
            x = x.copy(); x.setflags(write=False)
        elif form['layout'] == 'list':
            x = x.tolist()
        out.append(x)
    return out


def tbin_obj(tbin, form):
    tb = default_tbin() if tbin is None else tbin
    if form['tbin'] == 'omitted':            # left out when it is the default, otherwise a Python float
        return None if tbin is None else float(tb)
    return { 'float': float(tb), 'np.float64': np.float64(tb), 'int': int(tb), 'np.int64': np.int64(tb),
            'np.uint8': np.uint8(tb)}[form['tbin']]


def invoke(f, A, B, tbin, linear, form, return_indices=True):
    """The call in the form's spelling: keywords, or positionally in the order of the documented signature
    sync_timestamps(tsa, tsb, tbin=0.1, return_indices=False, linear=False)."""
    tb = tbin_obj(tbin, form)
    if form['spelling'] == 'positional':
        return f(A, B, tb, return_indices, linear)
    kw = {} if tb is None else {'tbin': tb}
    return f(A, B, return_indices=return_indices, linear=linear, **kw)


def call_text(tbin, linear, form, return_indices=True):
    tb = tbin_obj(tbin, form)
    tbs = '' if tb is None else {'float': repr(float(tb)), 'np.float64': f'np.float64({float(tb)!r})', 'int': str(tb),
                                 'np.int64': f'np.int64({tb})', 'np.uint8': f'np.uint8({tb})', 'omitted': repr(float(tb))}[form['tbin']]
    if form['spelling'] == 'positional':
        return f'sync_timestamps(tsa, tsb, {tbs}, {return_indices}, {linear})'
    return f'sync_timestamps(tsa, tsb, return_indices={return_indices}, linear={linear}' + (f', tbin={tbs}' if tbs else '') + ')'


def in_unsigned_class(tsa, tsb, true, form):
    """Known finding `unsigned-negative-offset`: an unsigned integer dtype and a matched b time smaller than its a time."""
    da, db = dtypes_of(form)
    if da not in UNSIGNED and db not in UNSIGNED:
        return False
    if not true:
        return bool(np.min(tsb) < np.max(tsa)) if (len(tsa) and len(tsb)) else False
    tp = np.array(true)
    return bool(np.any(np.asarray(tsb)[tp[:, 1]] < np.asarray(tsa)[tp[:, 0]]))



def proto_of(key, linear):
    """Call protocol of a generated case: three quarters of the cases exercise state carried between calls."""
    return PROTOCOLS[(int(key) + (0 if linear else 1)) % len(PROTOCOLS)]


def _call(A, B, tbin, linear, form=FORM0, return_indices=True):
    """One bounded call on the argument OBJECTS A, B (no copies) -> (error name or None, fcn, drift, ia, ib)."""
    import scipy.interpolate  # noqa  imported by the code on first use: keep import time out of the bound
    import scipy.signal  # noqa
    f = _sync()
    timed = threading.current_thread() is threading.main_thread()
    if timed:
        old = signal.signal(signal.SIGVTALRM, _raise_hang)
        signal.setitimer(signal.ITIMER_VIRTUAL, CALL_CPU_S)
    try:
        with warnings.catch_warnings():
            warnings.simplefilter('ignore')
            r = invoke(f, A, B, tbin, linear, form, return_indices)
            if not isinstance(r, tuple) or len(r) != (4 if return_indices else 2):
                return f'WrongReturnArity(got {len(r) if isinstance(r, tuple) else type(r).__name__} values for return_indices={return_indices})', None, None, None, None
            fcn, drift, ia, ib = r if return_indices else (r[0], r[1], None, None)
    except Exception as e:  # noqa
        return type(e).__name__, None, None, None, None
    finally:
        if timed:
            signal.setitimer(signal.ITIMER_VIRTUAL, 0)
            signal.signal(signal.SIGVTALRM, old)
    return None, fcn, float(drift), ia, ib


def _canon(err, ia, ib):
    if err is not None:
        return f'err {err}'
    return 'ok ia=' + (','.join(str(int(i)) for i in ia) or '-') + ' ib=' + (','.join(str(int(i)) for i in ib) or '-')


def run_sequence(tsa, tsb, tbin, linear, proto='single', form=FORM0):
    """Run the call protocol on ONE pair of argument objects and return
         results: [(canonical string, fcn, drift)] of every call of sync_timestamps(A, B, ...) in the sequence,
         steps:   the concrete call sequence as text,
         purity:  None, or which argument was modified in place by which call.
    The model is a pure function of (tsa, tsb, tbin, linear): every call of the sequence must give its result.
      single          one call (followed by a second one on the same objects if the first modified an argument in place)
      repeat          three calls with the same argument objects
      mutate_returns  INFORMATIONAL ONLY (only the first call is a demand): call; overwrite the returned index arrays in
                      place (ia[:] = -7, ib *= 2; ib += 1); call; again; call
      interleave      call; sync_timestamps on OTHER trains of the same lengths and the same first/last event (interior
                      events moved by 0.2 s; then tsa against tsa + 1), parabolic_max on a scratch vector, all on their own
                      copies; call again
    `form` = representation of the values and spelling of the call (see draw_form); with form['noidx'] the sequence also
    contains the call with return_indices=False, whose (fcn, drift) must be those of the first call.
    """
    from ibldsp.utils import parabolic_max
    A, B = form_args(tsa, tsb, form)                                     # the argument objects of every call
    refA, refB = np.array(tsa, dtype=float), np.array(tsb, dtype=float)
    results, steps, purity = [], [], None
    if form != FORM0:
        da, db = dtypes_of(form)
        lay = {'contiguous': '', 'strided': '   # as every third element of a larger buffer (non-contiguous view)',
               'readonly': '   # with .setflags(write=False)', 'list': '.tolist()'}[form['layout']]
        steps.append(f"tsa = tsa.astype('{da}'){lay}; tsb = tsb.astype('{db}'){lay}")

    def main_call():
        nonlocal purity
        k = len(results) + 1
        err, fcn, drift, ia, ib = _call(A, B, tbin, linear, form)
        steps.append(f'r{k} = ' + call_text(tbin, linear, form))
        results.append((_canon(err, ia, ib), fcn, drift))
        if purity is None:
            for name, X, R in (('tsa', A, refA), ('tsb', B, refB)):
                Xv = np.asarray(X, dtype=float)
                if Xv.shape != R.shape or Xv.tobytes() != R.tobytes():
                    purity = f'argument {name} was modified in place by call r{k}'
        return ia, ib

    ia, ib = main_call()
    if form.get('noidx') and results[0][0].startswith('ok'):
        err, fcn, drift, _, _ = _call(A, B, tbin, linear, form, return_indices=False)
        steps.append(f'r{len(results) + 1} = ' + call_text(tbin, linear, form, False) + '   # (fcn, drift) only: must be those of r1')
        results.append((results[0][0] if err is None else f'err {err}', fcn, drift))
    if proto == 'single' and purity is not None:
        main_call()          # what a user observes of an overwritten argument: the next call on the same objects
    if proto == 'repeat':
        main_call(); main_call()
    elif proto == 'mutate_returns':
        for _ in range(2):
            for nm, r in (('ia', ia), ('ib', ib)):
                if isinstance(r, np.ndarray) and r.size and r.flags.writeable:
                    if nm == 'ia':
                        r[:] = -7
                    else:
                        r *= 2; r += 1
            steps.append(f'r{len(results)}[2][:] = -7; r{len(results)}[3] *= 2; r{len(results)}[3] += 1   # returned index arrays, in place')
            ia, ib = main_call()
    elif proto == 'interleave':
        P, Q = refA.copy(), refB.copy()
        if P.size > 2:
            P[1:-1] += 0.2
        if Q.size > 2:
            Q[1:-1] -= 0.2
        _call(P, Q, tbin, linear)
        steps.append('sync_timestamps(P, Q, ...)   # P, Q: copies of tsa, tsb with the interior events moved by +0.2 / -0.2 s')
        if refA.size:
            _call(refA.copy(), refA.copy() + 1.0, tbin, linear)
            steps.append('sync_timestamps(tsa.copy(), tsa.copy() + 1.0, ...)')
        try:
            parabolic_max(np.array([0.0, 1.0, 3.0, 2.0, 0.0]))
        except Exception:  # noqa
            pass
        steps.append('parabolic_max(np.array([0., 1., 3., 2., 0.]))')
        main_call()
    return results, steps, purity


def demanded(results, proto):
    """The calls of a sequence whose results are demands (for mutate_returns only the first one)."""
    return results[:1] if proto == 'mutate_returns' else results


def _same_map(r1, rk, tsa, tol_ppm=1e-6):
    """Do two results of calls on equal original values carry the same drift and the same mapping?"""
    (_, f1, d1), (_, fk, dk) = r1, rk
    if f1 is None or fk is None:
        return True
    if abs(d1 - dk) > tol_ppm:
        return False
    x = np.array(tsa[:: max(1, len(tsa) // 7)], dtype=float)
    try:
        with warnings.catch_warnings(), np.errstate(all='ignore'):
            warnings.simplefilter('ignore')
            return bool(np.allclose(np.asarray(f1(x), float), np.asarray(fk(x), float), rtol=0, atol=(1e-9 if tol_ppm <= 1e-6 else 1e-6), equal_nan=True))
    except Exception:  # noqa
        return False


def run_impl(tsa, tsb, tbin, linear, proto='single', info=None, form=FORM0):
    """-> (canonical string, fcn, drift) of the call protocol: the result of the first call when every demanded call of the
    sequence returned the same index pairs, drift and mapping; otherwise a string naming the call that deviates.  An argument
    overwritten in place / a result that changes after the returned arrays were overwritten is recorded in `info` (tags), it
    is not a disagreement by itself: only its consequence on the RESULTS of later calls is."""
    results, steps, purity = run_sequence(tsa, tsb, tbin, linear, proto, form)
    if info is not None:
        if purity is not None:
            info.append('info_argument_modified_in_place')
        if proto == 'mutate_returns' and any(r[0] != results[0][0] for r in results[1:]):
            info.append('info_result_depends_on_returned_arrays')
    dem = demanded(results, proto)
    first = dem[0][0]
    for k, r in enumerate(dem[1:], 2):
        if r[0] != first:
            return f'unstable: call r{k} of protocol {proto} returned {r[0]} but call r1 returned {first}', None, None
        if not _same_map(dem[0], r, tsa):
            return (f'unstable: call r{k} of protocol {proto} returned drift {r[2]!r} / another mapping than call r1 '
                    f'(drift {dem[0][2]!r}) on the same arguments'), None, None
    return dem[0]


# ---------------------------------------------------------------------------------------------
# encoding of float64 values as integers over a common power-of-two denominator
# ---------------------------------------------------------------------------------------------
def encode(groups):
    """groups: list of 1-D float sequences -> (K, [comma separated integer strings])"""
    rat = [[float(v).as_integer_ratio() for v in g] for g in groups]
    K = max([d.bit_length() - 1 for g in rat for (_, d) in g] + [0])
    return K, [(','.join(str(n << (K - (d.bit_length() - 1))) for n, d in g) or '-') for g in rat]


# ---------------------------------------------------------------------------------------------
# generator
# ---------------------------------------------------------------------------------------------
def grid(x, g=GRID):
    return np.round(np.asarray(x, dtype=float) * g) / g


def build(spec):
    """spec (ground truth) -> tsa, tsb on the grid, the true pairs and the true map."""
    t = np.asarray(spec['t'], float)
    ka = np.asarray(spec['ka'], int)
    kb = np.asarray(spec['kb'], int)
    alpha = 1 + spec['ppm'] * 1e-6
    g = spec.get('grid', GRID)
    tsa = grid(t[ka] + np.asarray(spec['ea'], float)[ka], g)
    tsb = grid(alpha * t[kb] + spec['off'] + np.asarray(spec['eb'], float)[kb], g)
    pos_b = {int(e): j for j, e in enumerate(kb)}
    true = [(i, pos_b[int(e)]) for i, e in enumerate(ka) if int(e) in pos_b]
    return tsa, tsb, true


AMBIG_MAX = 0.5


def ambiguity(t, tbin=0.1):
    """Largest fraction of the events that a shift of the whole train by one non-zero lag brings back onto events of the
    same train (coincidence within 1.5 bins): 1 for a periodic train, about 1/n for i.i.d. continuous gaps."""
    t = np.asarray(t, float)
    n = t.size
    if n < 2:
        return 0.0
    d = np.abs(t[:, None] - t[None, :])[np.triu_indices(n, 1)]
    h = np.bincount(np.floor(d / tbin + 0.5).astype(int)).astype(float)
    h = np.r_[h, 0.0, 0.0]
    c = h + np.r_[0.0, h[:-1]] + np.r_[h[1:], 0.0]
    return float(np.max(c[2:]) / n) if c.size > 2 else 0.0


def in_domain(spec):
    """The property's quantifier as a predicate on a ground truth (used by the generator and by the shrinker)."""
    t = np.asarray(spec['t'], float)
    n = t.size
    g = np.diff(t)
    return bool(30 <= n <= 300 and np.all(g >= 0.5 - 1e-9) and np.all(g <= 10 + 1e-9) and abs(spec['ppm']) <= 100
                and abs(spec['off']) <= 600 and spec['ja'] <= 1e-4 and spec['jb'] <= 1e-4
                and n - len(spec['ka']) <= 5 and n - len(spec['kb']) <= 5 and ambiguity(t) <= AMBIG_MAX)


def _missing(rng, n, m, pattern):
    if m == 0:
        return np.zeros(0, int)
    if pattern == 0:
        return np.arange(m)
    if pattern == 1:
        return np.arange(n - m, n)
    if pattern == 2:
        s = int(rng.integers(0, n - m + 1))
        return np.arange(s, s + m)
    return np.sort(rng.choice(n, m, replace=False))


def _gaps(rng, corner):
    if corner:
        n = int(rng.choice([300, 300, 299, 280]))
        gaps = rng.uniform(9, 10, n)
        gaps[rng.choice(n, int(rng.integers(5, 70)), replace=False)] = 0.5
        gaps[rng.choice(n, int(rng.integers(0, 60)), replace=False)] = 10.0
        return n, gaps
    n = int(rng.choice([30, 30, 31, 32, 60, 100, 299, 300, int(rng.integers(30, 301)), int(rng.integers(30, 120))]))
    gk = int(rng.integers(0, 4))
    gaps = rng.uniform(0.5, 10, n)
    if gk == 0:      # end points of the allowed spacing mixed with uniform gaps
        sel = rng.integers(0, 3, n)
        gaps = np.where(sel == 0, 0.5, np.where(sel == 1, 10.0, gaps))
    elif gk == 1:    # mostly short
        gaps = 0.5 + 9.5 * rng.uniform(0, 1, n) ** 4
    return n, gaps


def spec_domain(rng, corner=False):
    for _ in range(50):   # "irregular": resample the (rare) trains a shift maps onto themselves
        n, gaps = _gaps(rng, corner)
        if ambiguity(np.cumsum(gaps)) <= AMBIG_MAX - 0.1:
            break
    ppm = float(rng.choice([-100.0, 100.0])) if corner else float(rng.choice([-100.0, 100.0, 0.0, float(rng.uniform(-100, 100))]))
    t = np.cumsum(gaps) + float(rng.choice([0.0, float(rng.uniform(0, 1000))]))
    off = float(rng.choice([0.0, 0.05, -0.05, 1.0, -1.0, 60.0, -60.0, 300.0, -300.0, float(rng.uniform(-300, 300))]))
    ja, jb = (float(x) for x in rng.choice([0.0, 1e-5, 1e-4], 2))
    ma, mb = (int(x) for x in rng.integers(0, 6, 2))
    pat = int(rng.integers(0, 7))
    da = _missing(rng, n, ma, pat if pat < 4 else 3)
    db = da[:mb] if (pat == 4 and mb <= ma) else _missing(rng, n, mb, int(rng.integers(0, 4)))
    if pat == 5 and ma and mb:   # neighbouring events, one seen only by b, the next only by a, the shortest gap apart
        s0 = int(rng.integers(1, n - 2))
        da, db = np.array([s0]), np.array([s0 + 1])
        gaps[s0 + 1] = 0.5
        t = np.cumsum(gaps) + t[0] - gaps[0]
    if pat == 6:   # events missing at the very ends of either side (positions 0, 1, n-2, n-1): held-out events outside the matched range
        ends = [[0], [1], [0, 1], [n - 1], [n - 2, n - 1], [0, n - 1], [n - 2], [1, n - 2], [0, 1, 2], []]
        da = np.array(ends[int(rng.integers(0, len(ends)))], int)
        db = np.array(ends[int(rng.integers(0, len(ends) - 1))], int)
    ka = np.setdiff1d(np.arange(n), da)
    kb = np.setdiff1d(np.arange(n), db)
    return {'t': t, 'ka': ka, 'kb': kb, 'ppm': ppm, 'off': off, 'ja': ja, 'jb': jb,
            'ea': rng.uniform(-ja, ja, n), 'eb': rng.uniform(-jb, jb, n), 'domain': True}


def spec_intspan(rng):
    n = int(rng.integers(5, 60))
    if rng.integers(0, 2):   # identical 1 Hz trains over a whole number of seconds (the F16 witness shape)
        t = np.arange(n, dtype=float)
        ppm, off = 0.0, float(rng.integers(0, 3))
    else:                    # irregular train whose first and last event are whole seconds apart
        t = np.sort(np.r_[0.0, float(rng.integers(n, 10 * n)), rng.uniform(0, n, n - 2) * 3])
        ppm, off = 0.0, 0.0
    return {'t': t, 'ka': np.arange(n), 'kb': np.arange(n), 'ppm': ppm, 'off': off, 'ja': 0, 'jb': 0,
            'ea': np.zeros(n), 'eb': np.zeros(n), 'domain': False}


def spec_intspan_domain(rng):
    """In-domain train (nothing missing, no drift, no offset, no jitter) whose total span is a whole number of seconds."""
    n = int(rng.choice([30, 31, 60, int(rng.integers(30, 301))]))
    gaps = rng.uniform(0.5, 10, n)
    t = grid(np.cumsum(gaps) + float(rng.integers(0, 50)), 1024.0)
    last = np.floor(t[-1] - t[0]) + t[0]
    if last - t[-2] < 0.5:
        last += 1.0
    t[-1] = last
    return {'t': t, 'ka': np.arange(n), 'kb': np.arange(n), 'ppm': 0.0, 'off': 0.0, 'ja': 0.0, 'jb': 0.0,
            'ea': np.zeros(n), 'eb': np.zeros(n), 'domain': True}


def spec_intsec(rng):
    """Whole-second trains (exact in every integer and float dtype): integer gaps, no drift, integer offset, no jitter; times stay
    in [100, 5000] so that int16 / uint16 hold them.  Half of them use tbin = 1 (gaps 5..10 s), the others the default."""
    tb1 = bool(rng.integers(0, 2))
    for _ in range(50):
        n = int(rng.choice([30, 31, 60, 120, 300, int(rng.integers(30, 301))]))
        gaps = rng.integers(5 if tb1 else 1, 11, n).astype(float)
        if ambiguity(np.cumsum(gaps), 1.0 if tb1 else 0.1) <= AMBIG_MAX - 0.1:
            break
    t = np.cumsum(gaps) + float(rng.integers(400, 1000))
    off = float(rng.choice([0, 1, -1, 7, -7, 60, -60, 300, -300]))
    ma, mb = (int(x) for x in rng.integers(0, 6, 2))
    pat = int(rng.integers(0, 4))
    ka = np.setdiff1d(np.arange(n), _missing(rng, n, ma, pat))
    kb = np.setdiff1d(np.arange(n), _missing(rng, n, mb, int(rng.integers(0, 4))))
    return {'t': t, 'ka': ka, 'kb': kb, 'ppm': 0.0, 'off': off, 'ja': 0.0, 'jb': 0.0, 'ea': np.zeros(n), 'eb': np.zeros(n),
            'domain': not tb1, 'grid': 1.0, 'exact': True, 'tbin': 1.0 if tb1 else None}


def spec_f32safe(rng):
    """Trains whose times are exact in float32: (A) multiples of 2^-10 s below 4096 s, no drift, offset on the same grid, or
    (B) multiples of 2^-16 s below 128 s (30..40 events, short gaps), any drift, jitter."""
    if rng.integers(0, 2):
        for _ in range(50):
            n = int(rng.choice([30, 31, 100, 299, 300, int(rng.integers(30, 301))]))
            gaps = grid(rng.uniform(0.5, 10, n), 1024.0)
            if ambiguity(np.cumsum(gaps)) <= AMBIG_MAX - 0.1:
                break
        t = np.cumsum(gaps) + float(rng.integers(0, 100))
        ppm, off, ja, jb, g, exact = 0.0, float(grid(rng.uniform(-60, 60), 1024.0)), 0.0, 0.0, 1024.0, True
    else:
        n = int(rng.integers(30, 41))
        gaps = 0.5 + 2.0 * rng.uniform(0, 1, n) ** 2
        t = np.cumsum(gaps)
        ppm, off = float(rng.choice([-100.0, 100.0, float(rng.uniform(-100, 100))])), float(rng.uniform(-20, 20))
        ja, jb = (float(x) for x in rng.choice([0.0, 1e-5, 5e-5], 2))
        g, exact = 65536.0, False
    ma, mb = (int(x) for x in rng.integers(0, 6, 2))
    ka = np.setdiff1d(np.arange(n), _missing(rng, n, ma, int(rng.integers(0, 4))))
    kb = np.setdiff1d(np.arange(n), _missing(rng, n, mb, int(rng.integers(0, 4))))
    return {'t': t, 'ka': ka, 'kb': kb, 'ppm': ppm, 'off': off, 'ja': ja, 'jb': jb, 'ea': rng.uniform(-ja, ja, n),
            'eb': rng.uniform(-jb, jb, n), 'domain': True, 'grid': g, 'exact': exact}


def spec_dense(rng):
    n = int(rng.integers(4, 70))
    gaps = rng.uniform(0.01, 0.3, n)
    if rng.integers(0, 3) == 0:
        gaps[rng.choice(n, n // 3, replace=False)] += rng.uniform(0.3, 3, n // 3)
    t = np.cumsum(gaps)
    ja, jb = (float(x) for x in rng.choice([0.0, 1e-3, 2e-2, 6e-2], 2))
    ma, mb = (int(x) for x in rng.integers(0, min(n - 2, 12) + 1, 2))
    return {'t': t, 'ka': np.setdiff1d(np.arange(n), _missing(rng, n, ma, 3)), 'kb': np.setdiff1d(np.arange(n), _missing(rng, n, mb, 3)),
            'ppm': float(rng.uniform(-2000, 2000)), 'off': float(rng.uniform(-5, 5)), 'ja': ja, 'jb': jb,
            'ea': rng.uniform(-ja, ja, n), 'eb': rng.uniform(-jb, jb, n), 'domain': False}


def spec_small(rng):
    n = int(rng.integers(2, 6))
    t = np.cumsum(rng.uniform(0.5, 10, n))
    ma, mb = (int(x) for x in rng.integers(0, 2, 2))
    return {'t': t, 'ka': np.setdiff1d(np.arange(n), _missing(rng, n, ma, 3)), 'kb': np.setdiff1d(np.arange(n), _missing(rng, n, mb, 3)),
            'ppm': float(rng.uniform(-100, 100)), 'off': float(rng.uniform(-3, 3)), 'ja': 0, 'jb': 0,
            'ea': np.zeros(n), 'eb': np.zeros(n), 'domain': False}


def case_dyadic(rng):
    """tbin = 1/8, times on the 2^-10 grid, identical trains shifted by a whole number of bins, two events moved to
    exactly +-tbin (strict `<` of the first pass rejects them, `>` of the second keeps them), two more moved to
    +-(tbin - 2^-10), two extra a events exactly tbin away from a matched pair.  Every float operation is exact."""
    n = int(rng.integers(12, 40))
    tbin = 0.125
    t = np.cumsum(rng.integers(5, 60, n) * tbin) + 0.0
    t = t + rng.integers(0, 128, n) / 1024.0
    shift = float(rng.integers(-40, 40)) * tbin
    a = t.copy()
    b = t + shift
    idx = rng.choice(np.arange(1, n - 1), 6, replace=False)
    b[idx[0]] += tbin
    b[idx[1]] -= tbin
    if rng.integers(0, 2):
        b[idx[2]] += tbin - 1 / 1024.0
        b[idx[3]] -= tbin - 1 / 1024.0
    # two extra a events exactly tbin before / after a matched event: outside the strict window of the first pass, and the
    # only b within reach is taken, so they stay unmatched (with `<=` they would take that b a second time)
    a = np.sort(np.r_[a, a[idx[4]] - tbin, a[idx[5]] + tbin])
    order = np.argsort(b)
    return a, b[order], tbin


def make_case(kind, rng):
    """-> dict(tsa, tsb, tbin (None = default), spec or None, true (list of pairs) or None)"""
    tbin = None
    if kind == 'dyadic':
        a, b, tbin = case_dyadic(rng)
        return {'kind': kind, 'tsa': a, 'tsb': b, 'tbin': tbin, 'spec': None, 'true': None}
    if kind == 'empty':
        a = np.cumsum(rng.uniform(0.5, 10, 3))
        which = int(rng.integers(0, 3))
        return {'kind': kind, 'tsa': a[:0] if which != 1 else a, 'tsb': a[:0] if which != 0 else a, 'tbin': None, 'spec': None, 'true': None}
    spec = {'domain': spec_domain, 'corner': lambda r: spec_domain(r, corner=True), 'intspan': spec_intspan, 'intspan_domain': spec_intspan_domain,
            'dense': spec_dense, 'small': spec_small, 'tbin': spec_domain, 'intsec': spec_intsec, 'f32safe': spec_f32safe}[kind](rng)
    if kind == 'tbin':
        tbin = float(rng.choice([0.05, 0.2, 0.125, 0.07]))
        spec['domain'] = False
    if kind == 'intspan':
        spec['grid'] = 1024.0
    if kind == 'intsec':
        tbin = spec['tbin']
    tsa, tsb, true = build(spec)
    return {'kind': kind, 'tsa': tsa, 'tsb': tsb, 'tbin': tbin, 'spec': spec, 'true': true}


KINDS = (['domain'] * 10 + ['corner'] * 2 + ['dense'] * 6 + ['dyadic'] * 2 + ['intspan', 'intspan_domain', 'small', 'tbin', 'tbin', 'empty']
         + ['intsec'] * 2 + ['f32safe'] * 2)


DOMAIN_KINDS = ('domain', 'corner', 'intspan_domain', 'intsec', 'f32safe')


def kind_of(k):
    return KINDS[k % len(KINDS)]


def case_by_key(ctx, k):
    return make_case(kind_of(k), ctx.subrng(19, k))


def form_by_key(ctx, k, linear, tbin):
    return draw_form(ctx.subrng(19, k, 5, int(bool(linear))), kind_of(k), tbin)


# ---------------------------------------------------------------------------------------------
# float sensitivity guard (documented in ASSUMPTIONS)
# ---------------------------------------------------------------------------------------------
def float_margin(tsa, tsb, delta, theta, fa, ib1):
    """Smallest distance (seconds) of any comparison of the matching from its decision boundary."""
    m = np.inf
    d1 = np.abs(tsa[:, None] - delta - tsb[None, :])
    m = min(m, float(np.min(np.abs(d1 - theta)))) if d1.size else m
    for row in d1:
        w = np.sort(row[row < theta])
        if w.size > 1:
            m = min(m, float(w[1] - w[0]))
    if fa is not None:
        ia = np.where(ib1 < 0)[0]
        jb = np.setdiff1d(np.arange(tsb.size), ib1[ib1 >= 0])
        if ia.size and jb.size:
            d2 = np.abs(fa[ia][None, :] - tsb[jb][:, None])
            m = min(m, float(np.min(np.abs(d2 - theta))))
            # the greedy order matters only between finite entries that share a row or a column
            v = np.where(d2 <= theta, d2, np.inf)
            for w in (np.sort(v, axis=0), np.sort(v, axis=1).T):
                if w.shape[0] > 1:
                    with np.errstate(invalid='ignore'):
                        g = w[1:] - w[:-1]
                    g = g[np.isfinite(w[1:])]
                    if g.size:
                        m = min(m, float(np.min(g)))
    return m


# ---------------------------------------------------------------------------------------------
# oracle: the property, on the real code, with the ground truth (independent of the model)
# ---------------------------------------------------------------------------------------------
REC_MIN = 0.95
TOL_T = 1e-3
TOL_PPM0 = 0.05
EXTRAP_MAX_S = 60.0


def in_finding_class(tsa, tsb, true, tbin, linear):
    """Known finding `interp-extrapolation`: interpolating mode and a true pair outside the coarse window."""
    if linear or not true:
        return False
    tb = default_tbin() if tbin is None else tbin
    try:
        delta = _coarse(tsa, tsb, tb)
    except Exception:  # noqa
        return False
    tp = np.array(true)
    return bool(np.any(np.abs(tsa[tp[:, 0]] - delta - tsb[tp[:, 1]]) >= tb))


def _check_result(spec, linear, tsa, true, res, fcn, drift, stats=None):
    """The property on ONE returned (fcn, drift, ia, ib)."""
    if res.startswith('err'):
        return f'sync_timestamps raised {res[4:]}'
    part = dict(p.split('=') for p in res.split()[1:])
    ia = [] if part['ia'] == '-' else [int(x) for x in part['ia'].split(',')]
    ib = [] if part['ib'] == '-' else [int(x) for x in part['ib'].split(',')]
    got = list(zip(ia, ib))
    st = set(true)
    false = [p for p in got if p not in st]
    if false:
        return f'{len(false)} returned index pair(s) are not true correspondences, first (ia, ib) = {false[0]}'
    if len(set(got)) != len(got) or len(set(ib)) != len(ib):
        return 'an index is returned twice'
    if len(got) < REC_MIN * len(true):
        return f'only {len(got)} of {len(true)} true correspondences returned (< 95 %)'
    t = np.asarray(spec['t'], float)
    alpha = 1 + spec['ppm'] * 1e-6
    rnd = 0.0 if spec.get('exact') else 1 / spec.get('grid', GRID)      # rounding of the times to the grid acts as jitter
    jtot = (1 + abs(spec['ppm']) * 1e-6) * (spec['ja'] + rnd) + spec['jb'] + rnd
    x = tsa[ia]
    xc = x - x.mean()
    bound_ppm = TOL_PPM0 + 1e6 * jtot * float(np.sum(np.abs(xc)) / np.sum(xc ** 2))
    if abs(drift - spec['ppm']) > bound_ppm:
        return f'reported drift {drift!r} ppm, true drift {spec["ppm"]!r} ppm (allowed deviation {bound_ppm:.3g} ppm)'
    # held-out: every underlying event that is missing on either side (at its true time on clock A) + 5 random times
    both = np.intersect1d(np.asarray(spec['ka'], int), np.asarray(spec['kb'], int))
    held = np.setdiff1d(np.arange(t.size), both)
    rs = np.random.default_rng(int(t.size))
    th = np.r_[t[held], rs.uniform(x.min(), x.max(), 5)]
    tol = np.full(th.size, TOL_T)
    if not linear and x.size >= 2:
        # outside the matched range the interpolant is the chord through the two end pairs, each off the true line by at most
        # jtot: worst case jtot * (1 + 2 D / gap) at distance D beyond an end pair `gap` apart.  Events up to EXTRAP_MAX_S out.
        xs = np.sort(x)
        lo, hi = th < xs[0], th > xs[-1]
        tol[lo] += jtot * (1 + 2 * (xs[0] - th[lo]) / (xs[1] - xs[0]))
        tol[hi] += jtot * (1 + 2 * (th[hi] - xs[-1]) / (xs[-1] - xs[-2]))
        near = (th >= xs[0] - EXTRAP_MAX_S) & (th <= xs[-1] + EXTRAP_MAX_S)
        th, tol = th[near], tol[near]
    th0 = th.copy()
    dev = np.abs(np.asarray(fcn(th), float) - (alpha * th0 + spec['off'])) if th.size else np.zeros(0)
    err = float(np.max(dev / tol) * TOL_T) if th.size else 0.0      # scaled so that the allowed value is TOL_T everywhere
    if stats is not None:
        stats['err'] = max(stats.get('err', 0.0), err)
        stats['dppm'] = max(stats.get('dppm', 0.0), abs(drift - spec['ppm']) / bound_ppm)
        stats['rec'] = min(stats.get('rec', 1.0), len(got) / max(len(true), 1))
    if not err <= TOL_T:          # a non-finite value of the returned map is not "within a millisecond"
        w = int(np.argmax(np.where(np.isfinite(dev), dev / tol, np.inf)))
        return (f'mapping error {dev[w]:.3g} s at the held-out time {float(th0[w])!r} (allowed {tol[w]:.3g} s; matched a events span '
                f'[{float(x.min())!r}, {float(x.max())!r}])')
    return None


def oracle(spec, linear, tbin=None, stats=None, proto='single', want_steps=False, fresh=False, form=FORM0):
    """None when C19 holds for this ground truth on the real code for EVERY demanded call of the protocol's call sequence
    (same argument objects throughout; results judged against the original values), else what fails and at which call."""
    tsa, tsb, true = build(spec)
    if fresh:
        fresh_state()
    results, steps, purity = run_sequence(tsa, tsb, tbin, linear, proto, form)
    why = None
    dem = demanded(results, proto)
    for k, (res, fcn, drift) in enumerate(dem, 1):    # every result is judged against the ORIGINAL values
        r = _check_result(spec, linear, tsa, true, res, fcn, drift, stats)
        if r is not None:
            why = (f'call r{k} of the sequence: ' if len(dem) > 1 else '') + r
            if purity is not None:
                why += f' ({purity})'
            break
    return (why, steps) if want_steps else why


def spec_jsonable(spec):
    return {k: (np.asarray(v).tolist() if isinstance(v, np.ndarray) else v) for k, v in spec.items()}


# ---------------------------------------------------------------------------------------------
def _lean_parallel(ctx, lines, workers=4):
    if len(lines) < 40:
        return ctx.lean(lines)
    # balance by line length (cost grows with the number of events)
    order = np.argsort([-len(l) for l in lines])
    shards = [[] for _ in range(workers)]
    for r, i in enumerate(order):
        shards[r % workers].append(int(i))
    out = [None] * len(lines)
    with concurrent.futures.ThreadPoolExecutor(workers) as ex:
        for idx, ans in zip(shards, ex.map(lambda ix: ctx.lean([lines[i] for i in ix]), shards)):
            for i, a in zip(idx, ans):
                out[i] = a
    return out


def digest(c, linear):
    h = hashlib.sha1()
    h.update(np.asarray(c['tsa'], float).tobytes()); h.update(b'|'); h.update(np.asarray(c['tsb'], float).tobytes())
    h.update(repr((c['tbin'], linear)).encode())
    return h.hexdigest()[:16]


# ---------------------------------------------------------------------------------------------
# closed model (lean/IblVerif/Model/SyncTsFull.lean): the WHOLE function from (tsa, tsb, tbin, linear) alone — coarse offset
# (histograms, cross-correlation, first maximum, parabolic refinement, lag origin), threshold, both passes, polyfit, interp1d,
# drift — against the return values of the real call.  Nothing is recomputed by the harness for the model; the harness copies
# `_coarse` / `_fit` only serve the float-sensitivity guard.
# ---------------------------------------------------------------------------------------------
CLOSED_MARGIN = 1e-7        # s: a decision of the matching closer than this to its boundary is float-sensitive for the closed model
CLOSED_TOL_DELTA = 1e-9     # s: model delta_t (exact) against the double-precision delta_t
CLOSED_TOL_PPM = 1e-3       # ppm: model drift (exact normal equations) against np.polyfit in double precision
CLOSED_TOL_MAP = 1e-8       # s: returned map at the query points
CLOSED_STATS = {}           # largest deviations seen on this run (written to the evidence)


def _frac(s):
    n, d = s.split('/')
    return int(n) / int(d) if len(n) < 300 else float(__import__('fractions').Fraction(int(n), int(d)))


def _parse_closed(ans):
    """'ok k=v k=v ...' -> dict"""
    return dict(p.split('=', 1) for p in ans.split()[1:])


def closed_queries(tsa):
    """Where the returned map is compared: at matched / unmatched events, between events, before the first and beyond the last
    event (extrapolation), all on the 2^-20 s grid."""
    tsa = np.asarray(tsa, float)
    if tsa.size == 0:
        return np.zeros(0)
    n = tsa.size
    q = [tsa[0], tsa[n // 2], tsa[-1], 0.5 * (tsa[0] + tsa[min(1, n - 1)]), 0.5 * (tsa[n // 2] + tsa[min(n // 2 + 1, n - 1)]),
         tsa[0] - 3.7, tsa[0] - 0.01, tsa[-1] + 0.01, tsa[-1] + 11.3]
    return grid(np.array(q))


def closed_line(tsa, tsb, tb, linear, q):
    K, (stb, sa, sb, sq) = encode([[tb], tsa, tsb, q])
    return f'closed {K} {stb} {1 if linear else 0} {sa} {sb} {sq}'


def near_bin_boundary(tsa, tsb, tb):
    """Is some event within rounding of a bin boundary (so that the quotient (t - tmin) / tbin in double precision and over the
    rationals may fall on different sides of an integer), or the span within rounding of a whole number of bins?"""
    t = np.r_[tsa, tsb].astype(float)
    qv = (t - t.min()) / tb
    return bool(np.any(np.abs(qv - np.round(qv)) <= 1e-9 * np.maximum(1.0, np.abs(qv))))


def judge_closed(ctx, desc, tags, ans, tsa, tsb, tb, linear, impl, fcn, drift, q, delta_h, margin, f64):
    """Compare one answer of the `closed` op with the real call.  delta_h: the harness's double-precision delta_t (or None),
    margin: smallest distance of a matching decision from its boundary (or None = not computed), f64: the call worked on float64 /
    integer values (float32 forms round inside the code; only the pairs are compared then, and only when delta_t agrees)."""
    if ans == 'undetermined':
        ctx.case(desc, nontrivial=False, tags=tags + ['closed_undetermined'])
        return
    if ans.startswith('err'):
        ctx.compare('closed model: outcome', desc, impl if impl.startswith('err') else impl[:80], ans, nontrivial=True, tags=tags + ['closed_error_branch'])
        return
    m = _parse_closed(ans)
    tags = tags + ['closed_ratbins_agree' if m['ratbins'] == '1' else 'closed_ratbins_differ']
    if m['ratbins'] != '1' and not near_bin_boundary(tsa, tsb, tb):
        ctx.compare('closed model: rational binning = double-precision binning away from bin boundaries', dict(desc, op='ratbins'),
                    'double: n, bins as executed', 'rational: different n or bins', nontrivial=True, tags=['closed_ratbins'])
    if int(m['ties']) > 1:
        # the maximal correlation is attained at several lags: the floating-point (FFT) correlation of the code may prefer any
        ctx.case(desc, nontrivial=False, tags=tags + ['closed_corr_tie'])
        return
    delta_m = _frac(m['delta'])
    if delta_h is not None:
        ok = abs(delta_m - delta_h) <= CLOSED_TOL_DELTA
        if ok:
            CLOSED_STATS['delta'] = max(CLOSED_STATS.get('delta', 0.0), abs(delta_m - delta_h))
        if not ok and not f64:
            ctx.case(desc, nontrivial=False, tags=tags + ['closed_skip_float32_binning'])
            return
        ctx.compare('closed model: delta_t', dict(desc, op='delta_t'), 'ok' if ok else repr(delta_h), 'ok' if ok else repr(delta_m),
                    nontrivial=True, tags=['closed_delta_t'])
        if not ok:
            return
    if margin is not None and margin < CLOSED_MARGIN:
        ctx.case(desc, nontrivial=False, tags=tags + ['closed_float_sensitive'])
        return
    model = f"ok ia={m['ia']} ib={m['ib']}"
    ctx.compare('closed model: index pairs', desc, impl, model, nontrivial=True, tags=tags + ['closed_pairs'])
    if impl != model or not f64 or fcn is None:
        return
    dm = _frac(m['drift'])
    ok = abs(dm - drift) <= CLOSED_TOL_PPM
    CLOSED_STATS['drift'] = max(CLOSED_STATS.get('drift', 0.0), abs(dm - drift))
    ctx.compare('closed model: drift_ppm', dict(desc, op='drift'), 'ok' if ok else repr(drift), 'ok' if ok else repr(dm),
                nontrivial=True, tags=['closed_drift'])
    if q.size:
        mv = np.array([_frac(x) for x in m['map'].split(',')])
        try:
            with warnings.catch_warnings(), np.errstate(all='ignore'):
                warnings.simplefilter('ignore')
                iv = np.asarray(fcn(q.copy()), float)
            dev = np.abs(mv - iv)
            w = int(np.argmax(dev))
            ok = bool(dev[w] <= CLOSED_TOL_MAP)
            CLOSED_STATS['map'] = max(CLOSED_STATS.get('map', 0.0), float(dev[w]))
            got, want = (f'fcn({float(q[w])!r}) = {float(iv[w])!r}', f'{float(mv[w])!r}')
        except Exception as e:  # noqa
            ok, got, want = False, f'fcn raised {type(e).__name__}', 'values'
        ctx.compare('closed model: returned map', dict(desc, op='map'), 'ok' if ok else got, 'ok' if ok else want,
                    nontrivial=True, tags=['closed_map', 'closed_map_' + ('linear' if linear else 'interp')])


def closed_selected(ctx, c):
    """One mode per train (alternating with the key), both modes for trains of at most 80 events (cost grows with na * nb)."""
    return c['tsa'].size <= 80 or (c['key'] % 2 == 0) == bool(c['linear'])


def _closed_block(ctx, cases):
    sel, lines = [], []
    for c in cases:
        if 'skip' in c or 'model_direct' in c or not closed_selected(ctx, c):
            continue
        if in_unsigned_class(c['tsa'], c['tsb'], c['true'], c['form']):
            continue
        c['q'] = closed_queries(c['tsa'])
        lines.append(closed_line(c['tsa'], c['tsb'], c['theta'], c['linear'], c['q']))
        sel.append(c)
    for c, ans in zip(sel, _lean_parallel(ctx, lines)):
        tsa, tsb = c['tsa'], c['tsb']
        desc = {'key': c['key'], 'kind': c['kind'], 'linear': c['linear'], 'tbin': c['tbin'], 'na': int(tsa.size), 'nb': int(tsb.size),
                'proto': c['proto'], 'form': form_text(c['form']), 'digest': digest(c, c['linear']), 'op': 'closed'}
        tags = ['closed', 'closed_' + ('linear' if c['linear'] else 'interp'), 'closed_' + c['kind']]
        da, db = dtypes_of(c['form'])
        f64 = 'float32' not in (da, db)
        margin = None
        if c.get('fa') is not None:
            margin = float_margin(tsa, tsb, c['delta'], c['theta'], c['fa'], c['ib1'])
        judge_closed(ctx, desc, tags, ans, tsa, tsb, c['theta'], c['linear'], c['impl'], c['fcn'], c['drift'], c['q'],
                     c.get('delta'), margin, f64)


def special_train(rng, which):
    """Trains aimed at the coarse step -> (tsa, tsb, tbin).
      shiftcopy   tsa = tsb + s*tbin exactly (tbin = 1/8 or 1/4, times on the 2^-10 grid): delta_t = s*tbin, every pair returned
      decimal     the same with tbin = 0.1 and times in whole milliseconds: events ON bin boundaries of the decimal grid
                  (double-precision binning differs from the rational one)
      twoperbin   several events per bin (x[idx] = 1 sets a bin once)
      straddle    pairs of events one grid step on either side of a bin boundary
      nearperiodic  a periodic train with a few events moved: several lags with (almost) the maximal correlation
      tiny        1..3 events per side (edges of the correlation vector, undetermined fits)"""
    if which in ('shiftcopy', 'twoperbin', 'straddle'):
        tbin = float(rng.choice([0.125, 0.25]))
        n = int(rng.choice([2, 3, 5, 30, 31, 120, 300]))
        gaps = rng.integers(4, 80, n) * tbin + rng.integers(0, 128, n) / 1024.0
        if which == 'twoperbin':
            gaps[rng.choice(n, max(1, n // 4), replace=False)] = rng.integers(1, 100, max(1, n // 4)) / 1024.0
        b = np.cumsum(gaps) + float(rng.integers(0, 50))
        if which == 'straddle':
            k = rng.choice(n, max(1, n // 3), replace=False)
            b[k] = np.round(b[k] / tbin) * tbin + rng.choice([-1, 0, 1], k.size) / 1024.0
            b = np.unique(b)
        s = int(rng.integers(-60, 61))
        a = b + s * tbin
        if which != 'shiftcopy' and rng.integers(0, 2):
            a = np.delete(a, rng.choice(a.size, min(2, a.size - 1), replace=False)) if a.size > 2 else a
        return np.sort(a), np.sort(b), tbin
    if which == 'decimal':
        n = int(rng.choice([3, 30, 100, 300]))
        b = np.cumsum(rng.integers(5, 100, n)) / 10.0 + rng.choice([0.0, 0.05, 0.001], n)
        b = np.round(b * 1000) / 1000
        s = int(rng.integers(-300, 301))
        a = np.round((b + s * 0.1) * 1000) / 1000
        return a, b, None
    if which == 'nearperiodic':
        n = int(rng.integers(6, 40))
        b = np.arange(n) * 2.0 + 5.0
        a = b + float(rng.integers(-3, 4)) * 2.0 + 0.03125
        k = rng.choice(n, 2, replace=False)
        a[k] += rng.choice([0.5, 0.75, 1.0], 2)
        return np.sort(a), b, 0.125
    n1, n2 = (int(x) for x in rng.integers(1, 4, 2))
    b = np.cumsum(rng.integers(4, 40, n2) / 8.0)
    a = (b[:n1] if n1 <= n2 else np.r_[b, b[-1] + np.arange(1, n1 - n2 + 1) * 3.0]) + float(rng.integers(-8, 9)) / 8.0
    return a, b, 0.125


SPECIALS = ('shiftcopy', 'shiftcopy', 'decimal', 'twoperbin', 'straddle', 'nearperiodic', 'tiny')


def _closed_special(ctx):
    rng = ctx.subrng(19, 10 ** 6 + 1)
    tb0 = default_tbin()
    jobs, lines = [], []
    for k in range(ctx.n(70, 700)):
        which = SPECIALS[k % len(SPECIALS)]
        a, b, tbin = special_train(rng, which)
        tb = tb0 if tbin is None else tbin
        for linear in (True, False):
            q = closed_queries(a)
            lines.append(closed_line(a, b, tb, linear, q))
            jobs.append((which, k, a, b, tbin, tb, linear, q))
    for (which, k, a, b, tbin, tb, linear, q), ans in zip(jobs, _lean_parallel(ctx, lines)):
        err, fcn, drift, ia, ib = _call(a, b, tbin, linear)
        impl = _canon(err, ia, ib)
        desc = {'op': 'closed_special', 'class': which, 'k': k, 'linear': linear, 'tbin': tb, 'tsa': a.tolist() if a.size <= 6 else None,
                'tsb': b.tolist() if b.size <= 6 else None, 'na': int(a.size), 'nb': int(b.size),
                'digest': digest({'tsa': a, 'tsb': b, 'tbin': tbin}, linear)}
        tags = ['closed_special', 'closed_special_' + which]
        delta_h = margin = None
        try:
            delta_h = float(_coarse(a, b, tb))
            with warnings.catch_warnings():
                warnings.simplefilter('ignore')
                ib1 = np.array([int(x) for x in ctx_pass1(delta_h, tb, a, b)], dtype=np.int32)
                f = _fit(a, b, ib1, linear)
                fa = np.asarray(f(a), float) if np.any(ib1 < 0) else a.copy()
            if np.all(np.isfinite(fa)):
                margin = float_margin(a, b, delta_h, tb, fa, ib1)
        except Exception:  # noqa  tiny trains: the guard is not available, the outcome is compared as it is
            pass
        if which == 'shiftcopy' and ans.startswith('ok') and a.size == b.size:
            # theorem coarse_offset_exact_on_shifted_copy, on the double-precision binning the driver runs (dyadic: both agree)
            m = _parse_closed(ans)
            s_true = float(a[0] - b[0])
            ident = ','.join(str(i) for i in range(a.size))
            ok = (m['ties'] == '1' and _frac(m['delta']) == s_true and m['ratbins'] == '1' and m['ia'] == ident and m['ib'] == ident
                  and _frac(m['drift']) == 0.0 and all(_frac(x) == float(v) - s_true for x, v in zip(m['map'].split(','), q)))
            ctx.compare('closed model: exact shifted copy (theorem closed_exact_copy: delta_t = shift, pairs (i, i), drift 0, map x - shift)',
                        dict(desc, op='shiftcopy'), 'ok',
                        'ok' if ok else f"delta={m['delta']} ties={m['ties']} ratbins={m['ratbins']} drift={m['drift']} shift={s_true!r} ia={m['ia'][:40]}",
                        nontrivial=True, tags=['closed_shiftcopy_exact'])
        judge_closed(ctx, desc, tags, ans, a, b, tb, linear, impl, fcn, drift, q, delta_h, margin, True)


def ctx_pass1(delta, theta, tsa, tsb):
    """First pass of the matching on float64 values, for the float-sensitivity guard of the special trains only (the code's
    loop, transcribed; the model comparison itself never uses it)."""
    ib = np.zeros(tsa.shape, dtype=np.int32) - 1
    for m in range(tsa.shape[0]):
        dt = np.abs(tsa[m] - delta - tsb)
        inds = np.where(dt < theta)[0]
        if inds.size == 1:
            ib[m] = inds[0]
        elif inds.size > 1:
            cand = inds[~np.isin(inds, ib[:m])]
            if cand.size == 1:
                ib[m] = cand[0]
            elif cand.size > 1:
                ib[m] = inds[np.argmin(dt[inds])]
    return ib


def _externals_sweep(ctx):
    """The model's reading of the two external calls of _interp_fcn against the libraries themselves, on exact dyadic data:
    interp1d(xs, ys, fill_value="extrapolate") = chord through the neighbouring samples (at the samples, between, outside, unsorted
    input), np.polyfit(xs, ys, 1) = normal equations."""
    import scipy.interpolate
    rng = ctx.subrng(19, 10 ** 6 + 2)
    lines, want = [], []
    for k in range(ctx.n(150, 1500)):
        n = int(rng.choice([2, 2, 3, 5, 20, 60]))
        xs = np.cumsum(rng.integers(1, 200, n)) / 16.0 + float(rng.integers(-100, 100))
        ys = xs * float(rng.choice([1.0, 1.0001, 0.5, -2.0])) + rng.integers(-64, 64, n) / 64.0 * float(rng.choice([0.0, 1.0]))
        if k % 3 == 0:
            perm = rng.permutation(n)
            xs, ys = xs[perm], ys[perm]
        xsrt = np.sort(xs)
        q = np.r_[xsrt[0], xsrt[-1], xsrt[n // 2], xsrt[0] - 7.25, xsrt[-1] + 1000.5, 0.5 * (xsrt[0] + xsrt[1]),
                  rng.integers(int(xsrt[0] * 16) - 50, int(xsrt[-1] * 16) + 50, 4) / 16.0]
        K, (sx, sy, sq) = encode([xs, ys, q])
        lines.append(f'interp {K} {sx} {sy} {sq}')
        with warnings.catch_warnings():
            warnings.simplefilter('ignore')
            want.append(('interp1d', np.asarray(scipy.interpolate.interp1d(xs, ys, fill_value='extrapolate')(q), float), q))
        lines.append(f'fit {K} {sx} {sy}')
        with warnings.catch_warnings():
            warnings.simplefilter('ignore')
            want.append(('polyfit', np.asarray(np.polyfit(xs, ys, 1), float), None))
    for ln, (what, lib, q), ans in zip(lines, want, ctx.lean(lines)):
        if not ans.startswith('ok'):
            ctx.compare('externals: ' + what, {'op': ln[:100]}, 'values', ans, nontrivial=True, tags=['ext_' + what])
            continue
        if what == 'interp1d':
            mv = np.array([_frac(x) for x in ans[3:].split(',')])
        else:
            mv = np.array([_frac(x) for x in ans[3:].split()])
        tol = 1e-9 * (1.0 + np.abs(mv))
        ok = bool(np.all(np.abs(mv - lib) <= tol))
        ctx.compare('externals: ' + what, {'op': ln[:100]}, 'ok' if ok else repr(lib.tolist()), 'ok' if ok else repr(mv.tolist()),
                    nontrivial=True, tags=['ext_' + what])



def correspondence(ctx):
    CLOSED_STATS.clear()
    tb0 = default_tbin()
    ctx.note(f'default tbin read from the signature of sync_timestamps: {tb0!r}')
    ntrain = ctx.n(230, 2600)
    cases = []
    for k in range(ntrain):
        c = case_by_key(ctx, k)
        for linear in (True, False):
            cases.append(dict(c, key=k, linear=linear))
    # --- real code, coarse offset, first pass of the model
    l1 = []
    for c in cases:
        tsa, tsb = c['tsa'], c['tsb']
        tb = tb0 if c['tbin'] is None else c['tbin']
        c['theta'] = tb
        c['proto'] = proto_of(c['key'], c['linear'])
        c['form'] = form_by_key(ctx, c['key'], c['linear'], c['tbin'])
        c['info'] = []
        c['impl'], c['fcn'], c['drift'] = run_impl(tsa, tsb, c['tbin'], c['linear'], c['proto'], c['info'], c['form'])
        if c['form']['layout'] == 'list' and c['impl'] in ('err AttributeError', 'err TypeError'):
            c['skip'] = 'form_list_unsupported'      # Python lists are not accepted by the API (ASSUMPTIONS)
            continue
        c['PA'], c['PB'] = plain_args(tsa, tsb, c['form'])      # the harness computes delta_t / the fit in the same dtype
        c['delta'] = None
        if tsa.size and tsb.size:
            try:
                c['delta'] = float(_coarse(c['PA'], c['PB'], tb))
            except Exception as e:  # noqa
                c['delta_err'] = type(e).__name__
        if c['delta'] is not None:
            K, (sd, st, sa, sb) = encode([[c['delta']], [tb], tsa, tsb])
            l1.append(f'pass1 {K} {sd} {st} {sa} {sb}')
    a1 = iter(_lean_parallel(ctx, l1))
    # --- intermediate map on the model's first pass, whole model
    l2 = []
    for c in cases:
        tsa, tsb = c['tsa'], c['tsb']
        if 'skip' in c:
            continue
        if not (tsa.size and tsb.size):
            l2.append('sync 0 0 1 ' + ' '.join(encode([tsa, tsb, tsa])[1]))
            c['fa'] = None
            continue
        if c['delta'] is None:
            c['model_direct'] = 'ok (harness could not compute delta_t: ' + c.get('delta_err', '?') + ')'
            continue
        ans = next(a1)
        assert ans.startswith('ok '), ans
        ib1 = np.array([int(x) for x in ans[3:].split(',')], dtype=np.int32)
        c['ib1'] = ib1
        try:
            with warnings.catch_warnings():
                warnings.simplefilter('ignore')
                f = _fit(c['PA'], c['PB'], ib1, c['linear'])
                fa = np.asarray(f(c['PA']), float) if np.any(ib1 < 0) else tsa.copy()   # the code evaluates fcn_a2b on tsa[iamiss] only
        except Exception as e:  # noqa  external fit failed on the model's first-pass result: the code must fail the same way
            c['model_direct'] = f'err {type(e).__name__}'
            continue
        if not np.all(np.isfinite(fa)):
            # fewer than two first-pass matches in interpolating mode: interp1d returns nan, the code goes on with nan
            # distances.  A non-finite time has no rational value: outside the model (ASSUMPTIONS), counted, not compared.
            c['skip'] = 'nonfinite_intermediate_map'
            continue
        c['fa'] = fa
        K, (sd, st, sa, sb, sf) = encode([[c['delta']], [c['theta']], tsa, tsb, fa])
        c['K'] = K
        l2.append(f'sync {K} {sd} {st} {sa} {sb} {sf}')
    a2 = iter(_lean_parallel(ctx, l2))
    stats = {}
    nskip = 0
    for c in cases:
        if 'skip' in c:
            ctx.case({'key': c['key'], 'kind': c['kind'], 'linear': c['linear'], 'skip': c['skip']}, nontrivial=False, tags=[c['skip']])
            continue
        model = c['model_direct'] if 'model_direct' in c else next(a2)
        tsa, tsb, linear = c['tsa'], c['tsb'], c['linear']
        desc = {'key': c['key'], 'kind': c['kind'], 'linear': linear, 'tbin': c['tbin'], 'na': int(tsa.size), 'nb': int(tsb.size),
                'proto': c['proto'], 'form': form_text(c['form']), 'digest': digest(c, linear)}
        if c['spec'] is not None:
            desc.update(ppm=c['spec']['ppm'], off=c['spec']['off'], ja=c['spec']['ja'], jb=c['spec']['jb'])
        fm = c['form']
        tags = [c['kind'], 'linear' if linear else 'interp', 'proto_' + c['proto']] + c['info']
        tags += ['form_plain'] if fm == FORM0 else ['form_dtype_' + fm['dtype'], 'form_layout_' + fm['layout'], 'form_' + fm['spelling'],
                                                    'form_tbin_' + fm['tbin']] + (['form_noidx'] if fm['noidx'] else [])
        nontrivial = False
        exact = False
        if c.get('fa') is not None:
            ib1 = c['ib1']
            n2 = 0
            if model.startswith('ok'):
                mia = model.split()[1][3:]
                n2 = (0 if mia == '-' else mia.count(',') + 1) - int(np.sum(ib1 >= 0))
            multi = bool(np.any(np.sum(np.abs(tsa[:, None] - c['delta'] - tsb[None, :]) < c['theta'], axis=1) > 1))
            dup = len(set(ib1[ib1 >= 0].tolist())) < int(np.sum(ib1 >= 0))
            nontrivial = bool(np.any(ib1 < 0)) or multi
            tags += ['pass2_assigns' if n2 > 0 else 'pass2_idle', 'unmatched_a' if np.any(ib1 < 0) else 'all_a_matched']
            tags += ['multi_candidate'] if multi else []
            tags += ['duplicate_b'] if dup else []
            exact = c['K'] <= 30
            tags.append('exact_dyadic' if exact else 'generic_float')
            if not exact and float_margin(tsa, tsb, c['delta'], c['theta'], c['fa'], ib1) < 1e-9:
                ctx.case(desc, nontrivial=False, tags=tags + ['float-sensitive', 'float-sensitive:' + c['kind']])
                nskip += 1
                continue
        else:
            tags.append('error_branch' if model.startswith('err') else 'no_model_run')
            nontrivial = model.startswith('err')
        if c['spec'] is not None:
            n = len(c['spec']['t'])
            tags.append('n<=32' if n <= 32 else 'n>=299' if n >= 299 else 'n mid')
        ctx.compare('sync_timestamps index pairs', desc, c['impl'], model, nontrivial=nontrivial, tags=tags)
        unsigned_class = in_unsigned_class(tsa, tsb, c['true'], fm)
        if unsigned_class:
            ctx.known_hits['unsigned-negative-offset'] += 1
            ctx.case(dict(desc, op='form'), nontrivial=False, tags=['form_skipped_known_finding_unsigned'])
            continue
        # --- the same values / the same call in the plain form must give the same answer (pairs, drift, mapping)
        if fm != FORM0 and c['impl'].startswith('ok'):
            base = run_sequence(tsa, tsb, c['tbin'], linear, 'single', FORM0)[0][0]
            ok = base[0] == c['impl'] and _same_map(base, (c['impl'], c['fcn'], c['drift']), tsa, 1e-3)
            ctx.compare('form vs plain float64 keyword call', dict(desc, op='form'),
                        'ok' if ok else f'{c["impl"][:60]} drift {c["drift"]!r}', 'ok' if ok else f'{base[0][:60]} drift {base[2]!r}',
                        nontrivial=True, tags=['form_vs_plain'])
        # --- numeric oracle on the property's own domain
        if c['spec'] is not None and c['spec'].get('domain') and c['tbin'] is None and in_domain(c['spec']):
            if in_finding_class(tsa, tsb, c['true'], c['tbin'], linear):
                ctx.known_hits['interp-extrapolation'] += 1
                ctx.case(dict(desc, op='oracle'), nontrivial=False, tags=['oracle_skipped_known_finding_class'])
                continue
            r = oracle(c['spec'], linear, stats=stats, proto=c['proto'], form=fm)
            d2 = dict(desc, op='oracle')
            ctx.compare('oracle (ground truth)', d2, 'ok' if r is None else r, 'ok', nontrivial=True,
                        tags=['oracle', 'oracle_' + ('linear' if linear else 'interp')])
    ctx.note(f'cases skipped as float-sensitive: {nskip}')
    import time
    t0 = time.time()
    _closed_block(ctx, cases)
    t_closed = time.time() - t0
    ctx.note('oracle calibration on this run: max held-out error %.3g s (tolerance 1e-3), max drift deviation / allowed %.3g, '
             'min recovery %.4f (required 0.95)' % (stats.get('err', 0), stats.get('dppm', 0), stats.get('rec', 1)))
    # --- parabolic_max against the model (exact fraction vs float64, 1e-12)
    from ibldsp.utils import parabolic_max
    rng = ctx.subrng(19, 10 ** 6)
    lines, impl = [], []
    for _ in range(ctx.n(300, 3000)):
        ns = int(rng.integers(3, 12))
        x = rng.integers(0, 6, ns).astype(float)
        if rng.integers(0, 4) == 0:
            x[:] = x[0]
        imax = int(np.argmax(x))
        v = x[np.clip(imax + np.array([-1, 0, 1]), 0, ns - 1)]
        lines.append(f'pmax {ns} {imax} {int(v[0])} {int(v[1])} {int(v[2])}')
        impl.append(float(parabolic_max(x)[0]))
    for ln, a, m in zip(lines, impl, ctx.lean(lines)):
        num, den = (int(z) for z in m.split()[1:])
        ok = abs(a - num / den) <= 1e-12
        ctx.compare('parabolic_max', {'op': ln}, 'ok' if ok else repr(a), 'ok' if ok else f'{num}/{den}',
                    nontrivial=True, tags=['parabolic_max'])
    # --- vector length / bin index (F16): the model says in range, the code (through _coarse = same expression) must index without error
    lines, impl = [], []
    for _ in range(ctx.n(200, 2000)):
        span = float(rng.integers(1, 400)) if rng.integers(0, 2) else float(grid(rng.uniform(0.1, 400), 1024.0))
        tbin = float(rng.choice([tb0, 0.125, 0.05, 1.0]))
        tmin = float(grid(rng.uniform(-50, 50), 1024.0))
        ts = np.r_[tmin, tmin + span, grid(rng.uniform(tmin, tmin + span, 4), 1024.0)]
        ts = ts[(ts >= tmin) & (ts <= tmin + span)]
        K, (s0, s1, sb, st) = encode([[tmin], [tmin + span], [tbin], ts])
        lines.append(f'bins {K} {s0} {s1} {sb} {st}')
        res = run_impl(np.sort(ts), np.sort(ts), tbin, True)[0]     # tmin / tmax of this run are ts.min() / ts.max()
        impl.append('ok' if res.startswith('ok') else res)
    for ln, a, m in zip(lines, impl, ctx.lean(lines)):
        ctx.compare('bin vector', {'op': ln[:120]}, a, 'ok' if m.endswith('inrange=1') else 'err IndexError',
                    nontrivial=True, tags=['bins'])
    t0 = time.time()
    _closed_special(ctx)
    _externals_sweep(ctx)
    ctx.note('wall time of the closed-model comparison: %.1f s on the generated trains, %.1f s special trains + externals' % (t_closed, time.time() - t0))
    ctx.note('closed model calibration on this run: max |delta_t - model| %.3g s (tolerance %g), max |drift_ppm - model| %.3g ppm '
             '(tolerance %g), max |fcn(q) - model| %.3g s (tolerance %g)' % (CLOSED_STATS.get('delta', 0), CLOSED_TOL_DELTA,
             CLOSED_STATS.get('drift', 0), CLOSED_TOL_PPM, CLOSED_STATS.get('map', 0), CLOSED_TOL_MAP))


# ---------------------------------------------------------------------------------------------
def _shrink(spec, linear, deadline=None, proto='single', form=FORM0):
    """Greedy simplification of a failing ground truth that keeps it failing and inside the property's domain."""
    import time
    def fails(s):
        if not in_domain(s):
            return None
        tsa, tsb, true = build(s)
        if in_finding_class(tsa, tsb, true, None, linear):
            return None
        if in_unsigned_class(tsa, tsb, true, form):
            return None
        return oracle(s, linear, proto=proto, fresh=True, form=form)
    best, why = spec, fails(spec)
    if why is None:
        return None, None
    changed = True
    while changed:
        changed = False
        n = len(best['t'])
        cands = []
        for m in (30, n // 2, n - 10, n - 1):
            if 30 <= m < n:
                for lo in (0, n - m):
                    s = dict(best)
                    sel = np.arange(lo, lo + m)
                    s['t'] = np.asarray(best['t'])[sel]
                    s['ea'] = np.asarray(best['ea'])[sel]; s['eb'] = np.asarray(best['eb'])[sel]
                    s['ka'] = np.array([e - lo for e in best['ka'] if lo <= e < lo + m], int)
                    s['kb'] = np.array([e - lo for e in best['kb'] if lo <= e < lo + m], int)
                    cands.append(s)
        if np.any(np.asarray(best['ea']) != 0) or np.any(np.asarray(best['eb']) != 0):
            cands.append(dict(best, ea=np.zeros(n), eb=np.zeros(n), ja=0.0, jb=0.0))
        if len(best['ka']) < n:
            cands.append(dict(best, ka=np.arange(n)))
        if len(best['kb']) < n:
            cands.append(dict(best, kb=np.arange(n)))
        if best['off'] != 0:
            cands.append(dict(best, off=0.0))
        if best['ppm'] != 0:
            cands.append(dict(best, ppm=0.0))
        for s in cands:
            if deadline is not None and time.time() > deadline:
                break
            try:
                r = fails(s)
            except Exception:  # noqa
                r = None
            if r is not None:
                best, why, changed = s, r, True
                break
    return best, why


def _report(spec, linear, why, proto='single', form=FORM0):
    tsa, tsb, true = build(spec)
    _, steps = oracle(spec, linear, proto=proto, want_steps=True, fresh=True, form=form)
    return {'input': {'tsa': tsa.tolist(), 'tsb': tsb.tolist(), 'linear': linear, 'tbin': 'default', 'protocol': proto, 'form': form,
                      'call_sequence': ['tsa = np.array(input.tsa); tsb = np.array(input.tsb)   # the same two objects in every call'] + steps,
                      'ground_truth': spec_jsonable(spec), 'true_pairs': [list(p) for p in true]},
            'observed': why,
            'expected': 'C19, for every call r_k of the sequence: every returned (ia, ib) pair is a true correspondence, >= 95 % of the '
                        'true pairs are returned, fcn(t) within 1 ms of the true map at held-out events, drift within the stated '
                        'tolerance of the true ppm (judged against the values tsa, tsb had before the first call)',
            'how': 'python (fresh interpreter): run input.call_sequence with ibldsp.utils.sync_timestamps / parabolic_max; '
                   'harness/props/c19.py oracle(ground_truth, linear, proto=input.protocol, form=input.form)'}


def search(ctx, reasons):
    import time
    keys = []
    for m in ctx.mismatches[:300]:
        c = m['case']
        if 'key' in c and kind_of(c['key']) in DOMAIN_KINDS and (c['key'], c['linear']) not in keys:
            keys.append((c['key'], c['linear']))
    extra = [(k, lin) for k in range(ctx.n(260, 600)) if kind_of(k) in DOMAIN_KINDS for lin in (True, False)]
    best = None
    tried = 0
    deadline = time.time() + ctx.n(150, 600)
    for (k, linear) in keys + [e for e in extra if e not in keys]:
        if time.time() > deadline and best is not None:
            break
        c = case_by_key(ctx, k)
        proto = proto_of(k, linear)
        form = FORM0
        tried += 1
        try:
            if not in_domain(c['spec']) or in_finding_class(c['tsa'], c['tsb'], c['true'], None, linear):
                continue
            # the simplest self-contained call sequence (module state reset first) that fails
            if c['tbin'] is not None:
                continue
            r = None
            myform = form_by_key(ctx, k, linear, c['tbin'])
            forms = [FORM0] + ([myform] if myform != FORM0 and myform['layout'] != 'list'
                               and not in_unsigned_class(c['tsa'], c['tsb'], c['true'], myform) else [])
            for fm in forms:                      # the plain form first, then the form the case was generated with
                for cand in dict.fromkeys(('single', 'repeat', proto, 'interleave')):
                    r = oracle(c['spec'], linear, proto=cand, fresh=True, form=fm)
                    if r is not None:
                        proto, form = cand, fm
                        break
                if r is not None:
                    break
        except Exception as e:  # noqa
            r = f'oracle raised {type(e).__name__}: {e}'
        if r is None:
            continue
        spec, why = _shrink(c['spec'], linear, deadline, proto, form)
        if spec is None:
            spec, why = c['spec'], r
        if best is None or len(spec['t']) < len(best[0]['t']):
            best = (spec, linear, why, proto, form)
        if len(spec['t']) <= 40 or tried > 400:
            break
    if best:
        return _report(*best)
    return None


def replay(ctx, rep):
    gt = rep['input']['ground_truth']
    spec = {k: (np.asarray(v) if isinstance(v, list) else v) for k, v in gt.items()}
    r = oracle(spec, rep['input']['linear'], proto=rep['input'].get('protocol', 'single'), fresh=True,
               form=rep['input'].get('form', FORM0))
    print('oracle:', r)
    return r is not None


# ---------------------------------------------------------------------------------------------
def finding_spec():
    """In-domain witness of the known finding `interp-extrapolation` (fixed generator seed 135): 300 events with gaps
    uniform in [9, 10] s, 40 of them replaced by 0.5 s at seeded positions (ambiguity 0.34), +100 ppm, offset 12 s, jitter
    uniform in +-0.1 ms on the b side, nothing missing.  linear=False returns 261 of the 300 true pairs (87 %);
    linear=True returns all of them."""
    rng = np.random.default_rng(135)
    n = 300
    gaps = rng.uniform(9, 10, n)
    gaps[rng.choice(n, 40, replace=False)] = 0.5
    t = np.cumsum(gaps)
    return {'t': t, 'ka': np.arange(n), 'kb': np.arange(n), 'ppm': 100.0, 'off': 12.0, 'ja': 0.0, 'jb': 1e-4,
            'ea': np.zeros(n), 'eb': rng.uniform(-1e-4, 1e-4, n), 'domain': True}


def unsigned_spec():
    """Witness of the known finding `unsigned-negative-offset`: 30 events at whole seconds (gaps 1..10 s, seed 7), clock B 7 s
    BEHIND clock A, nothing missing, no drift.  As uint32 (or uint16 / uint64) arrays `tsb[...] - tsa[...]` inside _interp_fcn
    wraps around: drift_ppm is ~1e-2..1e7 instead of 0 and the linear map is off by 2^32 s; as int32 / float64 all is exact."""
    rng = np.random.default_rng(7)
    n = 30
    t = np.cumsum(rng.integers(1, 11, n).astype(float)) + 500.0
    return {'t': t, 'ka': np.arange(n), 'kb': np.arange(n), 'ppm': 0.0, 'off': -7.0, 'ja': 0.0, 'jb': 0.0,
            'ea': np.zeros(n), 'eb': np.zeros(n), 'domain': True, 'grid': 1.0, 'exact': True}


def known_findings(ctx):
    def interp_extrapolation():
        spec = finding_spec()
        tsa, tsb, true = build(spec)
        return (in_domain(spec) and in_finding_class(tsa, tsb, true, None, False)
                and oracle(spec, False) is not None and oracle(spec, True) is None)

    def unsigned_negative_offset():
        spec = unsigned_spec()
        tsa, tsb, true = build(spec)
        form = dict(FORM0, dtype='uint32')
        return (in_domain(spec) and in_unsigned_class(tsa, tsb, true, form)
                and oracle(spec, True, form=form) is not None and oracle(spec, True, form=dict(FORM0, dtype='int32')) is None)
    return {'interp-extrapolation': interp_extrapolation, 'unsigned-negative-offset': unsigned_negative_offset}


LEVEL_TEXT = ('Lean 4 theorems over exact rationals about the model of both matching passes of sync_timestamps, for all trains, offsets, '
              'thresholds and fitted maps: no index is used twice (given events on the a side at least 2*tbin apart; a counterexample '
              'otherwise), every pair lies within tbin of the map used, and under the explicit separation hypotheses (true pairs inside, '
              'all other pairs outside the window — derived from affine clocks + bounded jitter + minimal gap) the returned pairs are '
              'exactly the true correspondences; least squares / the chord interpolant on exactly affine data return the true line, '
              'hence drift_ppm = (alpha-1)*1e6 and the map is exact at held-out points; the bin vector holds every event (F16); the '
              'parabolic peak stays within half a bin. CLOSED MODEL (coarse offset, fit and interpolant computed inside the model, '
              'Model/SyncTsFull.lean): the lag found on the sorted bin differences is the first maximum of the 0/1 cross-correlation over '
              'ALL lags (corr_peak_is_first_max); delta_t lies within half a bin of lag*tbin for every pair of trains '
              '(coarse_offset_within_half_bin); for an exact copy shifted by s bins the maximum is unique, at s, symmetric, and delta_t = '
              's*tbin exactly (coarse_offset_exact_on_shifted_copy); the closed model IS sync with Delta, theta = tbin and fmap filled in '
              '(closed_is_sync), so injectivity / threshold / exact-pairs theorems hold of it; end to end on exact copies with events one '
              'bin apart it returns the pairs (i,i) of all events, drift 0 and the exact map in both modes (closed_exact_copy); the '
              'executable fit is the normal-equation solution (fit_is_normal_equations); on exactly affine matches both modes return the '
              'true map everywhere and hence agree, drift = (alpha-1)*1e6 (closed_map_exact_on_collinear); the interpolant passes through '
              'every matched pair (interp_through_samples); the linear map is strictly increasing when matched b times increase with '
              'matched a times (linear_map_increasing). Ties to the code: exact comparison of the returned index pairs (matching passes '
              'with harness-recomputed externals; closed model with nothing recomputed), drift / map / delta_t of the closed model to '
              'stated tolerances, and a translator tie re-reading threshold = tbin, drift_ppm = ab[0]*1e6 and the external calls of '
              '_interp_fcn per mode from the source text on every run (Tie/C19.lean).')
LEVEL_NOTE = ('partial: recovery rate (>= 95 %), the 1 ms held-out tolerance and the ppm accuracy under jitter are measured by a ground-truth '
              'oracle, not proved. delta_t, polyfit and interp1d are now computed inside the (closed) model and compared with the real call, '
              'but that the correlation peak is the TRUE offset bin is proved only for exact copies shifted by whole bins; for trains with '
              'missing events, jitter and drift only the general bound |delta_t - lag*tbin| <= tbin/2 is proved and the accuracy of the '
              'lag is covered by the oracle. The coarse-step theorems are about the binning over the rationals; the code (and the driver) '
              'bin in double precision, which differs for events within rounding of a bin boundary (counted per run, checked to agree '
              'elsewhere). scipy.signal.correlate (FFT) / np.polyfit (QR) / interp1d are read as their textbook definitions and compared '
              'numerically (1e-9 s, 1e-3 ppm, 1e-8 s), not proved; cases where the maximal correlation is attained at several lags are '
              'not compared. Monotonicity is proved for the linear map only; for the interpolating map only that it passes through the '
              'matched pairs. The separation hypothesis of pass1_sound is not implied by the quantifier at drift*duration > tbin, where '
              'the second pass relies on the fitted map (hypothesis of pass2_sound) — known finding interp-extrapolation shows it can fail '
              'for linear=False. Translator tie: narrow — the shared translator cannot read the bin-count expression (argument of np.zeros), '
              'the delta_t expression (subscripted call parabolic_max(...)[0]), the loops (for m in np.arange(..), while ~np.all(..)), '
              'lambdas and np.double(bool) of parabolic_max; those parts are tied by the closed-model correspondence only.')
TECHNIQUE = ('Lean 4 proofs by induction over the assignment loops, the sorted-difference table of the cross-correlation and the segment '
             'search of the interpolant (core Lean, Rat, List) + Mathlib field/ordered-field/Finset algebra for least squares; exact '
             'differential run of the index pairs (float64 values passed as exact dyadic rationals; closed model with IEEE binning) + '
             'tolerance comparison of drift / map / delta_t + translator tie (source text -> Lean, proved equal to the model) + numeric '
             'ground-truth oracle')
