"""C15 — Bad-channel repair touches only bad channels; detection finds injected faults
(ibldsp.voltage.interpolate_bad_channels / detect_bad_channels / detect_bad_channels_cbin)."""
import collections
import shutil
import tempfile
import warnings
from pathlib import Path

import numpy as np

ID = 'C15'
DRIVER = 'C15'
LEAN_TARGETS = ['IblVerif.Properties.C15']
THEOREMS = [
    'IblVerif.C15.good_rows_bit_identical',
    'IblVerif.C15.sequential_eq_parallel',
    'IblVerif.C15.order_irrelevant',
    'IblVerif.C15.repair_depends_only_on_donors',
    'IblVerif.C15.repair_depends_only_on_donors_real',
    'IblVerif.C15.repair_is_convex',
    'IblVerif.C15.repair_within_donor_range',
    'IblVerif.C15.no_donor_zero',
    'IblVerif.C15.prefix_selection_counterexample',
    'IblVerif.C15.label_precedence',
    'IblVerif.C15.outside_block_contiguous_top',
    'IblVerif.C15.outside_block_upper_interval',
    'IblVerif.C15.clear_iff',
    'IblVerif.C15.feature_rule',
    'IblVerif.C15.labels_are_mode',
    'IblVerif.C15.outside_rule_guard',
    'IblVerif.C15.labels_majority',
    'IblVerif.C15.labels_unanimous',
    'IblVerif.C15.file_label_vector_length',
    'IblVerif.C15.detrend_centred_edge_replicated',
    'IblVerif.C15.weights_depend_on_distance_only',
    'IblVerif.C15.weights_decay_with_distance',
    'IblVerif.C15.repair_eq_coeff_sum',
    'IblVerif.C15.symmetric_donors_equal_weight',
    'IblVerif.C15.repair_uses_exactly_nearby',
    'IblVerif.C15.default_donors_on_lattice',
    'IblVerif.C15.np2_default_donors',
    'IblVerif.C15.np1_default_donors',
    'IblVerif.C15.batches_inside_file',
    'IblVerif.C15.batches_span_file',
    'IblVerif.C15.batches_evenly_spaced',
]
RULE = ('(a) interp: label vectors over {0,1,2,3} x geometry x data: every label vector for nc <= 4 (quick) / 6 (thorough) on a line, '
        'NP1 and NP2 layouts, plus seeded random cases (nc up to 384; NP1/NP2/NPultra/line/jittered/duplicate-site/cut-off-distance '
        'geometries; label patterns none/all-bad/single/probe ends/clusters of 2..14 adjacent bad channels/random/top block of 3s; data '
        'normal/constant/ramp/outlier-on-bad/integers/identity (the output rows are then the normalised weight vectors), with NaN/+inf/-inf planted in bad channels (whole channel, stretch, single samples) and in good non-donor channels, float64 and float32; default and non-default p, kriging distance): the real '
        'interpolate_bad_channels against the Float twin of the Lean model (values within tolerance, zero rows and untouched rows exact); '
        'non-trivial = at least one bad channel; (b) labels: the real detect_bad_channels on synthetic gain-profile recordings (AP and LF '
        'band, default and explicit thresholds, low-coherence runs at the top / in the middle / split, dead and noisy channels inside '
        'and outside them, PSD planted on both sides of the threshold) -> its own feature vectors through the model decision rule, labels '
        'exact; (c) mode: the real detect_bad_channels_cbin on small flat binary files, per-batch labels observed (and, for ties, planted) '
        'through a recording wrapper -> model mode over the non-sync channels, and the sample slices it reads -> Float twin of linspace/int, both exact; '
        "(c') the same on VIRTUAL recordings (a spikeglx.Reader whose memory map is an all-zero virtual array, the detector a stub returning planted labels): "
        'file exactly one batch long / one sample longer / just under two batches / up to 2^31 samples, integer and fractional sampling rates, '
        'durations that are inexact in binary, 1..40 batches, 0..2 sync channels -> flags = model mode vector (length = non-sync channels), slices = Float twin, exact; '
        '(e) donors: identity data through the real interpolate_bad_channels (p=1.3, 20 um passed explicitly) on the real NP1 / NP2 site layouts of '
        'neuropixel.trace_header -> support of every repaired row = the integer rule of the lattice theorems (squared distance <= 4624 um^2), exact; '
        '(f) detrend: the helper nested in detect_bad_channels (taken from its code object) on vectors shorter / equal / longer than the window, ties, steps, end spikes, '
        'window 1..21 -> the model\'s edge-replicated centred median residual, exact; '
        'every part draws the input FORM (dtype, memory layout, scalar types, positional/keyword spelling, Reader/str/Path) independently of the values; '
        '(d) numeric oracle: silent / noisy / outside-brain faults injected on coherent AP backgrounds, labels checked directly')
ASSUMPTIONS = [
    'input forms (drawn independently of the values, recorded in tags and replays): interp data dtype float64/float32/int16/int32, C/F order, transposed and strided views, '
    'labels int64/int32/int8/float64 arrays, x/y float64/float32/int64, positional (signature order data, channel_labels, x, y, p, kriging_distance_um) or keyword call; '
    'detect_bad_channels raw float64/float32 in C/F/transposed layout, fs as Python/NumPy int/float, positional (raw, fs, similarity_threshold, psd_hf_threshold) or keyword; '
    'detect_bad_channels_cbin given an open Reader, a str or a pathlib.Path, n_batches/batch_duration positional or keyword, n_batches int or np.int64',
    'forms the API does not support and that are therefore not generated: read-only data (the function works in place: ValueError), labels as a Python list (ValueError in np.where), '
    'raw in integer counts for detect_bad_channels (volts by contract, the PSD threshold is in uV^2/Hz), non-finite DONOR samples',
    'integer-typed data: values demanded within ONE COUNT of the weighted mean / of the donors\' range (known finding int-data-truncation: the float mean is truncated toward zero on assignment)',
    'interp: labels, x, y and data rows all have length nc (the code raises or silently ignores entries otherwise; not part of the property); float64 or float32; non-finite samples only where the property says they must not matter (bad channels, good channels that are nobody\'s donor) — a non-finite donor legitimately gives a non-finite repair',
    'interp: Float twin compared with tolerance 1e-9*scale (float64) / 2e-6*scale (float32), scale = max |donor candidates|: BLAS matmul order, hypot vs sqrt; '
    'cases in which a raw weight lies within 1e-9 (relative) of the 0.005 cut-off are skipped (never drawn in practice)',
    'over the reals x/0 = 0 plays the role of NumPy nan (weights/0): both make "weights > 0" false, i.e. no donor',
    'weights over the reals: exp, real power and square root are Mathlib\'s Real.exp / Real.rpow / Real.sqrt; the theorems need p > 0 and kriging distance > 0 (defaults 1.3, 20); '
    'the cut-off is the real number 1/200 (the double 0.005 differs from it by 1e-19, far inside the gap 68 um / 75 um the lattice theorems use)',
    'lattice theorems (np1_default_donors, np2_default_donors) are about p = 1.3, 20 um, 0.005 and the site layouts np1Site / np2Site of Model/BadChannels.lean; the donors comparison passes these parameters '
    'explicitly and is skipped (noted) when neuropixel.trace_header lays the sites out differently — other defaults or layouts do not violate C15',
    'batch placement theorems are over the reals (exact arithmetic, int() = truncation) under: fs > 0, batch_duration >= 0, the recording at least one batch long, n_batches >= 1; '
    'the IEEE evaluation of the same expressions is executed by the driver and compared exactly with the code, not reasoned about',
    'virtual recordings replace the detector by a stub and the memory map by zeros: they exercise batch placement, channel selection and the mode only; skipped (noted) when a Reader can no longer be set up without a file',
    'detrend: scipy.signal.medfilt is read as "zero-padded running median of odd length" (the model sorts the window); the helper is reached through the code object of detect_bad_channels and skipped (noted) when it is not there',
    'labels: the spectral feature estimators (FFT coherence with the median trace, Welch PSD, Butterworth) are external; the model starts at the feature vectors returned by the real function',
    'detection oracle domain: one silent channel, one noisy channel (50 uV), one top block of 0..40 channels (0..nc/4 on the reduced 64/96-channel probes) on a common-mode AP background (20 uV common, 5 uV independent noise, 0.1 or 0.3 s); '
    'the silent channel is placed in 1..nc-2 without a top block, resp. at least 7 channels below the block; the noisy channel is either background + noise (anywhere, also inside the block) '
    'or pure noise (then not 2..6 channels below the block and at least 11 channels from the silent one) — known findings dead-at-probe-ends, dead-just-below-top-block',
    'mode: n_batches >= 1 and the recording at least one batch long',
]
TRUSTED = [
    'numpy/scipy externals: np.matmul, np.sum, scipy.stats.mode (smallest most frequent value), np.linspace, scipy.signal.medfilt; np.exp / ** / np.abs(complex) are Real.exp / Real.rpow / sqrt in the theorems '
    'and Float.exp / Float.pow / Float.sqrt in the executed twin (compared to 1e-9)',
    'the spectral feature estimators of detect_bad_channels (scipy.fft, scipy.signal.welch/butter/sosfiltfilt) — only exercised, never modelled',
    'constants 0.005, -0.75, 0.02 / 1.4 (band switch at 2600 Hz) are hard-coded in Model/BadChannels.lean and tied to the source by cases on both sides of each; that the code calls detrend with the window 11 is not modelled (the detrend model and theorem are for every window)',
    'translator tie (harness/pyfn2lean.py, Tie/C15.lean): its reading of the source text of detect_bad_channels (label-vector size, guard of the outside-brain rule, gap-count literals), detrend (ntap) and detect_bad_channels_cbin (non-sync channel count)',
]
LEVEL_TEXT = ('Lean 4 theorems for all channel counts, label vectors, weight matrices and data: rows not labelled 1/2 are returned identical (for every scalar type, '
              'incl. IEEE Float); over the reals the sequential in-place loop equals the parallel repair from the original data for every visiting order, each repaired row '
              'is a convex combination of non-bad channels with raw weight >= cut-off (hence within their min/max at every sample) or zero when there is none; '
              'with the code\'s weights exp(-(d/krig)^p) (every geometry, p > 0, krig > 0) the contributing channels are EXACTLY the non-bad channels within the radius krig*log(1/thr)^(1/p), '
              'weights depend on the distance only, equidistant donors get equal coefficients and nearer ones never smaller; on the NP1 / NP2 lattices with the default parameters the donor set is '
              'given by an integer rule (<= 4 rows on NP2; <= 2 rows, or 3 rows and <= 32 um sideways, on NP1); '
              'label precedence 2 > 1 > 3, label 3 = exactly the contiguous low-coherence run ending at the last channel (none unless the last channel itself is low), file labels = smallest most frequent batch label '
              '(majority / unanimity corollaries), one flag per non-sync channel; batches of a file of any length lie inside it, start at sample 0, end at the last sample, evenly spaced (exact arithmetic); '
              'detrend = residual of a centred running median with edge replication, never reached by medfilt\'s zero padding; '
              'model tied to the code by a differential run and, for the decision skeleton of detect_bad_channels / detrend / detect_bad_channels_cbin, by the translator tie; '
              'detection of injected faults is NUMERIC ONLY (partial)')
LEVEL_NOTE = ('partial: "a silent channel is labelled dead, a noisy one noisy, a top block outside" is checked by a calibrated numeric oracle on synthetic recordings, not proved; '
              'the spectral estimators, scipy.stats.mode and medfilt are trusted externals (mode and medfilt are modelled and compared exactly); the float rounding of the weights and of the batch positions is executed and compared, not proved '
              '(theorems are over the reals); the translator tie covers only the integer/decision skeleton named above — interpolate_bad_channels, the label stores and the linspace loop are tied by the correspondence run alone; '
              'three input classes are known findings')
TECHNIQUE = ('Lean 4 proofs (induction over the repair loop, list-index arithmetic with omega for the cumsum/diff rule and the detrend padding, Mathlib ordered-field lemmas for convexity, '
             'Real.exp/rpow/log monotonicity and explicit exp bounds for the donor radius, Int.floor arithmetic for the batch placement) + source-to-Lean translator tie for the decision skeleton + '
             'differential run against a Float twin (incl. file-less virtual recordings) + numeric fault-injection oracle (partial)')

CUT = 0.005


# ---------------------------------------------------------------------------------------------
# helpers
# ---------------------------------------------------------------------------------------------
def _bits(a):
    a = np.ascontiguousarray(np.asarray(a, dtype='<f8')).ravel()
    return ','.join(map(str, a.view('<u8').tolist())) if a.size else '-'


def _unbits(tok):
    if tok == '-':
        return np.zeros(0)
    return np.array([int(v) for v in tok.split(',')], dtype='<u8').view('<f8')


def _ints(a):
    a = [int(v) for v in a]
    return ','.join(map(str, a)) if a else '-'


def _quiet(f, *a, **k):
    with warnings.catch_warnings():
        warnings.simplefilter('ignore')
        with np.errstate(all='ignore'):
            return f(*a, **k)


# ---------------------------------------------------------------------------------------------
# (a) interpolation cases
# ---------------------------------------------------------------------------------------------
GEOMS = ('np1', 'np2', 'npultra', 'line', 'jitter', 'dup', 'edge')


def geometry(kind, nc, rng):
    import neuropixel
    if kind in ('np1', 'np2', 'npultra', 'jitter', 'dup'):
        h = neuropixel.trace_header(version={'np1': 1, 'np2': 2, 'npultra': 'NPultra'}.get(kind, 1))
        x = np.asarray(h['x'][:nc], dtype=float)
        y = np.asarray(h['y'][:nc], dtype=float)
        if kind == 'jitter':
            x = x + np.round(rng.uniform(-6, 6, nc), 2)
            y = y + np.round(rng.uniform(-6, 6, nc), 2)
        if kind == 'dup' and nc >= 2:
            for _ in range(max(1, nc // 6)):
                a, b = rng.integers(0, nc, 2)
                x[a], y[a] = x[b], y[b]
        return x, y
    if kind == 'edge':      # spacings on both sides of the cut-off distance 72.12 um
        steps = rng.choice([72.0, 72.1, 72.2, 36.0, 36.1, 24.0, 24.1, 71.0, 73.0], nc)
        return np.zeros(nc), np.cumsum(steps) - steps[0]
    pitch = float(rng.choice([6., 15., 20., 36., 40., 60., 72., 73., 100.]))
    return np.zeros(nc), pitch * np.arange(nc, dtype=float)


def label_vector(kind, nc, rng):
    lab = np.zeros(nc, dtype=int)
    if kind == 'all-bad':
        lab[:] = rng.integers(1, 3, nc)
    elif kind == 'single':
        lab[rng.integers(0, nc)] = rng.integers(1, 3)
    elif kind == 'ends':
        lab[0] = rng.integers(1, 3)
        lab[-1] = rng.integers(1, 3)
        if nc > 2 and rng.random() < .5:
            lab[1] = rng.integers(1, 3)
    elif kind == 'cluster':
        for _ in range(int(rng.integers(1, 4))):
            n = int(rng.integers(2, 15))
            s = int(rng.integers(-2, max(nc - n + 3, 1)))
            lab[max(s, 0):max(s + n, 0)] = rng.integers(1, 3, len(lab[max(s, 0):max(s + n, 0)]))
    elif kind == 'random':
        lab = rng.choice(4, nc, p=[.5, .2, .2, .1])
    elif kind == 'mostly-bad':
        lab = rng.choice(4, nc, p=[.1, .4, .4, .1])
    if kind in ('top3', 'cluster', 'single') and rng.random() < .5:
        k = int(rng.integers(1, max(nc // 3, 2)))
        top = lab[nc - k:]
        top[top == 0] = 3
    if kind == 'top3':
        lab[rng.integers(0, nc)] = rng.integers(1, 3)
    return lab.astype(int)


LABEL_KINDS = ('none', 'all-bad', 'single', 'ends', 'cluster', 'random', 'mostly-bad', 'top3')
DATA_KINDS = ('normal', 'const', 'ramp', 'outlier', 'ints', 'pedestal', 'identity')
NONFINITE = ('none', 'channel', 'stretch', 'samples')


def data_matrix(kind, nc, ns, lab, y, rng):
    if kind == 'const':
        d = np.full((nc, ns), float(rng.choice([10., -3.5, 1e-5, 32767., 100.])))
    elif kind == 'ramp':
        d = y[:, None] * 0.5 + np.arange(ns)[None, :] * 1.0
    elif kind == 'ints':
        d = rng.integers(-32768, 32768, (nc, ns)).astype(float)
    elif kind == 'pedestal':                      # a range that excludes 0 (raw counts around an offset)
        d = float(rng.choice([1000., -2000., 300.])) + rng.uniform(0, 100, (nc, ns))
    elif kind == 'identity':                      # the output rows ARE the normalised weight vectors (first ns channels)
        d = np.eye(nc, ns) * float(rng.choice([1., 1000.]))
    elif kind == 'outlier':
        d = rng.uniform(1, 2, (nc, ns))
        bad = (lab == 1) | (lab == 2)
        d[bad, :] = rng.choice([-1e3, 1e3, 77.], (int(bad.sum()), ns))
    else:
        d = rng.standard_normal((nc, ns)) * float(rng.choice([1e-5, 1., 300.]))
    return np.ascontiguousarray(d, dtype=float)


# --- input forms: the same mathematical call in its legitimate representations -----------------
DTYPES = ('float64', 'float32', 'int16', 'int32')
ORDERS = ('C', 'F', 'T', 'strided')
DEFAULT_FORM = dict(dtype='float64', order='C', labels='int64', xy='float64', call='kw')


def draw_form(rng):
    return dict(dtype=str(rng.choice(DTYPES, p=[.4, .2, .2, .2])), order=str(rng.choice(ORDERS, p=[.55, .15, .15, .15])),
                labels=str(rng.choice(['int64', 'float64', 'int8', 'int32'], p=[.5, .3, .1, .1])),
                xy=str(rng.choice(['float64', 'float32', 'int'], p=[.6, .2, .2])), call=str(rng.choice(['kw', 'pos', 'kw-all'], p=[.5, .4, .1])))


def apply_form(c, form):
    """make the VALUES of the case representable in the drawn form (the model sees exactly the values the code sees)"""
    f = dict(form)
    d = c['data']
    if f['dtype'].startswith('int'):
        if np.all(np.abs(d) < 2):
            d = d * 1000.
        info = np.iinfo(f['dtype'])
        d = np.clip(np.rint(d), info.min, info.max)
    elif f['dtype'] == 'float32':
        d = d.astype(np.float32).astype(float)
    c['data'] = np.ascontiguousarray(d, dtype=float)
    if f['xy'] == 'int' and not (np.all(c['x'] == np.rint(c['x'])) and np.all(c['y'] == np.rint(c['y']))):
        f['xy'] = 'float64'
    if f['xy'] == 'float32':
        c['x'], c['y'] = c['x'].astype(np.float32).astype(float), c['y'].astype(np.float32).astype(float)
    c['form'] = f
    c['f32'] = f['dtype'] == 'float32'
    return ('dtype=' + f['dtype'], 'order=' + f['order'], 'labeldtype=' + f['labels'], 'xy=' + f['xy'], 'call=' + f['call'])


def _form(c):
    f = dict(DEFAULT_FORM)
    if c.get('f32'):
        f['dtype'] = 'float32'
    f.update(c.get('form') or {})
    return f


def native_data(c):
    """the data matrix in the case's dtype and memory layout (a fresh array each time: the function works in place)"""
    f = _form(c)
    d = c['data'].astype(f['dtype'])                      # exact: the values were made representable by apply_form
    if f['order'] == 'F':
        return np.asfortranarray(d)
    if f['order'] == 'T':
        return np.ascontiguousarray(d.T).T                # transposed view of a (ns, nc) C array
    if f['order'] == 'strided':
        big = np.full((2 * d.shape[0] + 1, 2 * d.shape[1] + 1), 77, dtype=d.dtype)
        v = big[1::2, ::2][:d.shape[0], :d.shape[1]]
        v[...] = d
        return v
    return np.ascontiguousarray(d)


def plant_nonfinite(c, how, rng, far=True):
    """NaN / +inf / -inf in BAD channels (whole channel, a stretch, single samples) and, optionally, in good channels
    that are no bad channel's donor: none of these rows may influence the result.  Donor rows stay finite."""
    if how == 'none' or _form(c)['dtype'].startswith('int'):
        return ()
    lab, d = c['lab'], c['data']
    bad = np.where((lab == 1) | (lab == 2))[0]
    if bad.size == 0:
        return ()
    ns = d.shape[1]
    tags = ['nonfinite=' + how]
    sel = bad if rng.random() < .5 else rng.choice(bad, size=max(1, bad.size // 2), replace=False)
    for i in sel:
        v = float(rng.choice([np.nan, np.nan, np.inf, -np.inf]))
        if how == 'channel':
            d[i, :] = v
        elif how == 'stretch':
            a = int(rng.integers(0, ns))
            d[i, a:a + int(rng.integers(1, ns + 1))] = v
        else:
            d[i, rng.integers(0, ns, size=int(rng.integers(1, 3)))] = v
    if far:
        W = _raw_weights(c)
        isbad = (lab == 1) | (lab == 2)
        nondonor = np.where(~isbad & ~np.any(W[isbad] >= CUT * (1 - 1e-4), axis=0))[0]
        if nondonor.size and rng.random() < .5:
            d[int(rng.choice(nondonor)), int(rng.integers(0, ns))] = np.nan
            tags.append('nan-in-good-non-donor')
    return tuple(tags)


def interp_cases(ctx):
    """list of dict(nc, ns, lab, x, y, data, p, krig, default, form, tags); data/x/y hold the float64 VALUES"""
    rng = ctx.rng
    out = []
    P0, K0 = float(ctx.consts.get('INTERP_P', 1.3)), float(ctx.consts.get('INTERP_KRIGING_UM', 20))   # defaults of the signature
    # every label vector on small probes
    nmax = ctx.n(4, 6)
    for gk in ('line20', 'np1', 'np2'):
        for nc in range(1, nmax + 1):
            if gk == 'line20':
                x, y = np.zeros(nc), 20.0 * np.arange(nc)
            else:
                x, y = geometry(gk, nc, rng)
            for code in range(4 ** nc):
                lab = np.array([(code // 4 ** k) % 4 for k in range(nc)], dtype=int)
                dk = DATA_KINDS[code % len(DATA_KINDS)]
                c = dict(nc=nc, ns=2, lab=lab, x=x.copy(), y=y.copy(), data=data_matrix(dk, nc, 2, lab, y, rng), p=P0, krig=K0, default=True,
                         tags=('interp', 'exhaustive-small', 'geom=' + gk, 'data=' + dk))
                c['tags'] += apply_form(c, draw_form(rng))
                c['tags'] += plant_nonfinite(c, NONFINITE[(code // len(DATA_KINDS)) % len(NONFINITE)], rng)
                out.append(c)
    for _ in range(ctx.n(400, 3000)):
        gk = str(rng.choice(GEOMS))
        r = rng.random()
        nc = int(rng.integers(1, 13)) if r < .35 else int(rng.integers(13, 65)) if r < .85 else int(rng.choice([96, 192, 384]))
        ns = int(rng.integers(1, 6)) if nc <= 64 else int(rng.integers(1, 4))
        x, y = geometry(gk, nc, rng)
        lk = str(rng.choice(LABEL_KINDS))
        lab = label_vector(lk, nc, rng)
        dk = str(rng.choice(DATA_KINDS))
        if dk == 'identity' and nc <= 64:
            ns = nc
        d = data_matrix(dk, nc, ns, lab, y, rng)
        dflt = bool(rng.random() < .8)
        if dflt:
            p, krig = P0, K0
        else:
            p, krig = float(rng.choice([1.0, 2.0, 0.5, 1.3])), float(rng.choice([10., 40., 200., 20.]))
        c = dict(nc=nc, ns=ns, lab=lab, x=x, y=y, data=d, p=p, krig=krig, default=dflt,
                 tags=('interp', 'random', 'geom=' + gk, 'labels=' + lk, 'data=' + dk, 'default-params' if dflt else 'other-params'))
        c['tags'] += apply_form(c, draw_form(rng))
        c['tags'] += plant_nonfinite(c, str(rng.choice(NONFINITE, p=[.5, .2, .15, .15])), rng)
        out.append(c)
    return out


def run_interp(c):
    """the real code on one case, called in the case's form; returns the output array (native dtype) or ('err', name)"""
    from ibldsp import voltage
    f = _form(c)
    d = native_data(c)
    lab = c['lab'].astype(f['labels'])
    xt = {'float64': float, 'float32': np.float32, 'int': np.int64}[f['xy']]
    x, y = c['x'].astype(xt), c['y'].astype(xt)
    dflt = bool(c.get('default'))                        # default cases use the signature's own defaults
    try:
        if f['call'] == 'pos':                           # positional, in the order of the documented signature
            a = (d, lab, x, y) if dflt else (d, lab, x, y, c['p'], c['krig'])
            r = _quiet(voltage.interpolate_bad_channels, *a)
        else:
            kw = {} if dflt else dict(p=c['p'], kriging_distance_um=c['krig'])
            if f['call'] == 'kw-all':
                r = _quiet(voltage.interpolate_bad_channels, data=d, channel_labels=lab, x=x, y=y, **kw)
            else:
                r = _quiet(voltage.interpolate_bad_channels, d, channel_labels=lab, x=x, y=y, **kw)
    except Exception as e:  # noqa
        return ('err', type(e).__name__)
    return np.asarray(r)


def _raw_weights(c):
    """raw decay weights for the bad rows — used ONLY to skip float-edge cases and by the oracle."""
    x, y = c['x'], c['y']
    d = np.hypot(x[None, :] - x[:, None], y[None, :] - y[:, None])
    with np.errstate(all='ignore'):
        return np.exp(-((d / c['krig']) ** c['p']))


def _tolerances(c):
    """(relative tolerance, absolute slack in counts, relative margin around the cut-off) for the case's form"""
    f = _form(c)
    single = f['dtype'] == 'float32' or f['xy'] == 'float32'      # float32 coordinates make the weights float32
    return (2e-6 if single else 1e-9), (1.0 if f['dtype'].startswith('int') else 0.0), (1e-5 if f['xy'] == 'float32' else 1e-9)


def interp_line(c):
    return ' '.join(['interp', str(c['nc']), str(c['ns']), _bits([c['p']]), _bits([c['krig']]), _ints(c['lab']),
                     _bits(c['x']), _bits(c['y']), _bits(c['data'])])


def _canon_interp(c, din, out):
    """exact part of the comparison (din, out in one dtype): untouched rows, all-zero bad rows."""
    lab = c['lab']
    bad = (lab == 1) | (lab == 2)
    touched = [int(j) for j in np.where(~bad)[0] if np.ascontiguousarray(din[j]).tobytes() != np.ascontiguousarray(out[j]).tobytes()]
    zero = [int(j) for j in np.where(bad)[0] if not np.any(out[j] != 0)]
    return touched, zero


def corr_interp(ctx):
    cases = interp_cases(ctx)
    lines = [interp_line(c) for c in cases]
    ans = ctx.lean(lines)
    nskip = 0
    for c, a in zip(cases, ans):
        lab = c['lab']
        bad = (lab == 1) | (lab == 2)
        f = _form(c)
        rel, counts, margin = _tolerances(c)
        desc = {'op': 'interp', 'nc': c['nc'], 'ns': c['ns'], 'labels': ''.join(map(str, lab.tolist())) if c['nc'] <= 64 else
                f'{int(bad.sum())} bad', 'geom': [t for t in c['tags'] if t.startswith('geom=')][0], 'p': c['p'], 'krig': c['krig'],
                'form': '/'.join(f[k] for k in ('dtype', 'order', 'labels', 'xy', 'call')), 'x0': float(c['x'][0]), 'd0': float(c['data'][0, 0])}
        W = _raw_weights(c)[bad]
        if W.size and np.any(np.abs(W - CUT) < margin * CUT):
            nskip += 1
            ctx.case(desc, nontrivial=False, tags=('interp', 'skipped-float-edge'))
            continue
        out = run_interp(c)
        if isinstance(out, tuple):
            impl_s, model_s = f'err {out[1]}', a[:60]
        elif not a.startswith('ok '):
            impl_s, model_s = 'ok', a[:60]
        elif out.shape != (c['nc'], c['ns']) or str(out.dtype) != f['dtype']:
            impl_s, model_s = f'shape {out.shape} dtype {out.dtype}', f"shape {(c['nc'], c['ns'])} dtype {f['dtype']}"
        else:
            m = _unbits(a[3:]).reshape(c['nc'], c['ns'])
            t_i, z_i = _canon_interp(c, c['data'].astype(f['dtype']), out)
            t_m, z_m = _canon_interp(c, c['data'], m)
            if counts:      # integer data: a mean inside (-1, 1) truncates to 0 — extra zero rows are covered by the one-count value check
                z_i = [j for j in z_i if j in z_m]
            cand = c['data'][~bad]
            cand = cand[np.isfinite(cand)]
            scale = float(np.max(np.abs(cand))) if cand.size else 0.0
            tol = rel * scale + counts          # integer data: the assignment truncates, within one count of the weighted mean
            o = out.astype(float)
            fin = np.isfinite(o) & np.isfinite(m)
            same_nonfinite = bool(np.all((np.isnan(o) & np.isnan(m)) | (o == m) | fin))   # NaN/inf only where the other has the same
            err = float(np.max(np.abs(o[fin] - m[fin]))) if fin.any() else 0.0
            close = same_nonfinite and err <= tol
            if not same_nonfinite:
                err = float('nan')
            impl_s = f'touched={t_i} zero={z_i} values=' + ('ok' if close else f'{o.ravel()[:6].tolist()} (max err {err:.3g} > {tol:.3g})')
            model_s = f'touched={t_m} zero={z_m} values=' + ('ok' if close else f'{m.ravel()[:6].tolist()}')
        nb = int(bad.sum())
        ok = ctx.compare('interp', desc, impl_s, model_s, nontrivial=nb > 0,
                         tags=c['tags'] + ('bad=0' if nb == 0 else 'bad=1' if nb == 1 else 'bad=2..5' if nb <= 5 else 'bad>5',
                                           'has-zero-row' if ('zero=[]' not in impl_s) else 'no-zero-row',
                                           'bad-at-end' if nb and (bad[0] or bad[-1]) else 'bad-inside-only',
                                           'nonfinite-input' if not np.all(np.isfinite(c['data'])) else 'finite-input'))
        if not ok:
            ctx.mismatches[-1]['payload'] = _interp_payload(c)
    if nskip:
        ctx.note(f'interp: {nskip} case(s) skipped because a raw weight was within the float margin of the cut-off')


def _interp_payload(c):
    return {'kind': 'interp', 'nc': c['nc'], 'ns': c['ns'], 'labels': c['lab'].tolist(), 'x': c['x'].tolist(), 'y': c['y'].tolist(),
            'data': c['data'].tolist(), 'p': c['p'], 'krig': c['krig'], 'default_params': bool(c.get('default')), 'form': _form(c)}


def _interp_from_payload(p):
    return dict(nc=p['nc'], ns=p['ns'], lab=np.array(p['labels'], dtype=int), x=np.array(p['x'], dtype=float),
                y=np.array(p['y'], dtype=float), data=np.array(p['data'], dtype=float).reshape(p['nc'], p['ns']),
                p=p['p'], krig=p['krig'], default=p.get('default_params', False), f32=p.get('f32', False), form=p.get('form'), tags=())


def oracle_interp(c):
    """C15 (repair) stated directly, on VALUES, on the real code called in the case's form.  None when it holds.
    'nearby' = raw decay weight exp(-(d/kriging)^p) of at least 0.005 (d <= 72.1 um with the defaults).
    Integer data: one count of slack (known finding int-data-truncation: the assignment truncates toward zero)."""
    lab = c['lab']
    bad = (lab == 1) | (lab == 2)
    f = _form(c)
    fs = '/'.join(f[k] for k in ('dtype', 'order', 'labels', 'xy', 'call'))
    out = run_interp(c)
    if isinstance(out, tuple):
        return f'interpolate_bad_channels raised {out[1]} (form {fs})'
    din = c['data'].astype(f['dtype'])
    if out.shape != din.shape:
        return f'output shape {out.shape} != input shape {din.shape} (form {fs})'
    for j in np.where(~bad)[0]:
        if np.ascontiguousarray(out[j]).astype(din.dtype).tobytes() != din[j].tobytes():
            t = int(np.where(out[j] != din[j])[0][0]) if np.any(out[j] != din[j]) else 0
            return (f'channel {int(j)} (label {int(lab[j])}, not dead/noisy) was modified: sample {t} '
                    f'{float(din[j, t])!r} -> {float(out[j, t])!r} (form {fs})')
    W = _raw_weights(c)
    rel, counts, margin = _tolerances(c)
    for i in np.where(bad)[0]:
        w = W[i]
        if np.any(np.abs(w - CUT) < margin * CUT):
            continue
        donors = np.where(~bad & (w >= CUT))[0]
        if donors.size == 0:
            if np.any(out[i] != 0):
                return f'bad channel {int(i)} has no nearby good/outside channel but was not zeroed: {out[i][:4].tolist()} (form {fs})'
            continue
        dd = din[donors].astype(float)
        okt = np.all(np.isfinite(dd), axis=0)          # samples at which every donor is finite (elsewhere nothing is demanded)
        if not okt.any():
            continue
        lo, hi = dd.min(axis=0), dd.max(axis=0)
        tol = rel * max(float(np.max(np.abs(dd[:, okt]))), 1e-300) + counts
        o = out[i].astype(float)
        viol = np.where(okt & ((o < lo - tol) | (o > hi + tol) | ~np.isfinite(o)))[0]
        if viol.size:
            t = int(viol[0])
            nf = [(int(a), int(b)) for a, b in zip(*np.where(~np.isfinite(din.astype(float))))][:6]
            return (f'bad channel {int(i)} sample {t}: repaired value {float(o[t])!r} outside the range '
                    f'[{float(lo[t])!r}, {float(hi[t])!r}] of its {donors.size} nearby good/outside channels {donors[:8].tolist()} (all finite'
                    + (', one count of slack for integer data' if counts else '') + f'; form {fs})'
                    + (f'; non-finite input samples (channel, sample) {nf} lie in channels that are not donors' if nf else ''))
    return None


# ---------------------------------------------------------------------------------------------
# (b) label logic on the features of the real detector; (d) fault injection
# ---------------------------------------------------------------------------------------------
def _common(rng, ns, fs):
    import scipy.signal
    c = rng.standard_normal(ns + 200)
    hi = min(6000., 0.4 * fs)
    lo = 300. if fs > 2600 else 5.
    sos = scipy.signal.butter(3, [lo / fs * 2, hi / fs * 2], btype='bandpass', output='sos')
    c = scipy.signal.sosfiltfilt(sos, c)[100:-100]
    return c / np.std(c)


def synth_fault(seed, nc, ns, fs=30000., dead=None, noisy=None, noisy_kind='add', top=0,
                common_uv=20., noise_uv=5., noisy_uv=50., silent_uv=0.):
    """coherent background (common band-limited signal + independent noise, volts) with injected faults"""
    rng = np.random.default_rng([int(seed), 1515])
    c = _common(rng, ns, fs) * common_uv * 1e-6
    x = np.tile(c, (nc, 1)) + rng.standard_normal((nc, ns)) * noise_uv * 1e-6
    if top:
        x[nc - top:, :] -= c                       # the top block lacks the common signal
    if noisy is not None:
        n = rng.standard_normal(ns) * noisy_uv * 1e-6
        x[noisy, :] = x[noisy, :] + n if noisy_kind == 'add' else n
    if dead is not None:
        x[dead, :] = rng.standard_normal(ns) * silent_uv * 1e-6
    return x


def fault_expected(nc, dead, noisy, top):
    e = np.zeros(nc, dtype=int)
    if top:
        e[nc - top:] = 3
    if dead is not None:
        e[dead] = 1
    if noisy is not None:
        e[noisy] = 2
    return e


def dead_position_allowed(nc, dead, top):
    """known findings: silent channel at a probe end, or within 6 channels below the top block"""
    if dead is None:
        return True
    if top == 0:
        return 1 <= dead <= nc - 2
    return 1 <= dead <= nc - top - 7


def noisy_position_allowed(nc, noisy, kind, top, dead=None):
    """a channel of pure noise (kind 'replace') carries no common signal, like a silent one: the same known finding
    excludes it 2..6 channels below the top block, and closer than 11 channels (one median window) to the silent channel"""
    if noisy is None:
        return True
    if noisy == dead:
        return False
    if kind == 'add':
        return True
    m = nc - top
    if top > 0 and m - 6 <= noisy <= m - 2:
        return False
    return dead is None or abs(dead - noisy) >= 11


def fault_in_domain(f):
    return (dead_position_allowed(f['nc'], f.get('dead'), f.get('top', 0)) and
            noisy_position_allowed(f['nc'], f.get('noisy'), f.get('noisy_kind', 'add'), f.get('top', 0), f.get('dead')))


DETECT_FORM = dict(dtype='float64', order='C', fs='float', call='pos')


def draw_detect_form(rng):
    return dict(dtype=str(rng.choice(['float64', 'float32'])), order=str(rng.choice(['C', 'F', 'T'], p=[.6, .2, .2])),
                fs=str(rng.choice(['float', 'int', 'np.float64', 'np.int64'])), call=str(rng.choice(['pos', 'kw', 'pos-all', 'kw-all'])))


def call_detect(x, fs, form=None, thr=None, psd=None):
    """the real detect_bad_channels on the recording x (volts) in a given input form: dtype and memory layout of raw, fs as
    Python/NumPy int/float (integral sampling rates only), positional (current signature order raw, fs, similarity_threshold,
    psd_hf_threshold) or keyword arguments.  thr/psd None = the signature's defaults (not passed unless call is *-all)."""
    from ibldsp import voltage
    f = dict(DETECT_FORM)
    f.update(form or {})
    raw = x.astype(f['dtype'])
    raw = np.asfortranarray(raw) if f['order'] == 'F' else np.ascontiguousarray(raw.T).T if f['order'] == 'T' else np.ascontiguousarray(raw)
    if float(fs) == int(fs):
        fsv = {'float': float(fs), 'int': int(fs), 'np.float64': np.float64(fs), 'np.int64': np.int64(fs)}[f['fs']]
    else:
        fsv = float(fs)
    explicit = thr is not None or psd is not None
    t = tuple(thr) if thr is not None else (-0.5, 1)
    if f['call'] == 'pos-all' or (f['call'] == 'pos' and explicit):
        return _quiet(voltage.detect_bad_channels, raw, fsv, t, psd)
    if f['call'] == 'kw-all' or (f['call'] == 'kw' and explicit):
        return _quiet(voltage.detect_bad_channels, raw=raw, fs=fsv, similarity_threshold=t, psd_hf_threshold=psd)
    if f['call'] == 'kw':
        return _quiet(voltage.detect_bad_channels, raw, fs=fsv)
    return _quiet(voltage.detect_bad_channels, raw, fsv)


def oracle_fault(f):
    """C15 (detection) stated directly on the real code.  f: dict(seed, nc, ns, fs, dead, noisy, noisy_kind, top[, form])"""
    x = synth_fault(f['seed'], f['nc'], f['ns'], f.get('fs', 30000.), f.get('dead'), f.get('noisy'),
                    f.get('noisy_kind', 'add'), f.get('top', 0), silent_uv=f.get('silent_uv', 0.))
    try:
        lab, feats = call_detect(x, f.get('fs', 30000.), f.get('form'))
    except Exception as e:  # noqa
        return f'detect_bad_channels raised {type(e).__name__}: {e} (form {f.get("form")})', None, None
    lab = np.asarray(lab)
    exp = fault_expected(f['nc'], f.get('dead'), f.get('noisy'), f.get('top', 0))
    if lab.shape != exp.shape:
        return f'labels shape {lab.shape}', lab, feats
    w = np.where(lab != exp)[0]
    if w.size:
        j = int(w[0])
        what = {1: 'the silent channel', 2: 'the noisy channel', 3: 'a channel of the top block lacking the common signal', 0: 'a healthy channel'}[int(exp[j])]
        return (f'channel {j} ({what}) labelled {int(lab[j])}, expected {int(exp[j])}; {w.size} channel(s) wrong: '
                f'{ {int(k): int(lab[k]) for k in w[:6]} }'), lab, feats
    return None, lab, feats


def fault_cases(ctx, n):
    rng = ctx.rng
    out = []
    for i in range(n):
        nc = int(rng.choice([384, 96, 64], p=[.5, .3, .2])) if not ctx.quick else int(rng.choice([384, 96, 64], p=[.25, .4, .35]))
        ns = int(rng.choice([9000, 3000])) if not ctx.quick else 3000
        top = int(rng.choice([0, 0, 1, 2, 3, 5, 6, 7, 11, 20, 40])) if rng.random() < .6 else int(rng.integers(0, 41))
        top = min(top, 40 if nc >= 384 else nc // 4)     # the block stays a minority of the probe (the reference is the median trace)
        f = dict(seed=int(rng.integers(0, 2 ** 31)), nc=nc, ns=ns, fs=30000., top=top, dead=None, noisy=None, noisy_kind='add', silent_uv=0.)
        hi = nc - 2 if top == 0 else nc - top - 7
        r = rng.random()
        if r < .85:
            f['dead'] = int(rng.choice([1, 2, hi, hi - 1])) if rng.random() < .35 else int(rng.integers(1, hi + 1))
            if rng.random() < .3:
                f['silent_uv'] = 0.05
        if rng.random() < .85:
            lim = nc if rng.random() < .3 else nc - top           # noisy channels also inside the top block
            cand = int(rng.choice([0, 1, lim - 1, nc - top - 1])) if rng.random() < .35 else int(rng.integers(0, lim))
            kind = str(rng.choice(['add', 'replace']))
            if cand >= 0 and noisy_position_allowed(nc, cand, kind, top, f['dead']):
                f['noisy'] = cand
                f['noisy_kind'] = kind
        assert fault_in_domain(f)
        f['form'] = draw_detect_form(rng)
        out.append(f)
    return out


def gain_profile_recording(rng, nc, ns, fs):
    """x_c = g_c * s + h_c * n_c: the coherence feature of channel c is g_c / median(g), which lets the case
    reach every branch of the decision rule (low runs anywhere, dead/noisy inside them, values above 1)."""
    g = np.ones(nc)
    kinds = []
    nrun = int(rng.integers(0, 4))
    for _ in range(nrun):
        n = int(rng.integers(1, max(nc // 3, 3)))
        where = rng.random()
        s = nc - n if where < .5 else int(rng.integers(0, nc - n + 1))
        g[s:s + n] = float(rng.choice([0.0, 0.1, 0.2, 0.24, 0.26, 0.3, 0.5]))
        kinds.append('run-top' if s + n == nc else 'run-inside')
    for _ in range(int(rng.integers(0, 5))):
        g[int(rng.integers(0, nc))] = float(rng.choice([0., -0.2, 0.4, 0.55, 1.6, 2.2, 3.0, -1.0]))
    if np.median(g) <= 0:
        g[: nc // 2 + 1] = 1.0
    s = _common(rng, ns, fs) * 20e-6
    h = np.full(nc, 1e-7)
    band_thr = 0.02 if fs > 2600 else 1.4
    for _ in range(int(rng.integers(0, 4))):     # PSD on both sides of the threshold: psd = 2 sigma^2 / fs  (uV^2/Hz)
        target = band_thr * float(rng.choice([0.5, 0.8, 1.25, 3.0, 50.]))
        h[int(rng.integers(0, nc))] = np.sqrt(target * fs / 2) * 1e-6
    x = g[:, None] * s[None, :] + h[:, None] * rng.standard_normal((nc, ns))
    return x, tuple(sorted(set(kinds)))


def _labels_line(nc, fs, thr, psd, feats):
    return ' '.join(['labels', str(nc), _bits([fs]), _bits([thr[0]]), _bits([thr[1]]), '-' if psd is None else _bits([psd]),
                     _bits(feats['xcor_hf']), _bits(feats['xcor_lf']), _bits(feats['psd_hf'])])


def corr_labels(ctx, extra):
    """extra: (desc, nc, fs, labels, feats) tuples from the fault-injection runs (default thresholds)."""
    from ibldsp import voltage
    rng = ctx.rng
    jobs = []
    for _ in range(ctx.n(100, 600)):
        nc = int(rng.integers(12, 80))
        fs = float(rng.choice([30000., 30000., 2500., 20000.]))
        ns = int(rng.choice([1024, 1500, 2048]))
        x, kinds = gain_profile_recording(rng, nc, ns, fs)
        r = rng.random()
        thr = (-0.5, 1.) if r < .6 else (float(rng.choice([-0.3, -0.7, -0.5])), float(rng.choice([0.8, 1.0, 1.5])))
        psd = None if rng.random() < .7 else float(rng.choice([0.02, 0.05, 1.4, 0.01]))
        kw = thr != (-0.5, 1.) or psd is not None
        form = draw_detect_form(rng)
        lab, feats = call_detect(x, fs, form, thr if thr != (-0.5, 1.) else None, psd)
        desc = {'op': 'labels', 'nc': nc, 'fs': fs, 'ns': ns, 'thr': list(thr), 'psd_thr': psd, 'x00': float(x[0, 0]),
                'form': '/'.join(form[k] for k in ('dtype', 'order', 'fs', 'call'))}
        jobs.append((desc, nc, fs, thr, psd, np.asarray(lab), feats, ('labels', 'gain-profile', 'band=' + ('ap' if fs > 2600 else 'lf'),
                     'default-thr' if not kw else 'explicit-thr', 'raw=' + form['dtype'], 'raw-order=' + form['order'],
                     'fs-form=' + form['fs'], 'detect-call=' + form['call']) + tuple(kinds)))
    for desc, nc, fs, lab, feats in extra:
        jobs.append((desc, nc, fs, (-0.5, 1.), None, np.asarray(lab), feats, ('labels', 'fault-injection', 'band=ap', 'default-thr')))
    lines = [_labels_line(nc, fs, thr, psd, feats) for (_, nc, fs, thr, psd, _, feats, _) in jobs]
    ans = ctx.lean(lines)
    for (desc, nc, fs, thr, psd, lab, feats, tags), a in zip(jobs, ans):
        li = [int(v) for v in lab]
        impl_s = 'ok ' + _ints(li) if np.all(lab == np.round(lab)) else 'non-integer labels ' + str(lab[:8])
        present = tuple('has-label-%d' % v for v in sorted(set(li)))
        # did the run reach the 'low run not at the top' / 'split run' branches?
        low = np.asarray(feats['xcor_lf']) < -0.75
        br = ('low-none' if not low.any() else 'low-not-at-top' if not low[-1] else
              'low-top-contiguous' if low[np.argmax(low):].all() else 'low-top-split')
        ctx.compare('labels', desc, impl_s, a, nontrivial=len(set(li)) > 1, tags=tags + present + (br,))


# ---------------------------------------------------------------------------------------------
# (c) detect_bad_channels_cbin: mode across batches, batch positions
# ---------------------------------------------------------------------------------------------
CBIN_FORM = dict(file='reader', call='kw', nb='int')


def _run_cbin(x, fs, n_batches, dur, planted=None, form=None):
    """write x (nc, ns volts) to a binary file and run the real detect_bad_channels_cbin on it, in a given input form:
      file='reader': flat float32 file opened as spikeglx.Reader (explicit nc/fs) and passed as an open Reader;
      file='str' / 'Path': 384 + 1 sync channel int16 file (the layout a meta-less Reader recognises), passed as a path;
      call: n_batches / batch_duration as keywords or positionally (current signature order); nb as int or np.int64.
    The sample slices asked of the Reader are recorded (class-level wrapper of Reader.__getitem__), the per-batch labels by a
    wrapper around the real detect_bad_channels (which may substitute planted label vectors to reach ties).
    Returns (flags, [batch labels], [(start, stop)])."""
    import spikeglx
    import neuropixel
    from ibldsp import voltage
    f = dict(CBIN_FORM)
    f.update(form or {})
    nc, ns = x.shape
    tmp = Path(tempfile.mkdtemp(prefix='c15_'))
    slices, batches = [], []
    real = voltage.detect_bad_channels
    real_getitem = spikeglx.Reader.__getitem__

    def getitem(self, item):
        s_ = item[0] if isinstance(item, tuple) else item
        slices.append((s_.start, s_.stop))
        return real_getitem(self, item)

    def wrapper(raw, fs, **kw):
        lab, feats = real(raw, fs, **kw)
        if planted is not None:
            lab = np.asarray(planted[len(batches)], dtype=float)
        batches.append(np.asarray(lab).copy())
        return lab, feats

    sr = None
    try:
        if f['file'] == 'reader':
            fn = tmp / 'rec.bin'
            np.ascontiguousarray(x.T.astype(np.float32)).tofile(fn)
            sr = arg = spikeglx.Reader(fn, nc=nc, ns=ns, fs=fs, dtype='float32', s2v=1.0, nsync=0)
        else:
            assert nc == 384 and fs == 30000 and ns % 192 != 0
            fn = tmp / 'rec.ap.bin'
            cnt = np.zeros((ns, 385), dtype=np.int16)
            cnt[:, :384] = np.clip(np.rint(x.T / neuropixel.S2V_AP), -32768, 32767)
            cnt.tofile(fn)
            arg = str(fn) if f['file'] == 'str' else fn
        nbv = np.int64(n_batches) if f['nb'] == 'np.int64' else int(n_batches)
        voltage.detect_bad_channels = wrapper
        spikeglx.Reader.__getitem__ = getitem
        try:
            if f['call'] == 'pos':
                flags = _quiet(voltage.detect_bad_channels_cbin, arg, nbv, dur)
            else:
                flags = _quiet(voltage.detect_bad_channels_cbin, arg, n_batches=nbv, batch_duration=dur)
        finally:
            voltage.detect_bad_channels = real
            spikeglx.Reader.__getitem__ = real_getitem
        return np.asarray(flags), batches, slices
    finally:
        if sr is not None:
            sr.close()
        shutil.rmtree(tmp, ignore_errors=True)


def cbin_cases(ctx, n):
    rng = ctx.rng
    out = []
    for k in range(n):
        form = dict(file='reader', call=str(rng.choice(['kw', 'pos'])), nb=str(rng.choice(['int', 'np.int64'], p=[.7, .3])))
        if k < 2 or rng.random() < .1:          # given a path: a 384 + sync int16 file at 30 kHz (what a meta-less Reader recognises)
            form['file'] = ('str', 'Path')[k] if k < 2 else str(rng.choice(['str', 'Path']))
            fs, nc = 30000, 384
            dur = float(rng.choice([0.05, 0.1]))
            nb = int(rng.choice([1, 2, 3]))
            nsb = int(dur * fs)
            ns = int(rng.integers(nsb, 3 * nsb))
            while ns % 192 == 0:
                ns += 1
        else:
            fs = int(rng.choice([30000, 30000, 2500, 20000]))
            nc = int(rng.integers(12, 40))
            dur = float(rng.choice([0.3, 0.3, 0.1, 0.05, 0.25]))
            nb = int(rng.choice([10, 10, 1, 2, 3, 4, 5, 7, 12]))
            nsb = int(dur * fs)
            ns = int(rng.choice([nsb, nsb + 1, nsb * 2, nsb * nb, int(nsb * nb * 1.37) + 3, int(rng.integers(nsb, nsb * 15))]))
            ns = min(ns, 200000)
            while (ns * nc * 4) % 768 == 0 or (ns * nc * 4) % 770 == 0:   # a meta-less Reader guesses 384/385 channels + sync from such sizes
                ns += 1
        out.append(dict(seed=int(rng.integers(0, 2 ** 31)), fs=fs, nc=nc, dur=dur, nb=nb, ns=ns,
                        planted=bool(rng.random() < .6), form=form))
    return out


def build_cbin(c):
    """recording whose faults change along the file + optionally planted per-batch labels (ties, all four values)"""
    rng = np.random.default_rng([c['seed'], 77])
    nc, ns, fs = c['nc'], c['ns'], c['fs']
    x = synth_fault(c['seed'], nc, ns, float(fs), top=int(rng.integers(0, 4)))
    # a channel dead during part of the file, a noisy one during another part
    a, b = sorted(rng.integers(0, ns, 2))
    x[int(rng.integers(1, nc - 8)), a:b] = 0
    a, b = sorted(rng.integers(0, ns, 2))
    x[int(rng.integers(1, nc - 8)), a:b] += rng.standard_normal(b - a) * 200e-6
    planted = None
    if c['planted']:
        planted = rng.choice(4, (c['nb'], nc), p=[.4, .2, .2, .2])
        if c['nb'] >= 2:   # exact ties on some channels
            planted[: c['nb'] // 2, 0] = 3
            planted[c['nb'] // 2:, 0] = 1
            planted[:, 1] = np.arange(c['nb']) % 4
    return x, planted


def oracle_cbin(c):
    """labels computed from a file are the per-channel mode over its batches (smallest label on ties, as
    scipy.stats.mode documents); batches evenly spaced from the start of the file to its end."""
    x, planted = build_cbin(c)
    try:
        flags, batches, slices = _run_cbin(x, c['fs'], c['nb'], c['dur'], planted, c.get('form'))
    except Exception as e:  # noqa
        return f'detect_bad_channels_cbin raised {type(e).__name__}: {e}', None
    nc = c['nc']
    if flags.shape != (nc,):
        return f'channel_flags has shape {flags.shape}, expected ({nc},)', None
    if len(batches) != c['nb']:
        return f'{len(batches)} batches analysed, {c["nb"]} requested', None
    for ch in range(nc):
        cnt = collections.Counter(int(b[ch]) for b in batches)
        best = max(cnt.values())
        mode = min(v for v, k in cnt.items() if k == best)
        if int(flags[ch]) != mode or flags[ch] != int(flags[ch]):
            return (f'channel {ch}: batch labels {[int(b[ch]) for b in batches]} have mode {mode}, '
                    f'returned {flags[ch]!r}'), (flags, batches, slices)
    # evenly spaced, inside the file, first at the start, last ending at the end (within one sample of rounding)
    nsb = c['dur'] * c['fs']
    st = [s[0] for s in slices]
    if st[0] != 0 or any(s[0] < 0 or s[1] > c['ns'] or not (nsb - 1 <= s[1] - s[0] <= nsb + 1) for s in slices):
        return f'batches are not inside the file / not batch_duration long: {slices[:4]}', (flags, batches, slices)
    if len(st) > 1:
        if abs(slices[-1][1] - c['ns']) > 1:
            return f'last batch {slices[-1]} does not end at the end of the file ({c["ns"]} samples)', (flags, batches, slices)
        d = np.diff(st)
        if d.max() - d.min() > 1:
            return f'batches not evenly spaced: starts {st}', (flags, batches, slices)
    return None, (flags, batches, slices)


def corr_cbin(ctx):
    cases = cbin_cases(ctx, ctx.n(25, 250))
    lines, meta = [], []
    for c in cases:
        x, planted = build_cbin(c)
        desc = {'op': 'mode', **{k: c[k] for k in ('seed', 'fs', 'nc', 'dur', 'nb', 'ns', 'planted')},
                'form': '/'.join((c.get('form') or CBIN_FORM)[k] for k in ('file', 'call', 'nb'))}
        pay = {'kind': 'cbin', **c}
        try:
            flags, batches, slices = _run_cbin(x, c['fs'], c['nb'], c['dur'], planted, c.get('form'))
        except Exception as e:  # noqa
            if not ctx.compare('mode', desc, f'err {type(e).__name__}: {e}'[:200], 'ok', tags=('mode', 'raised')):
                ctx.mismatches[-1]['payload'] = pay
            continue
        flat = np.concatenate(batches) if batches else np.zeros(0)
        if np.any(flat != np.round(flat)) or np.any(flat < 0):
            ctx.compare('mode', desc, 'non-integer batch labels', 'ok', tags=('mode',))
            continue
        nct, nsy = (385, 1) if (c.get('form') or CBIN_FORM)['file'] != 'reader' else (c['nc'], 0)   # channels in a frame, sync channels
        lines.append(f'mode {len(batches)} {nct} {nsy} ' + _ints(flat))
        cnts = [collections.Counter(int(b[ch]) for b in batches) for ch in range(c['nc'])]
        ties = sum(1 for k in cnts if sorted(k.values())[-2:].count(max(k.values())) == 2)
        meta.append(('mode', desc, 'ok ' + _ints(flags) if np.all(flags == np.round(flags)) else f'non-integer {flags[:6]}',
                     len(set(flat.tolist())) > 1, ('mode', 'file=' + (c.get('form') or CBIN_FORM)['file'], 'cbin-call=' + (c.get('form') or CBIN_FORM)['call'], 'planted' if c['planted'] else 'observed', 'ties' if ties else 'no-ties',
                                                   'nb=1' if c['nb'] == 1 else 'nb=2..5' if c['nb'] <= 5 else 'nb>5'), pay))
        lines.append(f'slices {c["ns"]} {_bits([float(c["fs"])])} {_bits([c["dur"]])} {c["nb"]}')
        d2 = dict(desc); d2['op'] = 'slices'
        meta.append(('slices', d2, 'ok ' + ';'.join(f'{a},{b}' for a, b in slices), c['nb'] > 1,
                     ('slices', 'dur=%g' % c['dur'], 'fs=%d' % c['fs'], 'one-batch-long' if c['ns'] <= int(c['dur'] * c['fs']) + 1 else 'longer'), pay))
    ans = ctx.lean(lines)
    for (op, desc, impl_s, nt, tags, pay), a in zip(meta, ans):
        if not ctx.compare(op, desc, impl_s, a, nontrivial=nt, tags=tags):
            ctx.mismatches[-1]['payload'] = pay
    # pure mode cases through scipy.stats.mode as the code calls it (axis=1 on a float matrix)
    import scipy.stats
    rng = ctx.rng
    lines, meta = [], []
    for _ in range(ctx.n(300, 3000)):
        nb, nc = int(rng.integers(1, 13)), int(rng.integers(1, 9))
        m = rng.choice(4, (nc, nb), p=rng.dirichlet([1, 1, 1, 1])).astype(float)
        fl, _ = scipy.stats.mode(m, axis=1)
        lines.append(f'mode {nb} {nc} 0 ' + _ints(m.T.ravel()))
        meta.append(({'op': 'mode-matrix', 'nb': nb, 'nc': nc, 'm': m.astype(int).tolist()}, 'ok ' + _ints(fl)))
    ans = ctx.lean(lines)
    for (desc, impl_s), a in zip(meta, ans):
        ctx.compare('mode-matrix', desc, impl_s, a, nontrivial=desc['nb'] > 1, tags=('mode-matrix',))


# ---------------------------------------------------------------------------------------------
# (c') detect_bad_channels_cbin on a VIRTUAL recording: every length / rate / duration / batch count, no file
# ---------------------------------------------------------------------------------------------
class _VirtualRaw:
    """stands for the memory map of a flat binary file of ns frames x nct channels (all zeros); records the sample slices read"""

    def __init__(self, ns, nct):
        self.ns, self.nct, self.asked = int(ns), int(nct), []

    def __getitem__(self, item):
        nsel = item[0] if isinstance(item, tuple) else item
        self.asked.append((nsel.start, nsel.stop))
        return np.zeros((len(range(*nsel.indices(self.ns))), self.nct), dtype=np.float32)

    def close(self):
        pass


def _virtual_reader(ns, nct, nsync, fs):
    """a spikeglx.Reader whose attributes are those of a meta-less Reader on a flat float32 file of ns x nct samples, with the
    memory map replaced by _VirtualRaw: the real Reader.read / __getitem__ / ns / nc / nsync / fs / rl run unmodified.
    Returns None when the Reader's internals no longer allow this (then the virtual cases are skipped, never reported)."""
    import spikeglx
    try:
        sr = spikeglx.Reader.__new__(spikeglx.Reader)
        sr.__dict__.update(geometry=None, ignore_warnings=True, ch_file=None, file_bin=Path('/nonexistent/virtual.bin'),
                           nbytes=int(ns) * int(nct) * 4, dtype=np.dtype('float32'), file_meta_data=None, meta=None,
                           _nc=int(nct), _fs=fs, _ns=int(ns), _nsync=int(nsync),
                           channel_conversion_sample2v={'samples': np.ones(int(nct))}, _raw=_VirtualRaw(ns, nct))
        ok = (sr.ns == ns and sr.nc == nct and sr.nsync == nsync and sr.fs == fs and sr.rl == ns / fs
              and sr[0:2, :1].shape == (min(2, ns), 1) and sr._raw.asked == [(0, 2)])
        sr._raw.asked.clear()
        return sr if ok else None
    except Exception:  # noqa
        return None


def virtual_cases(ctx, n):
    """(ns, nct, nsync, fs, dur, nb, seed): boundary-biased — file exactly one batch long, one sample longer, just short of two
    batches, very long files, non-integer sampling rates, durations that are not exact in binary, 1..40 batches"""
    rng = ctx.rng
    out = []
    for k in range(n):
        fs = float(rng.choice([30000., 30000., 2500., 20000., 30000.27, 29999.71, 2500.02, 1000., 32000.5]))
        if rng.random() < .4:
            fs = int(fs)                                        # a meta-less Reader stores the rate as an int
        dur = float(rng.choice([0.3, 0.3, 0.1, 0.05, 0.25, 1.0, 0.37, 0.01, 1 / 3]))
        nb = int(rng.choice([10, 10, 1, 2, 3, 4, 5, 7, 12, 25, 40])) if rng.random() < .8 else int(rng.integers(1, 41))
        nsb = int(dur * fs)
        need = int(np.ceil(dur * fs)) + 1                       # domain: the recording is at least one batch long
        r = rng.random()
        if r < .45:
            ns = int(rng.choice([need, need + 1, 2 * nsb - 1, 2 * nsb, 2 * nsb + 1, nb * nsb, nb * nsb + 1, nb * nsb - 1]))
        elif r < .8:
            ns = int(rng.integers(need, 40 * nsb + 2))
        else:
            ns = int(rng.choice([10 ** 7, 108_000_000, 2 ** 31 - 1, 2 ** 31 + 5, 10 ** 9 + 7])) + int(rng.integers(0, 1000))
        ns = max(ns, need)
        nsync = int(rng.choice([0, 0, 1, 1, 2]))
        nca = int(rng.integers(1, 7))
        out.append(dict(ns=ns, nct=nca + nsync, nsync=nsync, fs=fs, dur=dur, nb=nb, seed=int(rng.integers(0, 2 ** 31)),
                        call=str(rng.choice(['kw', 'pos']))))
    return out


def _planted(c):
    rng = np.random.default_rng([c['seed'], 78])
    nca, nb = c['nct'] - c['nsync'], c['nb']
    pl = rng.choice(4, (nb, nca), p=rng.dirichlet([2, 1, 1, 1]))
    if nb >= 2:                                                  # exact ties on channel 0; a clear majority on the last channel
        pl[: nb // 2, 0], pl[nb // 2:, 0] = 3, 1
        pl[:, -1] = 2
        pl[0, -1] = 0 if nb >= 3 else 2
    return pl


def _run_virtual(c):
    """the real detect_bad_channels_cbin on a virtual recording; the detector itself is replaced by a stub that hands back
    planted labels (what is exercised is the batch placement, the channel selection and the mode).
    Returns None when no virtual reader can be built, else (flags, raw shapes seen by the detector, slices read, fs seen)."""
    from ibldsp import voltage
    sr = _virtual_reader(c['ns'], c['nct'], c['nsync'], c['fs'])
    if sr is None:
        return None
    pl = _planted(c)
    seen, fss = [], []

    def stub(raw, fs=None, *a, **k):
        lab = np.zeros(np.shape(raw)[0])                            # one label per row the detector is given
        k = min(lab.size, pl.shape[1])
        lab[:k] = pl[len(seen)][:k]
        seen.append(tuple(np.shape(raw)))
        fss.append(fs)
        return lab, {'xcor_hf': np.zeros(lab.size), 'xcor_lf': np.zeros(lab.size), 'psd_hf': np.zeros(lab.size)}

    real = voltage.detect_bad_channels
    voltage.detect_bad_channels = stub
    try:
        if c.get('call') == 'pos':
            flags = _quiet(voltage.detect_bad_channels_cbin, sr, c['nb'], c['dur'])
        else:
            flags = _quiet(voltage.detect_bad_channels_cbin, sr, n_batches=c['nb'], batch_duration=c['dur'])
    finally:
        voltage.detect_bad_channels = real
    return np.asarray(flags), seen, list(sr._raw.asked), fss


def oracle_cbin_virtual(c):
    """the file half of C15 stated directly on a virtual recording: one flag per non-sync channel = smallest most frequent batch
    label; n_batches batches of batch_duration (one sample of rounding), inside the file, the first at its start, the last
    ending at its end, evenly spaced"""
    try:
        r = _run_virtual(c)
    except Exception as e:  # noqa
        return f'detect_bad_channels_cbin raised {type(e).__name__}: {e} on a {c["ns"]}-sample recording ({c["nb"]} batches of {c["dur"]} s at {c["fs"]} Hz)'
    if r is None:
        return None
    flags, seen, slices, _ = r
    pl = _planted(c)
    nca = c['nct'] - c['nsync']
    if flags.shape != (nca,):
        return f'channel_flags has shape {flags.shape}, the recording has {nca} non-sync channels'
    if len(seen) != c['nb'] or len(slices) != c['nb']:
        return f'{len(seen)} batches analysed, {c["nb"]} requested'
    for ch in range(nca):
        cnt = collections.Counter(int(v) for v in pl[:, ch])
        best = max(cnt.values())
        mode = min(v for v, k in cnt.items() if k == best)
        if flags[ch] != mode:
            return f'channel {ch}: batch labels {pl[:, ch].tolist()} have mode {mode}, returned {flags[ch]!r}'
    nsb = c['dur'] * c['fs']
    for (a, b), sh in zip(slices, seen):
        if a is None or b is None or a < 0 or b > c['ns'] or not (nsb - 1 <= b - a <= nsb + 1):
            return f'batch slice ({a}, {b}) is not inside the {c["ns"]}-sample file / not batch_duration ({nsb:.6g} samples) long'
        if sh != (nca, b - a):
            return f'the detector was given an array of shape {sh} for the slice ({a}, {b}) of {nca} non-sync channels'
    if slices[0][0] != 0:
        return f'first batch starts at sample {slices[0][0]}'
    if len(slices) > 1:
        if abs(slices[-1][1] - c['ns']) > 1:
            return f'last batch {slices[-1]} does not end at the end of the file ({c["ns"]} samples)'
        d = np.diff([a for a, _ in slices])
        if d.max() - d.min() > 1:
            return f'batches not evenly spaced: starts {[a for a, _ in slices][:8]}'
    return None


def corr_cbin_virtual(ctx):
    cases = virtual_cases(ctx, ctx.n(600, 6000))
    lines, meta = [], []
    nskip = 0
    for c in cases:
        desc = {'op': 'mode-virtual', **c}
        pay = {'kind': 'cbin-virtual', **c}
        try:
            r = _run_virtual(c)
        except Exception as e:  # noqa
            if not ctx.compare('mode-virtual', desc, f'err {type(e).__name__}: {e}'[:200], 'ok', tags=('mode-virtual', 'raised')):
                ctx.mismatches[-1]['payload'] = pay
            continue
        if r is None:
            nskip += 1
            continue
        flags, seen, slices, fss = r
        pl = _planted(c)
        nca = c['nct'] - c['nsync']
        shapes_ok = all(sh == (nca, b - a) for sh, (a, b) in zip(seen, slices)) and len(seen) == c['nb']
        lines.append(f'mode {c["nb"]} {c["nct"]} {c["nsync"]} ' + _ints(pl.ravel()))
        impl = ('ok ' + _ints(flags)) if (flags.ndim == 1 and np.all(flags == np.round(flags)) and shapes_ok) else \
            f'flags {flags.tolist()[:8]} detector input shapes {seen[:3]} for slices {slices[:3]}'
        cnts = [collections.Counter(int(v) for v in pl[:, ch]) for ch in range(nca)]
        ties = sum(1 for k in cnts if sorted(k.values())[-2:].count(max(k.values())) == 2)
        meta.append(('mode-virtual', desc, impl, c['nb'] > 1,
                     ('mode-virtual', 'nsync=%d' % c['nsync'], 'ties' if ties else 'no-ties',
                      'nb=1' if c['nb'] == 1 else 'nb=2..5' if c['nb'] <= 5 else 'nb>5', 'cbin-call=' + c['call']), pay))
        lines.append(f'slices {c["ns"]} {_bits([float(c["fs"])])} {_bits([c["dur"]])} {c["nb"]}')
        d2 = dict(desc); d2['op'] = 'slices-virtual'
        nsb = int(c['dur'] * c['fs'])
        meta.append(('slices-virtual', d2, 'ok ' + ';'.join(f'{a},{b}' for a, b in slices), c['nb'] > 1,
                     ('slices-virtual', 'fs-int' if float(c['fs']) == int(c['fs']) else 'fs-fractional',
                      'one-batch-long' if c['ns'] <= nsb + 2 else 'under-two-batches' if c['ns'] < 2 * nsb else
                      'huge' if c['ns'] >= 10 ** 7 else 'longer', 'dur=%.3g' % c['dur']), pay))
    ans = ctx.lean(lines)
    for (op, desc, impl_s, nt, tags, pay), a in zip(meta, ans):
        if not ctx.compare(op, desc, impl_s, a, nontrivial=nt, tags=tags):
            ctx.mismatches[-1]['payload'] = pay
    if nskip:
        ctx.note(f'virtual recordings: {nskip} case(s) skipped (a spikeglx.Reader can no longer be set up without a file); '
                 'the file cases of (c) remain')


# ---------------------------------------------------------------------------------------------
# (e) donors on the real probe lattices with the default parameters; (f) detrend
# ---------------------------------------------------------------------------------------------
DONOR_P, DONOR_KRIG = 1.3, 20.0      # the parameters the lattice theorems are stated for (passed EXPLICITLY to the code)


def donor_cases(ctx, n):
    rng = ctx.rng
    out = []
    for k in range(n):
        kind = ('np1', 'np2')[k % 2]
        nc = int(rng.choice([8, 12, 16, 24, 32, 48, 64, 96])) if rng.random() < .8 else int(rng.integers(1, 97))
        lk = str(rng.choice(['single', 'ends', 'cluster', 'random', 'mostly-bad', 'top3', 'all-bad']))
        out.append(dict(kind=kind, nc=nc, lab=label_vector(lk, nc, rng), lk=lk))
    return out


def _donor_case_as_interp(c):
    """the donors case as an interpolation case (identity data: output row c = the normalised weights of bad channel c)"""
    import neuropixel
    h = neuropixel.trace_header(version={'np1': 1, 'np2': 2}[c['kind']])
    nc = c['nc']
    return dict(nc=nc, ns=nc, lab=np.asarray(c['lab'], dtype=int), x=np.asarray(h['x'][:nc], dtype=float), y=np.asarray(h['y'][:nc], dtype=float),
                data=np.eye(nc), p=DONOR_P, krig=DONOR_KRIG, default=False, form=dict(DEFAULT_FORM), tags=())


def corr_donors(ctx):
    cases = donor_cases(ctx, ctx.n(120, 1200))
    sites = ctx.lean(['sites np1 96', 'sites np2 96'])
    model_xy = {}
    for kind, a in zip(('np1', 'np2'), sites):
        model_xy[kind] = np.array([[int(v) for v in q.split(',')] for q in a[3:].split(';')], dtype=float) if a.startswith('ok ') else None
    ans = ctx.lean([f'donors {c["kind"]} {c["nc"]} ' + _ints(c['lab']) for c in cases])
    nskip = 0
    for c, a in zip(cases, ans):
        ic = _donor_case_as_interp(c)
        mxy = model_xy[c['kind']]
        if mxy is None or not (np.array_equal(mxy[:c['nc'], 0], ic['x']) and np.array_equal(mxy[:c['nc'], 1], ic['y'])):
            nskip += 1          # neuropixel.trace_header no longer lays the sites out as the lattice theorems assume: nothing to compare
            continue
        lab = ic['lab']
        bad = np.where((lab == 1) | (lab == 2))[0]
        desc = {'op': 'donors', 'kind': c['kind'], 'nc': c['nc'], 'labels': ''.join(map(str, lab.tolist()))}
        out = run_interp(ic)
        if isinstance(out, tuple):
            impl_s = f'err {out[1]}'
        else:
            rows = []
            for i in bad:
                d = np.where(out[i] != 0)[0]
                rows.append(f'{int(i)}:' + (','.join(map(str, d.tolist())) if d.size else '-'))
            untouched = all(np.array_equal(out[j], ic['data'][j]) for j in range(c['nc']) if j not in set(bad.tolist()))
            impl_s = 'ok ' + (';'.join(rows) if rows else '-') + ('' if untouched else ' (good rows modified)')
        nd = [len(r.split(':')[1].split(',')) if not r.endswith(':-') else 0 for r in impl_s[3:].split(';')] if bad.size and impl_s.startswith('ok ') else [0]
        ok = ctx.compare('donors', desc, impl_s, a, nontrivial=bad.size > 0,
                         tags=('donors', 'lattice=' + c['kind'], 'labels=' + c['lk'], 'some-bad-without-donor' if 0 in nd and bad.size else 'all-bad-have-donors',
                               'max-donors>=12' if max(nd) >= 12 else 'max-donors<12'))
        if not ok:
            ctx.mismatches[-1]['payload'] = _interp_payload(ic)
    if nskip:
        ctx.note(f'donors: {nskip} case(s) skipped (neuropixel.trace_header differs from the lattice of Model/BadChannels.lean np1Site / np2Site)')


def _nested_function(fn, name):
    """a helper whose name contains `name` and that takes two arguments, as a callable: nested in `fn` (built from fn's code
    object; works when it closes over nothing) or at module level next to `fn`; None when there is none (then the cases are
    skipped, never reported)"""
    import types
    try:
        for c in fn.__code__.co_consts:
            if isinstance(c, types.CodeType) and name in c.co_name and not c.co_freevars and c.co_argcount == 2:
                return types.FunctionType(c, fn.__globals__, c.co_name)
        for k, g in fn.__globals__.items():
            if name in k and isinstance(g, types.FunctionType) and g.__module__ == fn.__module__ and g.__code__.co_argcount == 2:
                return g
        return None
    except Exception:  # noqa
        return None


def detrend_cases(ctx, n):
    rng = ctx.rng
    out = []
    for _ in range(n):
        nmed = int(rng.choice([11, 11, 11, 1, 3, 5, 7, 21]))
        r = rng.random()
        ln = int(rng.integers(1, 8)) if r < .3 else int(rng.choice([nmed // 2, nmed // 2 + 1, nmed - 1, nmed, nmed + 1, 2 * nmed])) if r < .6 else int(rng.integers(1, 60))
        ln = max(ln, 1)
        kind = str(rng.choice(['normal', 'small-ints', 'step', 'const', 'end-spikes', 'ramp']))
        if kind == 'normal':
            x = rng.standard_normal(ln)
        elif kind == 'small-ints':
            x = rng.integers(-2, 3, ln).astype(float)
        elif kind == 'step':
            x = np.where(np.arange(ln) < rng.integers(0, ln + 1), 1.0, float(rng.choice([-0.9, 5., 1.]))) + 0.0
        elif kind == 'const':
            x = np.full(ln, float(rng.choice([0., 1., -0.25, 1e-3])))
        elif kind == 'end-spikes':
            x = rng.standard_normal(ln) * 0.01
            x[0] = float(rng.choice([3., -3.])); x[-1] = float(rng.choice([3., -3.]))
        else:
            x = 0.1 * np.arange(ln) - 1.0
        out.append((nmed, np.asarray(x, dtype=float), kind))
    return out


def corr_detrend(ctx):
    from ibldsp import voltage
    f = _nested_function(voltage.detect_bad_channels, 'detrend')
    if f is None:
        ctx.note('detrend: the helper is not reachable as a nested / module-level function of ibldsp.voltage: cases skipped')
        return
    cases = detrend_cases(ctx, ctx.n(400, 4000))
    ans = ctx.lean([f'detrend {nmed} ' + _bits(x) for nmed, x, _ in cases])
    for (nmed, x, kind), a in zip(cases, ans):
        desc = {'op': 'detrend', 'nmed': nmed, 'n': int(x.size), 'x': [float(v) for v in x[:12]]}
        try:
            r = np.asarray(_quiet(f, x.copy(), nmed), dtype=float)
            impl_s = 'ok ' + _bits(r + 0.0)                      # -0.0 and 0.0 are the same value
        except Exception as e:  # noqa
            impl_s = f'err {type(e).__name__}'
        m = ('ok ' + _bits(_unbits(a[3:]) + 0.0)) if a.startswith('ok ') else a
        ctx.compare('detrend', desc, impl_s, m, nontrivial=x.size > 1 and nmed > 1,
                    tags=('detrend', 'nmed=%d' % nmed, 'data=' + kind, 'shorter-than-window' if x.size < nmed else 'window-fits'))


# ---------------------------------------------------------------------------------------------
def scale_interp_case(ctx, j):
    """a few channels, MORE samples than any block an implementation could work in (2^16, 30000, 60000 ...), not a multiple of them"""
    rng = ctx.subrng(23, j)
    P0, K0 = float(ctx.consts.get('INTERP_P', 1.3)), float(ctx.consts.get('INTERP_KRIGING_UM', 20))
    gk = str(rng.choice(GEOMS))
    nc = int(rng.integers(4, 13))
    ns = int(rng.choice([65536 + 1, 65536 + 4464, 70001, 100000, 131072 + 777, 2 * 60000 + 5]))
    x, y = geometry(gk, nc, rng)
    lab = np.zeros(nc, dtype=int)
    lab[rng.choice(nc, size=int(rng.integers(1, max(2, nc // 2))), replace=False)] = rng.choice([1, 2], size=1)
    if rng.random() < 0.4:
        lab[-1] = 3
    d = rng.standard_normal((nc, ns)) * 50 + 20.0 * np.arange(nc)[:, None]          # every channel around its own level
    c = dict(nc=nc, ns=ns, lab=lab, x=x, y=y, data=d, p=P0, krig=K0, default=True,
             tags=('interp', 'scale', 'scale-ns>65536', 'geom=' + gk))
    c['tags'] += apply_form(c, draw_form(rng))
    return c


def scale_interp(ctx):
    for j in range(ctx.n(4, 16)):
        c = scale_interp_case(ctx, j)
        r = oracle_interp(c)
        ctx.compare('interp-scale', {'op': 'interp-scale', 'j': j, 'nc': c['nc'], 'ns': c['ns'], 'labels': ''.join(map(str, c['lab'].tolist())),
                                     'form': '/'.join(_form(c)[k] for k in ('dtype', 'order', 'labels', 'xy', 'call'))},
                    'ok' if r is None else 'C15 fails at scale: ' + str(r)[:300], 'ok', tags=tuple(c['tags']))
        if r is not None:
            ctx.mismatches[-1]['payload'] = {'kind': 'interp-scale', 'j': j, 'seed': ctx.seed}


def correspondence(ctx):
    import time
    t0 = time.time()
    corr_interp(ctx)
    scale_interp(ctx)
    t1 = time.time()
    # (d) numeric oracle on injected faults, calibrated margins recorded
    extra, fails = [], []
    margins = {'dead_xcor_hf_max': -np.inf, 'good_xcor_hf_min': np.inf, 'noisy_psd_min': np.inf, 'good_psd_max': -np.inf,
               'top_xcor_lf_max': -np.inf, 'inbrain_xcor_lf_min': np.inf}
    for f in fault_cases(ctx, ctx.n(60, 600)):
        r, lab, feats = oracle_fault(f)
        desc = {'op': 'fault', **f}
        kinds = ('fault', 'nc=%d' % f['nc'], 'top=0' if f['top'] == 0 else 'top=1..5' if f['top'] <= 5 else 'top>5',
                 'dead=none' if f['dead'] is None else 'dead-near-end' if f['dead'] <= 2 or f['dead'] >= f['nc'] - f['top'] - 9 else 'dead-inside',
                 'noisy=none' if f['noisy'] is None else 'noisy-' + f['noisy_kind'] + ('-in-top-block' if f['noisy'] >= f['nc'] - f['top'] else ''),
                 'raw=' + f['form']['dtype'], 'raw-order=' + f['form']['order'], 'fs-form=' + f['form']['fs'], 'detect-call=' + f['form']['call'])
        ctx.compare('fault', desc, 'ok' if r is None else r, 'ok', tags=kinds)
        if r is not None:
            ctx.mismatches[-1]['payload'] = {'kind': 'fault', **f}
        if feats is not None and lab is not None:
            extra.append(({'op': 'labels', 'from': 'fault', **f}, f['nc'], f['fs'], lab, feats))
            e = fault_expected(f['nc'], f['dead'], f['noisy'], f['top'])
            xh, xl, ph = (np.asarray(feats[k]) for k in ('xcor_hf', 'xcor_lf', 'psd_hf'))
            if (e == 1).any():
                margins['dead_xcor_hf_max'] = max(margins['dead_xcor_hf_max'], float(xh[e == 1].max()))
            if (e == 2).any():
                margins['noisy_psd_min'] = min(margins['noisy_psd_min'], float(ph[e == 2].min()))
            g = (e == 0) | (e == 3)
            margins['good_xcor_hf_min'] = min(margins['good_xcor_hf_min'], float(xh[g].min()))
            margins['good_psd_max'] = max(margins['good_psd_max'], float(ph[g].max()))
            if (e == 3).any():
                margins['top_xcor_lf_max'] = max(margins['top_xcor_lf_max'], float(xl[e == 3].max()))
            if (e == 0).any():
                margins['inbrain_xcor_lf_min'] = min(margins['inbrain_xcor_lf_min'], float(xl[e == 0].min()))
    ctx.note('fault-injection oracle, feature margins on this run (thresholds: dead xcor_hf < -0.5, noisy psd_hf > 0.02, outside xcor_lf < -0.75): '
             + ', '.join(f'{k}={v:.3g}' for k, v in margins.items()))
    t2 = time.time()
    corr_labels(ctx, extra)
    t3 = time.time()
    corr_cbin(ctx)
    t4 = time.time()
    corr_cbin_virtual(ctx)
    t5 = time.time()
    corr_donors(ctx)
    corr_detrend(ctx)
    t6 = time.time()
    ctx.note(f'timing: interp {t1 - t0:.1f}s, fault oracle {t2 - t1:.1f}s, labels {t3 - t2:.1f}s, cbin/mode {t4 - t3:.1f}s, '
             f'virtual recordings {t5 - t4:.1f}s, donors/detrend {t6 - t5:.1f}s')
    ctx.exhaustive = False


# ---------------------------------------------------------------------------------------------
# failing-input search
# ---------------------------------------------------------------------------------------------
EXPECTED = ('C15: channels not labelled dead/noisy returned bit-identical; each dead/noisy channel within the range of its nearby good/outside channels at '
            'every sample, or zero when it has none; silent -> 1, strong broadband noise -> 2, top block lacking the common signal -> 3, others 0; '
            'file labels = per-channel mode over the batches')


def _small_interp_neighbourhood():
    """adversarial small cases: bad rows hold outliers, good rows a narrow band / a constant field"""
    rng = np.random.default_rng(1515)
    out = []
    for nc in range(1, 6):
        for gk, pitch in (('line', 20.), ('line', 15.), ('line', 40.), ('line', 60.), ('line', 72.), ('np2', None), ('np1', None)):
            if gk == 'line':
                x, y = np.zeros(nc), pitch * np.arange(nc)
            else:
                x, y = geometry(gk, nc, rng)
            for code in range(4 ** nc):
                lab = np.array([(code // 4 ** k) % 4 for k in range(nc)], dtype=int)
                for dk in ('const', 'outlier', 'nan-bad', 'inf-bad', 'const-int16', 'const-f32-F-pos'):
                    d = data_matrix('outlier' if dk == 'outlier' else 'const', nc, 1, lab, y, rng)
                    if dk != 'outlier':
                        d[:] = 10.0
                        d[(lab == 1) | (lab == 2)] = {'nan-bad': np.nan, 'inf-bad': np.inf}.get(dk, -500.0)
                    form = dict(DEFAULT_FORM)
                    if dk == 'const-int16':
                        form.update(dtype='int16', labels='float64', xy='int' if gk == 'line' else 'float64')
                    elif dk == 'const-f32-F-pos':
                        form.update(dtype='float32', order='F', call='pos')
                    out.append(dict(nc=nc, ns=1, lab=lab, x=x, y=y, data=d, p=1.3, krig=20., f32=form['dtype'] == 'float32', form=form, tags=()))
    return out


def _size(payload):
    if payload['kind'] == 'interp-scale':
        return (3, 10 ** 6, 10 ** 6, 0)
    if payload['kind'] == 'interp':
        return (0, payload['nc'], payload['ns'], sum(1 for v in payload['labels'] if v in (1, 2)))
    if payload['kind'] == 'fault':
        return (1, payload['nc'], payload['ns'], 0)
    if payload['kind'] == 'cbin-virtual':
        return (2, payload['nct'], min(payload['ns'], 10 ** 6), payload['nb'])
    return (2, payload['nc'], payload['ns'], payload['nb'])


def _check(payload):
    if payload['kind'] == 'interp':
        return oracle_interp(_interp_from_payload(payload))
    if payload['kind'] == 'fault':
        return oracle_fault(payload)[0]
    if payload['kind'] == 'cbin':
        return oracle_cbin(payload)[0]
    if payload['kind'] == 'cbin-virtual':
        return oracle_cbin_virtual(payload)
    if payload['kind'] == 'interp-scale':
        import framework as F
        import importlib
        c2 = F.Ctx('C15', 'quick', int(payload.get('seed', 0)), importlib.import_module('props.c15'))
        return oracle_interp(scale_interp_case(c2, int(payload['j'])))
    return None


HOW = {'interp-scale': 'python: harness/props/c15.py oracle_interp(scale_interp_case(ctx, input["j"])) with VERIF_SEED = input["seed"] — a few '
                       'channels, more than 65536 samples (random content regenerated from the seed), ibldsp.voltage.interpolate_bad_channels',
       'interp': 'python: harness/props/c15.py oracle_interp(_interp_from_payload(input)) — calls ibldsp.voltage.interpolate_bad_channels(data, labels, x, y, p, kriging_distance_um)',
       'fault': 'python: harness/props/c15.py oracle_fault(input) — synth_fault(seed, …) then ibldsp.voltage.detect_bad_channels(x, fs)',
       'cbin-virtual': 'python: harness/props/c15.py oracle_cbin_virtual(input) — ibldsp.voltage.detect_bad_channels_cbin on a spikeglx.Reader whose memory map is '
                       'replaced by an all-zero virtual array of input["ns"] x input["nct"] samples (no file), the detector replaced by a stub returning planted labels',
       'cbin': 'python: harness/props/c15.py oracle_cbin(input) — build_cbin(input) written to a flat float32 file, ibldsp.voltage.detect_bad_channels_cbin(Reader, n_batches, batch_duration)'}


def _shrink_interp(p, r, deadline):
    """greedy: drop samples, then channels, while the oracle still fails"""
    import time

    def drop_channel(q, j):
        k = dict(q)
        for key in ('labels', 'x', 'y', 'data'):
            k[key] = [v for i, v in enumerate(q[key]) if i != j]
        k['nc'] = q['nc'] - 1
        return k

    if p['ns'] > 1:
        for t in range(p['ns']):
            q = dict(p, ns=1, data=[[row[t]] for row in p['data']])
            rr = _check(q)
            if rr:
                p, r = q, rr
                break
    changed = True
    while changed and p['nc'] > 1 and time.time() < deadline:
        changed = False
        for j in reversed(range(p['nc'])):
            q = drop_channel(p, j)
            rr = _check(q)
            if rr:
                p, r, changed = q, rr, True
                break
    return p, r


def search(ctx, reasons):
    import time
    t0 = time.time()
    cands = []
    for m in ctx.mismatches[:60]:
        if m.get('payload'):
            cands.append(m['payload'])
    ops = {m['op'] for m in ctx.mismatches}
    only = None
    if ops and ops <= {'interp-scale'}:
        only = 'scale'
    elif ops and ops <= {'interp', 'donors'}:
        only = 'interp'
    elif ops and ops <= {'labels', 'fault', 'detrend'}:
        only = 'fault'
    elif ops and ops <= {'mode', 'slices', 'mode-matrix', 'mode-virtual', 'slices-virtual'}:
        only = 'cbin'
    best = None

    def consider(p):
        nonlocal best
        try:
            r = _check(p)
        except Exception as e:  # noqa
            r = f'oracle raised {type(e).__name__}: {e}'
        if r and (best is None or _size(p) < _size(best[0])):
            best = (p, r)
        return r

    for p in cands:
        consider(p)
    if only in (None, 'interp'):
        for c in _small_interp_neighbourhood():
            if best and best[0]['kind'] == 'interp' and best[0]['nc'] <= c['nc']:
                break
            consider(_interp_payload(c))
    if best is None and only in (None, 'interp'):
        for c in interp_cases(ctx)[-600:]:
            if time.time() - t0 > 120:
                break
            if consider(_interp_payload(c)) and best[0]['nc'] <= 8:
                break
    if best is None and only in (None, 'fault'):
        rng = np.random.default_rng(15)
        for nc, ns in ((64, 3000), (96, 3000), (384, 3000)):       # the calibrated recording sizes only
            for k in range(40):
                top = int(rng.choice([0, 0, 1, 3, 8]))
                hi = nc - 2 if top == 0 else nc - top - 7
                f = dict(kind='fault', seed=k, nc=nc, ns=ns, fs=30000., top=top, dead=int(rng.integers(1, hi + 1)) if k % 4 != 3 else None,
                         noisy=None, noisy_kind=str(rng.choice(['add', 'replace'])), silent_uv=0.)
                nz = int(rng.integers(0, nc))
                if k % 3 != 2 and noisy_position_allowed(nc, nz, f['noisy_kind'], top, f['dead']):
                    f['noisy'] = nz
                f['form'] = draw_detect_form(rng)
                if consider(f):
                    break
            if best:
                break
    if best is None and only in (None, 'cbin'):
        rng = np.random.default_rng(16)
        for k in range(40):
            c = dict(kind='cbin', seed=k, fs=30000, nc=12 + k % 5, dur=0.05, nb=int(rng.choice([2, 3, 4, 5, 10])), ns=int(rng.integers(3000, 20000)),
                     planted=True)
            if consider(c):
                break
        if best is None:
            for c in virtual_cases(ctx, 300):
                if consider(dict(kind='cbin-virtual', **c)):
                    break
        if best is None:
            for c in cbin_cases(ctx, 30):
                if consider(dict(kind='cbin', **c)):
                    break
    if best:
        p, r = best
        if p['kind'] == 'interp':
            p, r = _shrink_interp(p, r, t0 + 150)
        return {'input': p, 'observed': r, 'expected': EXPECTED, 'how': HOW[p['kind']]}
    return None


def replay(ctx, rep):
    r = _check(rep['input'])
    print('oracle:', r)
    return r is not None


# ---------------------------------------------------------------------------------------------
# known findings (detection, numeric): input classes excluded from the oracle domain
# ---------------------------------------------------------------------------------------------
def _kf_probe_ends():
    from ibldsp import voltage
    bad = 0
    for seed in (0, 1):
        for nc in (64, 384):
            for d, wrong in ((0, 0), (nc - 1, 3)):
                x = synth_fault(seed, nc, 3000, dead=d)
                lab, _ = _quiet(voltage.detect_bad_channels, x, 30000.)
                bad += int(lab[d] == wrong)
    return bad == 8


def _kf_below_block():
    from ibldsp import voltage
    bad = 0
    for seed in (0, 1):
        for top in (1, 3, 20):
            nc = 96
            m = nc - top
            for d in (m - 1, m - 4):
                x = synth_fault(seed, nc, 3000, dead=d, top=top)
                lab, _ = _quiet(voltage.detect_bad_channels, x, 30000.)
                bad += int(not np.array_equal(lab, fault_expected(nc, d, None, top)))
    return bad == 12


def _kf_int_truncation():
    """integer-typed data: `data[i, :] = <float64 weighted mean>` truncates toward zero, so a constant field c comes back as c-1
    whenever the float sum lands just below c (99.99999999999999 -> 99): outside the donors' range, by less than one count"""
    from ibldsp import voltage
    import neuropixel
    h = neuropixel.trace_header(version=1)
    lab = np.array([1, 0, 0, 0, 2, 3, 1, 1])
    hits = 0
    for dt in (np.int16, np.int32):
        d = np.full((8, 2), 100, dtype=dt)
        r = _quiet(voltage.interpolate_bad_channels, d, lab, h['x'][:8].astype(float), h['y'][:8].astype(float))
        hits += int(np.any(r[(lab == 1) | (lab == 2)] == 99))
    return hits == 2


def known_findings(ctx):
    return {'dead-at-probe-ends': _kf_probe_ends, 'dead-just-below-top-block': _kf_below_block, 'int-data-truncation': _kf_int_truncation}
