"""C05 — Destriping removes ADC-skewed common noise and keeps local spikes (ibldsp.voltage: destripe, car, kfilt, fk, agc)."""
import inspect
import struct

import numpy as np

ID = 'C05'
DRIVER = 'C05'
LEAN_TARGETS = ['IblVerif.Properties.C05']
THEOREMS = [
    'IblVerif.C05.groups_eq_per_group',
    'IblVerif.C05.group_rows',
    'IblVerif.C05.car_groups_eq_per_group',
    'IblVerif.C05.kfilt_groups_eq_per_group',
    'IblVerif.C05.fk_groups_eq_per_group',
    'IblVerif.C05.car_zero_median',
    'IblVerif.C05.car_zero_mean',
    'IblVerif.C05.car_other_is_identity',
    'IblVerif.C05.agc_product',
    'IblVerif.C05.outside_rows_untouched',
    'IblVerif.C05.car_kills_common_mode',
    'IblVerif.C05.kfilt_kills_common_mode',
    'IblVerif.C05.destripe_removes_aligned_common_mode',
    'IblVerif.C05.aligned_common_mode',
    'IblVerif.C05.destripe_removes_adc_skewed_stripe',
    'IblVerif.C05.adc_shift_lt_one',
    'IblVerif.C05.adc_tables_valid',
    'IblVerif.C05.adc_same_slot_same_shift',
    # growth round
    'IblVerif.C05.pad_strip_identity',
    'IblVerif.C05.pad_rows_index_map',
    'IblVerif.C05.pad_guard_needed',
    'IblVerif.C05.taper_range',
    'IblVerif.C05.kfilt_pad_taper_strip_identity',
    'IblVerif.C05.agc_gain_positive',
    'IblVerif.C05.agc_dead_iff_zero_row',
    'IblVerif.C05.agc_epsilon_rule',
    'IblVerif.C05.agc_window',
    'IblVerif.C05.sosfiltfilt_removes_constants',
    'IblVerif.C05.kfilt_sos_kills_common_mode',
    'IblVerif.C05.kfilt_stage_order',
    'IblVerif.C05.destripe_stage_order',
]
RULE = ('three layers. (1) exact: the ADC delay table of every probe generation (384 channels, k/n_cycles and ADC index), np.unique, the agc window '
        'length for lagc 0..40 and random lagc <= 5000, the defaults of _get_destripe_parameters for boundary sampling rates (2999/3000/3001 …). '
        '(2) Float twin of the Lean model vs the real voltage.car / agc / kfilt / fk / destripe / destripe_lfp and fourier.fshift on small arrays '
        '(1-30 channels, 1-60 samples): data drawn from 7 structured kinds (normal, small integers with ties, common mode + noise, identical rows, '
        'dead rows, sparse spikes, heavy tails) x scales 1e-6..1e3; channel groupings None / one group / contiguous shanks / interleaved / singletons / '
        'random labels incl. negative / big+singleton; operators median / average / unknown string; AGC lengths 1..300 and off (None, 0); mirror padding 0..nc, '
        'taper None/0/>0; Butterworth orders 1-4, high- and low-pass; array lengths straddling scipy\'s padlen (ValueError branch); label vectors with '
        '0/1/2/3 incl. outside channels on top of the probe; all four probe layouts and header slices; tolerance 1e-9 x scale. '
        '(3) the property stated directly on the real code (oracles, independent of the model): zero median/mean per group, groups = per group for car/kfilt/fk, '
        'agc product, exclusion of label-3 channels, >= 40 dB attenuation of ADC-skewed band-limited stripes (burst and stationary, 1-15 sinusoids, AP 0.4-12 kHz and '
        'LFP 5-250 Hz, NP1 / NP2x1 / NP2x4 / NPultra, k-filter and median, with outside / dead channels) and >= 90 % retention of spikes on 1 or 3 neighbouring channels '
        '(every depth in the thorough tier, probe ends over-sampled, alone and on a noise+stripe background). About half of the twin cases and 40 (300) generated ones are run as call sequences on the same argument objects: f, f, other library calls (agc / kfilt / fk / car / interpolate / destripe / destripe_lfp / fshift on their own arrays), f, then fshift on the same array; every result must be the one of the original values and the last one is what the model is compared with. A case is distinct by its full input; non-trivial when it has >= 2 channels. '
        '(4) growth round — intermediate values of the modelled mechanisms observed where the code hands them to numpy / scipy (a recording wrapper around the dependency, nothing in /repo is touched): '
        'the window length agc passes to np.hanning for dyadic wl / si (all half-way cases of the rounding exact) and decimal pairs incl. the defaults; the rows kfilt / fk pass to their filter for '
        'nx 1..13 x ntr_pad in {0, 1, 2, nx-1, nx} (row index map exact) and, for kfilt with the filter replaced by the identity, the rows it returns (un-padding); the taper values for ntr_tap None / <= / > ntr_pad (1e-12); '
        'the modelled scipy sosfiltfilt vs the real one for Butterworth orders 1-4 at lengths edge-1, edge, edge+1, edge+2, longer (noise, constant, random walk, impulse at the end; ValueError branch), the exact hypotheses '
        'b.sum() == 0, a.sum() != 0, a0 == 1 of every high-pass section; kfilt with the spatial filter modelled (sections as data) vs the real kfilt; agc on rows at the boundary of dead (one non-zero sample first / last / anywhere, '
        'all-zero rows, windows longer than the row, one-sample rows).')
ASSUMPTIONS = [
    'padding arguments with ntr_pad > number of channels are outside the model (NumPy returns another shape there); never generated',
    'with channel groups kfilt filters every group with ntr_pad=0, ntr_tap=None (what the code does); the property names filter, gain-control and operator settings only, '
    'so the groups oracle for kfilt uses callers with ntr_pad=0',
    'a few neighbouring channels = 1 or 3 (DESIGN §8: 5 equal channels give 0.885 on the unchanged code); spike half-widths 0.2-0.4 ms; retention measured on the centre channel '
    'against scipy sosfiltfilt(butter(3, 300 Hz)) of the spike alone; on a background it is the difference destripe(bg+spike) - destripe(bg)',
    'stripe attenuation = rms(input)/rms(output) over the good channels, whole window for bursts, interior (ns/8 margins) for stationary stripes (the re-alignment is circular); '
    'LFP stripes are bursts of >= 2048 samples (the 0.5 Hz band-pass transient of a stationary stripe fills shorter windows)',
    'the oracle builds the stripes with the documented ADC timing (12 channels/13 cycles NP1 and NPultra, 16/16 NP2), not with the repository table',
    'agc is compared through kfilt\'s calling convention (si=1, integer window length) and the default wl=0.5/si=0.002; float comparisons use 1e-9 x scale',
    'the unchanged code overwrites the array it is given in agc (and returns that same array), and in kfilt / fk when gain control is on and no collection is given '
    '(known finding agc-inplace, DESIGN §8): the model describes the values returned; call sequences restore exactly these arguments before every call and make no follow-up '
    'call on them. For every other argument a sequence [f, f, other library calls, f, fshift(x, 1)] on the same objects must keep returning the results of the original values; '
    'bit-identity of arguments and aliasing of results are recorded as tags only',
    'input forms: every sequence also makes the same call in another legitimate form — data as float32 / Fortran order / transposed view / strided view / read-only / int64 / int16 '
    '(integer-valued), labels as int64/int32/uint8/float64/float32, collection as int64/int8/float64/string labels/list, operator as str/np.str_, integer-valued scalars '
    '(fs, lagc, ntr_pad, ntr_tap, wl, si, dx) as int/float/np.float64/np.int64/narrow numpy ints/np.float32, keywords vs POSITIONAL arguments in the order of the current signatures — '
    'and compares VALUES (result dtype ignored) with the float64/keyword call: 1e-9 x scale, 1e-4 x scale for float32 data. Excluded forms: integer dtypes for agc / gain control on / '
    'channel groups / fshift (the unchanged code truncates: known findings int-dtype-agc, int-dtype-groups; fshift is C07), read-only data for the in-place class; '
    'unsupported by the API and never generated: labels or header entries as Python lists, vbounds as ndarray',
    'agc with epsilon > 0 (theorem hypothesis; the default is 1e-8); outside-brain oracle uses labels 0/3 only (bad channels next to outside ones use them as interpolation donors: C15)',
    'growth round: the agc window is compared exactly for dyadic wl / si (float quotient = rational quotient) and for decimal pairs whose quotient is not within 1e-6 of a half-way point '
    '(there the float path of the code and the rational reading of the model may legitimately round differently); the wrappers around np.hanning / scipy.signal.sosfiltfilt / np.fft.fft2 only '
    'record and delegate (identity filter for the un-padding observation) — when a wrapper is not reached (the code uses another entry point of the dependency) there is no observation and no demand '
    '(tag info:spy-not-reached-*); gain > 0 on live rows and dead = zero rows are compared between model and code as values of the returned gain, not demanded beyond data x gain = input',
    'translator tie: `ntr_pad = int(ntr_pad)` is read as the identity on integers, and in the stage items ntr_pad / ntr_tap denote the values after the two normalisation statements '
    '(which are tied separately); tests that are not integer comparisons (`x is None`, `not lagc`, `gpu`) are fixed per item (all combinations that matter are items); float quotients are read as exact rationals',
]
TRUSTED = [
    'scipy.signal.sosfiltfilt is linear and acts column by column (axis=0) / row by row: in the twin of car / kfilt / destripe it enters as a matrix measured on the identity each run; since the growth round its algorithm '
    '(scipy 1.18: odd extension, sosfilt_zi, forward / backward direct-form-II-transposed pass, un-padding, edge = 3 ntaps) is ALSO modelled from the installed source (Model/DestripeSos.lean) and compared with the real one each run',
    'the spatial high-pass removes constants (KillsConst): no longer an assumed law of the filter — proved for the modelled sosfiltfilt (sosfiltfilt_removes_constants) from the hypotheses "one section has b.sum() = 0, none has a.sum() = 0", '
    'which are asserted EXACTLY on the sections scipy.signal.butter returns for every high-pass design used (sos-hypotheses); still measured each run on the real filter as well (|L·1| <= 1e-9). The Butterworth design itself (butter) stays a trusted external',
    'the translator harness/pyfn2lean.py (its output lean/IblVerif/Generated/SrcC05.lean is plain Lean that can be read next to voltage.py), its reading of float quotients as exact rationals and its dropping of statements outside the integer skeleton',
    'fourier.convolve = textbook convolution (C18) and fourier.fshift = circular band-limited delay (C07); their time-domain forms in the model are compared with the real functions each run',
    'interpolate_bad_channels is a fixed linear map per label vector (C15), measured on the identity',
    'np.median = middle of the sorted vector / mean of the two middle values; np.unique = sorted distinct values',
    'aligned_common_mode is about periodic band-limited waveforms (harmonics strictly below Nyquist of the window) and assumes the temporal filter maps delayed samplings to delayed samplings (true for an LTI filter away from the window edges); the finite-window / edge effects are covered only by the stripe oracle',
]
LEVEL_TEXT = ('[growth round + translator tie, see the end] Lean 4 theorems over ℝ for the definitions the Float driver executes: zero median / zero mean per channel group at every sample; grouped filtering = per-group filtering '
              'with the same settings record (generic, + car / kfilt / fk instances, error propagation); agc data x gain = input at every sample (dead rows are zero rows); '
              'label-3 rows are neither inputs nor outputs of the spatial stage; a common mode is removed exactly by median / mean referencing and by the k-filter; '
              'ADC delays are proper fractions, equal within a sampling slot; the kernel of fshift(+sample_shift) turns a band-limited periodic waveform sampled sample_shift late into the waveform sampled on time (sign of the delay), hence destripe removes an ADC-skewed common disturbance exactly over ℝ. The model is tied to the code by a Float twin (1e-9) on car/agc/kfilt/fk/fshift/destripe/destripe_lfp. '
              'Growth round (all inputs, no enumeration): the mirrored padding of kfilt / fk as Python list operations — length, row index map, un-padding returns exactly the original rows for every ntr_pad <= nc, '
              'the guard `if ntr_pad > 0` is needed; taper in [0, 1] and = 1 on rows ntr_tap..nxp-ntr_tap, so padding + taper + un-padding leave the recorded channels untouched (identity filter, ntr_tap <= ntr_pad); '
              'agc gain > 0 at every sample of every row that is not identically zero, dead rows = zero rows (gain 0, data unchanged), gain >= epsilon x mean envelope, window odd and within [lagc, lagc+2]; '
              'scipy\'s sosfiltfilt as modelled (odd extension, sosfilt_zi, both passes) maps constants to 0 when one section has zero DC gain — hence the k-filter removes a common mode with NO assumed law about the filter; '
              'the functional models carry the stage lists (kfilt_stage_order, destripe_stage_order). '
              'Translator tie (Tie/C05.lean, re-proved against the source text on every run, for all arguments): agc ns_win for every rational wl / si = agcWinQ (and = agcWin lagc for kfilt\'s call); kfilt / fk nxp and the ntr_tap default; '
              'kfilt / fk without collection as the sequence copy | agc(si) -> taper [0, ntr_tap] over nxp rows iff ntr_tap > 0 -> filter (axis 0 / f-k multiplication); destripe as temporal filter -> fshift(+sample_shift, axis 1) iff a probe version is given '
              '-> interpolation + spatial stage on the inside rows (labels) | spatial stage on the whole array (no labels). '
              'PARTIAL: the magnitudes (>= 40 dB attenuation, >= 90 % spike retention) are only measured by the calibrated oracle on the real code.')
LEVEL_NOTE = ('partial: >= 40 dB and >= 90 % are numeric (oracle on the real code, calibration written to the evidence every run), the exact removal theorem is for periodic band-limited waveforms (finite-window edge effects and the transients of the temporal filter are numeric only). '
              'still only numeric / compared, not proved: the f-k multiplication of fk without collection (a measured table in the twin), the temporal filter and interpolate_bad_channels (measured matrices), '
              'np.median / np.unique semantics, the float rounding of every real-number theorem (1e-9 twin), the mirrored-padding SLICES of the source text (outside the translator\'s subset: tied by the exact row observation each run, not by the translator), '
              'the per-collection recursion\'s forwarded keyword arguments (for-loop over np.unique is outside the translator\'s subset: proved about the model, compared by twin + groups oracle). '
              'trusted: Lean kernel + Mathlib, the Python harness and its recording wrappers, the translator (pyfn2lean), scipy.signal.butter (sections checked for b.sum() == 0 exactly each run), scipy sosfiltfilt = its modelled algorithm (compared each run), '
              'fourier.convolve / fshift = their textbook forms (compared numerically)')
TECHNIQUE = ('Lean 4 + Mathlib proofs (sorting commutes with order-preserving maps, Finset sums, induction over the np.unique loop, roots-of-unity sums for the fractional-delay kernel) on a scalar-generic executable model; '
             'Float twin correspondence with external filters supplied as measured matrices or (growth round) as the modelled sosfiltfilt with the sections as data; list lemmas (take / drop / reverse / append) for the mirrored padding; '
             'direct-form-II-transposed fixed-point induction for the DC behaviour of the second-order sections; intermediate values observed exactly at the numpy / scipy boundary; '
             'translator tie: integer / decision / event-order skeleton of agc, kfilt, fk, destripe regenerated from voltage.py on every run and proved equal to the hand model (unfold + simp / omega / ring_nf / decide); '
             'calibrated numeric oracle for the dB / % magnitudes (partial)')

TOL = 1e-9
VERSIONS = [(1, 1), (2, 1), (2, 4), ('NPultra', 1)]


# ---------------------------------------------------------------------------------------------
# encoding helpers
# ---------------------------------------------------------------------------------------------
def _bits(a):
    a = np.ascontiguousarray(np.asarray(a, dtype='<f8')).ravel()
    if a.size == 0:
        return '-'
    return ','.join(map(str, a.view('<u8').tolist()))


def _unbits(tok, shape=None):
    if tok == '-':
        a = np.zeros(0)
    else:
        a = np.array([int(v) for v in tok.split(',')], dtype='<u8').view('<f8').astype(float)
    return a.reshape(shape) if shape is not None else a


def _ints(a):
    a = [int(v) for v in a]
    return ','.join(map(str, a)) if a else '-'


def _close(a, b, scale):
    a, b = np.asarray(a, float), np.asarray(b, float)
    if a.shape != b.shape:
        return False
    if a.size == 0:
        return True
    if not (np.all(np.isfinite(a)) and np.all(np.isfinite(b))):
        return False
    return bool(np.max(np.abs(a - b)) <= TOL * max(scale, 1e-300))


def _summary(a):
    a = np.asarray(a, float)
    return f'shape={list(a.shape)} head={np.round(a.ravel()[:6], 12).tolist()}'


def _cmp_arrays(ctx, op, desc, impl, model_ans, shape, scale, nontrivial=True, tags=()):
    """impl: ndarray or 'err X'; model_ans: driver answer line."""
    if isinstance(impl, str):
        return ctx.compare(op, desc, impl, model_ans.split(' ', 1)[0] + ' ' + model_ans.split(' ', 1)[1] if model_ans.startswith('err') else 'ok …',
                           nontrivial=nontrivial, tags=tags + ('error-branch',))
    if not model_ans.startswith('ok '):
        return ctx.compare(op, desc, 'ok ' + _summary(impl), model_ans[:80], nontrivial=nontrivial, tags=tags)
    m = _unbits(model_ans[3:], shape)
    good = _close(impl, m, scale)
    if good:
        return ctx.compare(op, desc, 'ok', 'ok', nontrivial=nontrivial, tags=tags)
    k = int(np.argmax(np.abs(np.nan_to_num(impl - m, nan=np.inf))))
    return ctx.compare(op, desc, f'ok {_summary(impl)} worst@{k}={impl.ravel()[k]!r}', f'ok {_summary(m)} worst@{k}={m.ravel()[k]!r}',
                       nontrivial=nontrivial, tags=tags)


# ---------------------------------------------------------------------------------------------
# call sequences: the Lean model is a function of its arguments, so the implementation must behave like one for a user who
# calls it repeatedly on the same objects, or mixes it with other functions of the library.  `run_sequence` executes a concrete
# call sequence on live objects and reports a problem only through its property-level consequence: a RESULT that is not the
# result belonging to the ORIGINAL argument values.  (Whether an argument is bit-identical after a call, or whether a result
# aliases an internal buffer, is recorded as information only — no property of C05 speaks about it.)
# ---------------------------------------------------------------------------------------------
import copy

DEFAULT_STEPS = ['call', 'call-form', 'interleave', 'call', 'follow-up']

# ---- input forms: every legitimate representation of the same values / the same call must give the same answer ---------------
# Parameter ORDER and defaults of the signatures as they are in the unchanged tree: a positional caller relies on exactly this.
# (If the order in the source changes, `inspect.signature` shows it — recorded as a tag — and the positional call below, spelled in THIS
# order, returns a wrong result or raises: that result is what is reported.)
POSITIONAL = {
    'agc': [('x',), ('wl', 0.5), ('si', 0.002), ('epsilon', 1e-8), ('gpu', False)],
    'fk': [('x',), ('si', 0.002), ('dx', 1), ('vbounds', None), ('btype', 'highpass'), ('ntr_pad', 0), ('ntr_tap', None), ('lagc', 0.5),
           ('collection', None), ('kfilt', None)],
    'car': [('x',), ('collection', None), ('operator', 'median')],
    'kfilt': [('x',), ('collection', None), ('ntr_pad', 0), ('ntr_tap', None), ('lagc', 300), ('butter_kwargs', None), ('gpu', False)],
    'destripe': [('x',), ('fs',), ('h', None), ('neuropixel_version', 1), ('butter_kwargs', None), ('k_kwargs', None), ('channel_labels', None),
                 ('k_filter', True)],
    'destripe_lfp': [('x',), ('fs',), ('h', None), ('channel_labels', None), ('butter_kwargs', None), ('k_filter', False)],
    'fshift': [('w',), ('s',), ('axis', -1), ('ns', None)],
}
DATA_FORMS = ['f64C', 'f32', 'F', 'Tview', 'strided', 'readonly', 'int64', 'int16']
SCALAR_KEYS = ('lagc', 'ntr_pad', 'ntr_tap', 'wl', 'si', 'dx')


def signature_order_changed(name):
    import inspect
    want = [q[0] for q in POSITIONAL[name]]
    have = [k for k, v in inspect.signature(_fn(name)).parameters.items() if v.kind not in (v.VAR_KEYWORD, v.VAR_POSITIONAL)]
    return have[:len(want)] != want


def _data_form(x, form):
    """the same values in another representation (None when the form cannot hold these values)"""
    x = np.asarray(x)
    if form == 'f64C':
        return np.array(x, dtype=float, order='C')
    if form == 'f32':
        return x.astype(np.float32)
    if form == 'F':
        return np.asfortranarray(x.astype(float))
    if form == 'Tview':
        return np.ascontiguousarray(x.astype(float).T).T if x.ndim == 2 else x.astype(float)
    if form == 'strided':
        big = np.full(tuple(2 * n for n in x.shape), np.nan)
        sl = tuple(slice(None, None, 2) for _ in x.shape)
        big[sl] = x
        return big[sl]
    if form == 'readonly':
        r = np.array(x, dtype=float)
        r.setflags(write=False)
        return r
    if form in ('int64', 'int16'):
        lim = 32767 if form == 'int16' else 2 ** 52
        if x.size and np.all(np.isfinite(x)) and np.all(x == np.round(x)) and np.max(np.abs(x)) <= lim:
            return x.astype(form)
        return None
    raise KeyError(form)


def _scalar_form(v, form):
    if v is None or isinstance(v, (bool, np.bool_)) or not isinstance(v, (int, float, np.integer, np.floating)):
        return v
    whole = float(v) == round(float(v))
    if form == 'py':
        return int(v) if whole else float(v)
    if form == 'float':
        return float(v)
    if form == 'np.float64':
        return np.float64(v)
    if not whole:
        return np.float64(v)
    iv = int(round(float(v)))
    if form == 'np.int64':
        return np.int64(iv)
    if form == 'narrow':
        return np.uint8(iv) if 0 <= iv <= 255 else np.int16(iv) if abs(iv) <= 32767 else np.int32(iv)
    if form == 'np.float32':
        return np.float32(iv) if abs(iv) < 2 ** 24 else np.float64(iv)
    raise KeyError(form)


def _collection_form(c, form):
    if c is None:
        return None
    c = np.asarray(c)
    if form == 'int64':
        return c.astype(np.int64)
    if form == 'int8':
        return c.astype(np.int8) if np.all(np.abs(c) < 127) else c
    if form == 'float64':
        return c.astype(float)
    if form == 'str':
        return np.array([f'shank{int(v):+d}' for v in c])
    if form == 'list':
        return [int(v) for v in c]
    raise KeyError(form)


def draw_form(rng, name):
    return {'data': str(rng.choice(DATA_FORMS)), 'labels': str(rng.choice(['int64', 'int32', 'uint8', 'float64', 'float32'])),
            'collection': str(rng.choice(['int64', 'int8', 'float64', 'str', 'list'])), 'operator': str(rng.choice(['str', 'np.str_'])),
            'scalars': str(rng.choice(['py', 'float', 'np.float64', 'np.int64', 'narrow', 'np.float32'])),
            'spelling': str(rng.choice(['keyword', 'positional', 'positional']))}


def apply_form(name, args, kwargs, form):
    """(args', kwargs', tolerance factor, note) — the same call in another legitimate form; (None, None, None, why) when the form is excluded:
    integer dtypes for agc / gain control / channel groups (known findings int-dtype-agc, int-dtype-groups), read-only data for the in-place class."""
    args, kwargs = copy.deepcopy(list(args)), copy.deepcopy(dict(kwargs))
    tol = 1e-9
    inplace = bool(_documented_inplace(name, args, kwargs))
    kk = kwargs.get('k_kwargs') if isinstance(kwargs.get('k_kwargs'), dict) else None
    has_coll = kwargs.get('collection') is not None or (kk is not None and kk.get('collection') is not None)
    df = form.get('data', 'f64C')
    if df in ('int64', 'int16') and (name in ('agc', 'fshift') or has_coll or (name in ('kfilt', 'fk') and inplace)):
        df = 'f64C'                                                   # excluded: the unchanged code truncates (known findings)
    if df == 'readonly' and inplace:
        df = 'f64C'                                                   # unsupported by the API: the in-place functions need a writeable array
    xf = _data_form(args[0], df)
    if xf is None:
        df, xf = 'f64C', _data_form(args[0], 'f64C')
    args[0] = xf
    if df == 'f32':
        tol = 1e-4
    sf = form.get('scalars', 'py')
    if sf == 'np.float32':
        tol = 1e-4                                                    # a float32 scalar makes NumPy compute derived parameters (300 / fs * 2) in float32
    if name in ('destripe', 'destripe_lfp'):
        args[1] = _scalar_form(args[1], sf)
    for d in (kwargs, kk):
        if d is None:
            continue
        for k in SCALAR_KEYS:
            if k in d:
                d[k] = _scalar_form(d[k], sf)
        if d.get('collection') is not None:
            d['collection'] = _collection_form(d['collection'], form.get('collection', 'int64'))
        if isinstance(d.get('operator'), str) and form.get('operator') == 'np.str_':
            d['operator'] = np.str_(d['operator'])
    if isinstance(kwargs.get('channel_labels'), np.ndarray):
        kwargs['channel_labels'] = kwargs['channel_labels'].astype(form.get('labels', 'int64'))
    if form.get('spelling') == 'positional':
        table = POSITIONAL[name]
        names = [q[0] for q in table]
        given = [k for k in kwargs if k in names]
        last = max([len(args) - 1] + [names.index(k) for k in given])
        for pos in range(len(args), last + 1):
            k = names[pos]
            args.append(kwargs.pop(k) if k in kwargs else copy.deepcopy(table[pos][1]))
    return args, kwargs, tol, {**form, 'data': df}


def _call_text(name, args, kwargs):
    def short(v):
        if isinstance(v, np.ndarray):
            return f'<{v.dtype}{list(v.shape)}{"" if v.flags.c_contiguous else " non-C"}{"" if v.flags.writeable else " read-only"}>'
        if isinstance(v, dict):
            return '{' + ', '.join(f'{k}: {short(w)}' for k, w in v.items()) + '}'
        return repr(v)
    return f"{name}({', '.join([short(a) for a in args] + [f'{k}={short(v)}' for k, v in kwargs.items()])})"


def _value_diff(a, b, tol, scale):
    """a (result of another form) against b (result of the base form) as VALUES: dtypes may differ"""
    if isinstance(b, (tuple, list)):
        if not isinstance(a, (tuple, list)) or len(a) != len(b):
            return 'another number of results'
        for k, (u, v) in enumerate(zip(a, b)):
            d = _value_diff(u, v, tol, scale)
            if d:
                return f'result[{k}]: {d}'
        return None
    a, b = np.asarray(a, float), np.asarray(b, float)
    if a.shape != b.shape:
        return f'shape {list(a.shape)}, expected {list(b.shape)}'
    if a.size == 0:
        return None
    bad = ~((np.abs(a - b) <= tol * scale) | (np.isnan(a) & np.isnan(b)) | (a == b))
    if bad.any():
        k = int(np.argmax(bad.ravel()))
        return f'element {k} is {a.ravel()[k]!r}, expected {b.ravel()[k]!r}'
    return None


def _fn(name):
    from ibldsp import voltage, fourier
    return {'car': voltage.car, 'agc': voltage.agc, 'kfilt': voltage.kfilt, 'fk': voltage.fk, 'destripe': voltage.destripe,
            'destripe_lfp': voltage.destripe_lfp, 'fshift': fourier.fshift}[name]


def _enc(o):
    if isinstance(o, np.ndarray):
        return {'__nd__': o.tolist(), 'dtype': str(o.dtype)}
    if isinstance(o, dict):
        return {str(k): _enc(v) for k, v in o.items()}
    if isinstance(o, (list, tuple)):
        return [_enc(v) for v in o]
    if isinstance(o, np.generic):
        return o.item()
    return o


def _dec(o):
    if isinstance(o, dict):
        if '__nd__' in o:
            return np.array(o['__nd__'], dtype=o['dtype'])
        return {k: _dec(v) for k, v in o.items()}
    if isinstance(o, list):
        return [_dec(v) for v in o]
    return o


def _diff(a, b, path='arg'):
    """first place where object `a` is not bit-identical to `b`, or None"""
    if isinstance(b, np.ndarray):
        if not isinstance(a, np.ndarray) or a.dtype != b.dtype or a.shape != b.shape:
            return f'{path}: type/shape/dtype differ'
        if a.tobytes() != b.tobytes():
            af, bf = a.astype(float).ravel(), b.astype(float).ravel()
            k = int(np.argmax((af != bf) & ~(np.isnan(af) & np.isnan(bf)))) if a.size else 0
            return f'{path}: element {k} is {a.ravel()[k]!r}, expected {b.ravel()[k]!r}'
        return None
    if isinstance(b, dict):
        if not isinstance(a, dict) or list(a.keys()) != list(b.keys()):
            return f'{path}: keys {list(a.keys()) if isinstance(a, dict) else type(a).__name__}, expected {list(b.keys())}'
        for k in b:
            d = _diff(a[k], b[k], f'{path}[{k!r}]')
            if d:
                return d
        return None
    if isinstance(b, (list, tuple)):
        if not isinstance(a, type(b)) or len(a) != len(b):
            return f'{path}: is {a!r}, expected {b!r}'
        for k, (u, v) in enumerate(zip(a, b)):
            d = _diff(u, v, f'{path}[{k}]')
            if d:
                return d
        return None
    if isinstance(b, float) and b != b:
        return None if (isinstance(a, float) and a != a) else f'{path}: is {a!r}, expected nan'
    return None if (type(a) is type(b) and a == b) else f'{path}: is {a!r}, expected {b!r}'


def _documented_inplace(name, args, kwargs):
    """positions of the arguments the UNCHANGED code overwrites (DESIGN §8, ASSUMPTIONS, known finding `agc-inplace`): agc works in place on x
    (`x[~dead] = x / gain`, and returns that x); kfilt / fk call agc on their own x when gain control is on and no collection is given
    (with a collection x[sel] is a copy).  Exactly this class is excluded: before every call of a sequence these arguments get their
    original values back (same object), and no follow-up call is made on them."""
    if name == 'agc':
        return [0]
    if name in ('kfilt', 'fk') and kwargs.get('collection') is None:
        lagc = kwargs.get('lagc', 300 if name == 'kfilt' else 0.5)
        if lagc:
            return [0]
    return []


def _arrays_of(r):
    if isinstance(r, np.ndarray):
        return [r]
    if isinstance(r, (tuple, list)):
        return [a for v in r for a in _arrays_of(v)]
    if isinstance(r, dict):
        return [a for v in r.values() for a in _arrays_of(v)]
    return []


def _interleave():
    """Other functions of the library between two identical calls, each working (some of them in place) on its OWN arrays."""
    from ibldsp import voltage, fourier
    import neuropixel
    r = np.random.default_rng(20260929)
    voltage.agc(r.normal(size=(6, 16)), wl=3.0, si=1.0)
    voltage.kfilt(r.normal(size=(14, 8)), lagc=3, ntr_pad=2)
    voltage.fk(r.normal(size=(6, 8)), si=0.002, dx=1, vbounds=[1, 100], lagc=0.01, ntr_pad=1)
    voltage.fk(r.normal(size=(8, 8)), si=1.0, dx=1.0, vbounds=[1, 100], lagc=None, kfilt={'bounds': [0.0, 0.2], 'btype': 'highpass'})
    voltage.car(r.normal(size=(5, 7)), collection=np.array([0, 1, 0, 1, 1]), operator='average')
    voltage.interpolate_bad_channels(r.normal(size=(8, 4)), np.array([0, 1, 0, 0, 2, 0, 3, 0]), np.zeros(8), np.arange(8.) * 20)
    for ver, nsh in VERSIONS:
        h = neuropixel.trace_header(version=ver, nshank=nsh)
        voltage.destripe(r.normal(size=(20, 24)), 30000, h={k: np.asarray(v)[:20] for k, v in h.items()},
                         k_kwargs={'ntr_pad': 2, 'ntr_tap': 0, 'lagc': 5, 'butter_kwargs': {'N': 3, 'Wn': 0.01, 'btype': 'highpass'}},
                         channel_labels=np.array([0] * 17 + [1, 3, 3]))
    voltage.destripe_lfp(r.normal(size=(384, 24)), 2500)
    fourier.fshift(r.normal(size=(3, 9)), np.array([0.5, 0.25, 0.0]))
    fourier.fscale(8, 1.0)
    fourier.convolve(r.normal(size=(2, 9)), np.hanning(3), mode='same')


def run_sequence(name, args, kwargs, steps=None, info=None, form=None):
    """Run `steps` with the SAME argument objects.  Returns (results, problem).  results = copies of what each call returned.
    problem = None, or the first RESULT that is not the one belonging to the original argument values:
      * a repeated call (same objects, possibly after other library calls) not returning what call #1 returned;
      * follow-up: `fourier.fshift(x, 1)` on an array argument after the calls not returning `fshift(original x, 1)`.
    `info` (list) receives informational notes (arguments found modified) that are never a problem by themselves."""
    from ibldsp import fourier
    fn = _fn(name)
    steps = list(steps or DEFAULT_STEPS)
    inplace = _documented_inplace(name, args, kwargs)
    snap_args, snap_kw = copy.deepcopy(args), copy.deepcopy(kwargs)
    results, ncall, hist = [], 0, []
    for st in steps:
        if st == 'call':
            for k in inplace:
                np.copyto(args[k], snap_args[k])
            ncall += 1
            hist.append(f'{name}#{ncall}')
            res = copy.deepcopy(fn(*args, **kwargs))
            if info is not None:
                for k, (a, b) in enumerate(zip(args, snap_args)):
                    if k not in inplace and _diff(a, b):
                        info.append(f'positional argument {k} modified by call #{ncall}')
                if _diff(kwargs, snap_kw):
                    info.append(f'keyword argument modified by call #{ncall}')
            if results:
                d = _diff(res, results[0], 'result')
                if d:
                    return results + [res], (f'sequence [{" ; ".join(hist)}] on the same argument objects: call #{ncall} does not return what call #1 '
                                             f'returned for these arguments — {d}')
            results.append(res)
        elif st == 'call-form' and results:
            for k in inplace:
                np.copyto(args[k], snap_args[k])
            fa, fk_, tol, used = apply_form(name, snap_args, snap_kw, form or {})
            text = _call_text(name, fa, fk_)
            hist.append(text)
            if info is not None:
                info.append('form ' + ' '.join(f'{k}={v}' for k, v in used.items()))
            scale = max([1e-300] + [float(np.max(np.abs(np.nan_to_num(np.asarray(r, float))))) for r in _arrays_of(results[0]) + [np.asarray(snap_args[0])] if np.size(r)])
            try:
                res = fn(*fa, **fk_)
            except Exception as e:
                return results, (f'the call in the form {text} raised {type(e).__name__}: {e} — the same call with keywords / float64 C-ordered data '
                                 f'returned a result  [sequence: {" ; ".join(hist)}]')
            d = _value_diff(res, results[0], tol, scale)
            if d:
                return results, (f'the call in the form {text} does not return the values that the same call with keywords / float64 C-ordered data '
                                 f'returns — {d}  [sequence: {" ; ".join(hist)}]')
        elif st == 'interleave':
            hist.append('other library calls on their own arrays')
            _interleave()
        elif st == 'follow-up':
            for k, (a, b) in enumerate(zip(args, snap_args)):
                if k in inplace or not (isinstance(a, np.ndarray) and a.dtype.kind == 'f' and a.ndim in (1, 2) and a.shape[-1] >= 2):
                    continue
                got, want = fourier.fshift(a, 1.0), fourier.fshift(b.copy(), 1.0)
                d = _diff(got, want, 'result')
                if d:
                    return results, (f'sequence [{" ; ".join(hist)} ; fourier.fshift(x, 1)] on the same array x: fshift does not return the shifted '
                                     f'ORIGINAL x any more — {d} ({name} changed the array it was given)')
    return results, None


def _seq_call(ctx, rng, name, args, kwargs, p=0.5):
    """What the twin sections use instead of a plain call: runs a call sequence (probability p) or a single call, reports property-level
    consequences of carried state, and returns the result of the LAST call — which the caller compares with the Lean model of the original
    values (so the model is compared with a result obtained after repeated / interleaved use of the same objects)."""
    steps = DEFAULT_STEPS if rng.random() < p else ['call']
    form = draw_form(rng, name)
    spec = {'fn': name, 'args': _enc(args), 'kwargs': _enc(kwargs), 'steps': steps, 'form': form}
    info = []
    results, prob = run_sequence(name, args, kwargs, steps=steps, info=info, form=form)
    ctx.compare('sequence', {'op': 'sequence', **spec}, 'consistent' if prob is None else 'violated: ' + prob, 'consistent',
                tags=('sequence', 'sequence-' + name, 'repeated+interleaved+follow-up' if len(steps) > 1 else 'single-call',
                      'documented-inplace-x' if _documented_inplace(name, args, kwargs) else 'x-not-documented-inplace')
                     + tuple('form:' + t for i_ in info if i_.startswith('form ') for t in i_.split()[1:])
                     + (('info:argument-modified',) if any('modified' in i_ for i_ in info) else ())
                     + (('info:signature-order-changed',) if signature_order_changed(name) else ()))
    if prob is not None:
        ctx.__dict__.setdefault('_purity_fails', []).append((spec, prob))
    return results[-1]


def oracle_sequence(i):
    """a user who calls a function of the destriping chain repeatedly on the same objects, with other library calls in between, and then uses
    the same array with another function, gets every time the result that belongs to the original values (known exclusion: x of agc, and of
    kfilt / fk without collection when gain control is on, is overwritten by the unchanged code)"""
    args, kwargs = _dec(i['args']), _dec(i['kwargs'])
    try:
        _, prob = run_sequence(i['fn'], args, kwargs, steps=i.get('steps'), form=i.get('form'))
    except (ValueError, AssertionError):
        return None          # the function rejects these arguments outright: nothing to repeat
    return prob


# ---------------------------------------------------------------------------------------------
# generators
# ---------------------------------------------------------------------------------------------
def _gen_matrix(rng, nc, ns):
    """Structured data: mixed scales, ties, integer values, zero rows, identical rows (common mode)."""
    kind = int(rng.integers(0, 7))
    scale = float(10.0 ** rng.integers(-6, 4))
    if kind == 0:
        x = rng.normal(size=(nc, ns))
    elif kind == 1:                                  # small integers: many ties in the median
        x = rng.integers(-3, 4, size=(nc, ns)).astype(float)
    elif kind == 2:                                  # common mode + small independent part
        x = np.tile(rng.normal(size=(1, ns)), (nc, 1)) + 1e-3 * rng.normal(size=(nc, ns))
    elif kind == 3:                                  # exactly identical rows
        x = np.tile(rng.normal(size=(1, ns)), (nc, 1))
    elif kind == 4:                                  # some dead (all zero) rows
        x = rng.normal(size=(nc, ns))
        x[rng.random(nc) < 0.3] = 0
    elif kind == 5:                                  # sparse spikes
        x = np.zeros((nc, ns))
        for _ in range(int(rng.integers(1, 4))):
            x[int(rng.integers(0, nc)), int(rng.integers(0, ns))] = rng.normal() * 10
        x += 0.01 * rng.normal(size=(nc, ns))
    else:                                            # heavy tails
        x = rng.standard_cauchy(size=(nc, ns))
    tag = ['normal', 'int-ties', 'common+noise', 'identical-rows', 'dead-rows', 'sparse', 'heavy-tail'][kind]
    return x * scale, tag


def _gen_collection(rng, nc):
    """Channel groups: None, one group, contiguous shanks, interleaved, singletons, unsorted / negative labels."""
    kind = int(rng.integers(0, 7))
    if kind == 0 or nc == 0:
        return None, 'coll=None'
    if kind == 1:
        return np.zeros(nc, int) + int(rng.integers(-2, 3)), 'coll=one-group'
    if kind == 2:
        k = int(rng.integers(2, 5))
        return (np.arange(nc) * k // nc), 'coll=contiguous'
    if kind == 3:
        k = int(rng.integers(2, 5))
        return np.arange(nc) % k, 'coll=interleaved'
    if kind == 4:
        return rng.permutation(nc) - nc // 2, 'coll=singletons'
    if kind == 5:
        k = int(rng.integers(2, 5))
        vals = rng.choice(np.arange(-5, 6), size=k, replace=False)
        return vals[rng.integers(0, k, nc)], 'coll=random'
    c = np.zeros(nc, int)
    c[int(rng.integers(0, nc))] = 7                      # one singleton group among a big one
    return c, 'coll=big+singleton'


def _coll_tok(coll):
    return 'N' if coll is None else _ints(coll)


# ---------------------------------------------------------------------------------------------
# external operators measured on the real dependencies
# ---------------------------------------------------------------------------------------------
_SOS_CACHE = {}


def _spatial_operator(butter_kwargs, n):
    """matrix of sosfiltfilt(butter(**kw), ·, axis=0) on n rows, or None when scipy rejects the length"""
    import scipy.signal
    key = (tuple(sorted((k, str(v)) for k, v in butter_kwargs.items())), n)
    if key not in _SOS_CACHE:
        sos = scipy.signal.butter(**butter_kwargs, output='sos')
        try:
            _SOS_CACHE[key] = scipy.signal.sosfiltfilt(sos, np.eye(n), axis=0)
        except ValueError:
            _SOS_CACHE[key] = None
    return _SOS_CACHE[key]


def _padlen(butter_kwargs):
    """largest column length that scipy's sosfiltfilt rejects (measured, not re-derived)"""
    n = 1
    last_bad = 0
    while n <= 64:
        if _spatial_operator(butter_kwargs, n) is None:
            last_bad = n
        n += 1
    return last_bad


def _ltable(butter_kwargs, sizes):
    parts = []
    for n in sorted(set(int(s) for s in sizes)):
        m = _spatial_operator(butter_kwargs, n)
        if m is not None:
            parts.append(f'{n}:{_bits(m)}')
    return ';'.join(parts) if parts else '-'


# ---------------------------------------------------------------------------------------------
# correspondence
# ---------------------------------------------------------------------------------------------
def _exact_part(ctx):
    import neuropixel
    from ibldsp import voltage
    c = ctx.consts
    lines, impl, meta = [], [], []
    for ver, ch, cyc in ((1, c['ADC_NP1_CHANNELS'], c['ADC_NP1_CYCLES']), ('NPultra', c['ADC_NP1_CHANNELS'], c['ADC_NP1_CYCLES']),
                         (2, c['ADC_NP2_CHANNELS'], c['ADC_NP2_CYCLES']), (2.4, c['ADC_NP2_CHANNELS'], c['ADC_NP2_CYCLES'])):
        ss, adc = neuropixel.adc_shifts(version=ver)
        lines.append(f'adc {ch} {cyc} {len(ss)}')
        impl.append((ss, adc))
        meta.append(('adc', ver))
    model = ctx.lean(lines)
    for (op, ver), (ss, adc), ans in zip(meta, impl, model):
        ent = [tuple(int(v) for v in e.split('/')) for e in ans[3:].split(';')]
        ok = len(ent) == len(ss) and all(a / b == float(s) and k == int(q) for (a, b, k), s, q in zip(ent, ss, adc))
        ctx.compare('adc', {'op': 'adc_shifts', 'version': str(ver)}, 'ok' if ok else f'shifts[:16]={ss[:16].tolist()} adc[:16]={adc[:16].tolist()}',
                    'ok' if ok else ans[:120], tags=('adc-table',))
    # defaults of _get_destripe_parameters and the agc window length
    lines, impl, descs = [], [], []
    for fs in [1, 250, 1000, 2500, 2999, 3000, 3001, 12500, 30000, 30003, 32000] + [int(v) for v in ctx.rng.integers(1, 60000, ctx.n(10, 60))]:
        for kf in (True, False):
            _, kk, _ = voltage._get_destripe_parameters(fs, None, None, kf)
            bk = kk['butter_kwargs']
            impl.append(f"ok pad={kk['ntr_pad']} tap={kk['ntr_tap']} lagc={'N' if kk['lagc'] is None else kk['lagc']}")
            if not (bk == {'N': 3, 'Wn': 0.01, 'btype': 'highpass'}):
                impl[-1] += f' butter={bk}'
            lines.append(f'params {fs}')
            descs.append({'op': 'params', 'fs': fs, 'k_filter': kf})
    for l in list(range(0, 40)) + [299, 300, 301, 302, 303, 3000, 2999] + [int(v) for v in ctx.rng.integers(1, 5000, ctx.n(10, 100))]:
        impl.append(f'ok {int(np.round(l / 1.0 / 2) * 2 + 1)}')
        lines.append(f'agcwin {l}')
        descs.append({'op': 'agcwin', 'lagc': l})
    for _ in range(ctx.n(30, 200)):
        n = int(ctx.rng.integers(0, 12))
        l = ctx.rng.integers(-4, 5, n)
        impl.append('ok ' + _ints(np.unique(l)))
        lines.append(f'unique {_ints(l)}')
        descs.append({'op': 'unique', 'l': [int(v) for v in l]})
    model = ctx.lean(lines)
    for d, a, b in zip(descs, impl, model):
        ctx.compare(d['op'], d, a, b, tags=(d['op'],))
    # assumed law of the theorems `kfilt_kills_common_mode`: the spatial high-pass removes constants (incl. scipy's edge extension)
    import scipy.signal
    for bk, sizes in (({'N': 3, 'Wn': 0.01, 'btype': 'highpass'}, [13, 14, 40, 384, 384 + 120]), ({'N': 3, 'Wn': 0.1, 'btype': 'highpass'}, [13, 96, 384]),
                      ({'N': 1, 'Wn': 0.05, 'btype': 'highpass'}, [7, 50]), ({'N': 4, 'Wn': 0.3, 'btype': 'highpass'}, [20, 64])):
        sos = scipy.signal.butter(**bk, output='sos')
        for n in sizes:
            r = float(np.max(np.abs(scipy.signal.sosfiltfilt(sos, np.ones((n, 2)) * np.array([1.0, -37.5]), axis=0)))) / 37.5
            ctx.compare('assumed-law', {'op': 'sosfiltfilt(highpass) of a constant column', 'butter': bk, 'n': n},
                        'ok' if r <= 1e-9 else f'residual {r:.3g}', 'ok', tags=('assumed-law-KillsConst',))
    eps = inspect.signature(voltage.agc).parameters['epsilon'].default
    ctx.compare('agc-epsilon', {'op': 'agc epsilon default'}, repr(eps), repr(1e-8), tags=('constants',))
    kd = inspect.signature(voltage.kfilt).parameters
    ctx.compare('kfilt-defaults', {'op': 'kfilt defaults'}, repr((kd['ntr_pad'].default, kd['ntr_tap'].default, kd['lagc'].default)),
                repr((0, None, 300)), tags=('constants',))


def _rand_butter(rng):
    return {'N': int(rng.integers(1, 5)), 'Wn': float(rng.choice([0.01, 0.05, 0.1, 0.3])),
            'btype': str(rng.choice(['highpass', 'highpass', 'highpass', 'lowpass']))}


def _group_sizes(coll, nc):
    if coll is None:
        return [nc]
    return [int(np.sum(coll == c)) for c in np.unique(coll)]


def _twin_part(ctx):
    from ibldsp import voltage, fourier
    rng = ctx.rng
    lines, checks = [], []

    def add(line, fn):
        lines.append(line)
        checks.append(fn)

    # ---- car -------------------------------------------------------------------------------------
    for _ in range(ctx.n(200, 1200)):
        nc, ns = int(rng.integers(1, 14)), int(rng.integers(1, 9))
        x, xtag = _gen_matrix(rng, nc, ns)
        coll, ctag = _gen_collection(rng, nc)
        op = str(rng.choice(['median', 'average', 'median', 'average', 'other']))
        pyop = op if op != 'other' else 'mean'      # a string that is neither 'median' nor 'average'
        kw = {} if coll is None else {'collection': coll}
        if rng.random() < 0.3:
            kw.update(ntr_pad=60, ntr_tap=0, lagc=None)         # destripe passes its k_kwargs to car, which ignores them
        y = _seq_call(ctx, rng, 'car', [x.copy()], dict(operator=pyop, **kw))
        desc = {'op': 'car', 'operator': pyop, 'nc': nc, 'ns': ns, 'collection': None if coll is None else coll.tolist(), 'x': x.tolist()}
        add(f'spatial {nc} {ns} car {op} {_coll_tok(coll)} {_bits(x)}',
            lambda ans, y=y, desc=desc, x=x, nc=nc, ns=ns, t=(xtag, ctag, 'car-' + op): _cmp_arrays(
                ctx, 'car', desc, y, ans, (nc, ns), np.max(np.abs(x)), nontrivial=nc > 1, tags=('car',) + t))

    # ---- agc -------------------------------------------------------------------------------------
    for _ in range(ctx.n(60, 500)):
        nc, ns = int(rng.integers(1, 7)), int(rng.integers(1, 40))
        x, xtag = _gen_matrix(rng, nc, ns)
        lagc = int(rng.choice([1, 2, 3, 4, 5, 6, 7, 9, 10, 11, 20, 41, 80, 300]))
        eps = float(rng.choice([1e-8, 1e-8, 1e-3, 0.0]))
        if eps == 0.0 and xtag in ('dead-rows', 'sparse', 'int-ties'):
            eps = 1e-8                      # 0/0 on all-zero stretches is outside the property (epsilon > 0)
        xin = x.copy()
        d, g = _seq_call(ctx, rng, 'agc', [xin], dict(wl=lagc, si=1.0, epsilon=eps))
        xin2 = x.copy()
        d2, _ = voltage.agc(xin2, wl=lagc, si=1.0, epsilon=eps)     # information only: does agc still overwrite / return its argument?
        ctx.case({'op': 'agc in-place behaviour', 'nc': nc, 'ns': ns, 'lagc': lagc}, nontrivial=False,
                 tags=('info:agc-returns-its-argument' if d2 is xin2 else 'info:agc-returns-a-new-array',))
        dead = (np.sum(g, axis=1) == 0).astype(int)
        desc = {'op': 'agc', 'nc': nc, 'ns': ns, 'lagc': lagc, 'epsilon': eps, 'x': x.tolist()}

        def chk(ans, d=d, g=g, dead=dead, desc=desc, x=x, nc=nc, ns=ns, xtag=xtag, eps=eps):
            parts = dict(p.split('=', 1) for p in ans.split()[1:])
            md, mg = _unbits(parts['data'], (nc, ns)), _unbits(parts['gain'], (nc, ns))
            mdead = [int(v) for v in parts['dead'].split(',')]
            sc = np.max(np.abs(x))
            # the gain is compared absolutely; the data (x / gain) where the gain is well conditioned
            okg = _close(g, mg, sc)
            cond = (np.abs(g) > 1e-3 * sc) | (dead[:, None] == 1) | (x == 0)
            okd = _close(np.where(cond, d, 0), np.where(cond, md, 0), max(np.max(np.abs(np.where(cond, d, 0))), 1.0) * 10)
            okdead = mdead == dead.tolist()
            good = okg and okd and okdead
            ctx.compare('agc', desc, 'ok' if good else f'gain {_summary(g)} data {_summary(d)} dead {dead.tolist()}',
                        'ok' if good else f'gain {_summary(mg)} data {_summary(md)} dead {mdead}',
                        tags=('agc', xtag, f'eps={eps:g}', 'agc-has-dead-row' if dead.any() else 'agc-no-dead-row'))
        add(f'agc {nc} {ns} {lagc} {_bits([eps])} {_bits(x)}', chk)

    # ---- kfilt -----------------------------------------------------------------------------------
    for _ in range(ctx.n(100, 600)):
        bk = _rand_butter(rng)
        padlen = _padlen(bk)
        nc, ns = int(rng.integers(max(2, padlen - 3), padlen + 16)), int(rng.integers(1, 7))
        x, xtag = _gen_matrix(rng, nc, ns)
        coll, ctag = _gen_collection(rng, nc)
        if coll is not None and rng.random() < 0.6:      # groups large enough for the filter
            k = int(rng.integers(1, 3))
            nc = (padlen + int(rng.integers(1, 5))) * k
            x, xtag = _gen_matrix(rng, nc, ns)
            coll = (np.arange(nc) % k) if rng.random() < 0.5 else (np.arange(nc) * k // nc)
            ctag = 'coll=filterable'
        pad = min(int(rng.choice([0, 0, 1, 2, 5, nc])), nc)          # ntr_pad > nc is outside the model (ASSUMPTIONS)
        tap = rng.choice([None, 0, 1, 3, pad])
        tap = None if tap is None else int(tap)
        lagc = rng.choice([None, 0, 1, 3, 10, 300])
        lagc = None if lagc is None else int(lagc)
        kw = dict(ntr_pad=pad, ntr_tap=tap, lagc=lagc, butter_kwargs=bk)
        if coll is not None:
            kw['collection'] = coll
        try:
            xarg = x.copy()
            y = _seq_call(ctx, rng, 'kfilt', [xarg], kw)
        except ValueError as e:
            y = 'err ValueError'
        sizes = [s + (0 if coll is not None else 2 * pad) for s in _group_sizes(coll, nc)]
        desc = {'op': 'kfilt', 'nc': nc, 'ns': ns, 'ntr_pad': pad, 'ntr_tap': tap, 'lagc': lagc, 'butter_kwargs': bk,
                'collection': None if coll is None else coll.tolist(), 'x': x.tolist()}
        add(f"spatial {nc} {ns} kfilt {pad} {'N' if tap is None else tap} {'N' if lagc is None else lagc} {padlen} {_coll_tok(coll)} "
            f"{_ltable(bk, sizes)} {_bits(x)}",
            lambda ans, y=y, desc=desc, x=x, nc=nc, ns=ns, t=(xtag, ctag, 'lagc=' + ('off' if not lagc else 'on'), 'pad>0' if pad else 'pad=0',
                                                              'tap=None' if tap is None else 'tap>0' if tap else 'tap=0'):
            _cmp_arrays(ctx, 'kfilt', desc, y, ans, (nc, ns), np.max(np.abs(x)) * 10, tags=('kfilt',) + t))

    # ---- fk: the recursion over groups around the real fk(collection=None) ---------------------------
    for _ in range(ctx.n(40, 300)):
        nc, ns = int(rng.integers(2, 10)), int(rng.integers(2, 9))
        x, xtag = _gen_matrix(rng, nc, ns)
        coll, ctag = _gen_collection(rng, nc)
        if coll is None:
            coll, ctag = np.arange(nc) % 2, 'coll=interleaved'
        kw = dict(si=float(rng.choice([0.002, 1 / 30000])), dx=float(rng.choice([1, 20])), vbounds=[float(rng.choice([1, 50])), float(rng.choice([100, 2000]))],
                  btype=str(rng.choice(['highpass', 'lowpass'])), ntr_pad=int(rng.choice([0, 0, 1])), ntr_tap=rng.choice([None, 0, 1]),
                  lagc=rng.choice([None, 0.01, 0.5]), kfilt=None if rng.random() < 0.5 else {'bounds': [0.0, 0.2], 'btype': str(rng.choice(['highpass', 'lowpass']))})
        kw['ntr_tap'] = None if kw['ntr_tap'] is None else int(kw['ntr_tap'])
        kw['lagc'] = None if kw['lagc'] is None else float(kw['lagc'])
        if any(s < max(kw['ntr_pad'], 1) for s in _group_sizes(coll, nc)):
            kw['ntr_pad'] = 0
        try:
            y = _seq_call(ctx, rng, 'fk', [x.copy()], dict(collection=coll, **kw))
            tbl = []
            for c in np.unique(coll):
                xin = x[coll == c, :].copy()
                yg = _seq_call(ctx, rng, 'fk', [xin.copy()], dict(collection=None, **kw), p=0.2)
                tbl.append(f'{xin.shape[0]}|{_bits(xin)}|{_bits(yg)}')
        except Exception as e:   # degenerate settings (not part of the property): skip
            continue
        desc = {'op': 'fk', 'nc': nc, 'ns': ns, 'collection': coll.tolist(), 'settings': {k: (v if not isinstance(v, np.generic) else v.item()) for k, v in kw.items()}, 'x': x.tolist()}
        add(f"fk {nc} {ns} {_coll_tok(coll)} {';'.join(tbl)} {_bits(x)}",
            lambda ans, y=y, desc=desc, x=x, nc=nc, ns=ns, t=(xtag, ctag, 'fk-' + kw['btype'], 'fk-kfilt' if kw['kfilt'] else 'fk-nokfilt',
                                                              'lagc=' + ('off' if not kw['lagc'] else 'on')):
            _cmp_arrays(ctx, 'fk', desc, y, ans, (nc, ns), max(np.max(np.abs(x)), np.max(np.abs(y))), tags=('fk',) + t))

    # ---- fshift (time-domain kernel of the model vs fourier.fshift) -----------------------------------------
    for _ in range(ctx.n(40, 300)):
        n = int(rng.integers(2, 34))
        r = rng.normal(size=n) * float(10.0 ** rng.integers(-3, 3))
        s = float(rng.choice([0.0, 1.0, -1.0, 0.5, 1 / 13, 11 / 13, 15 / 16, 7 / 16, rng.uniform(-3, 3)]))
        y = _seq_call(ctx, rng, 'fshift', [r.copy(), s], {})
        desc = {'op': 'fshift', 'n': n, 's': s, 'x': r.tolist()}
        add(f'fshift {n} {_bits([s])} {_bits(r)}',
            lambda ans, y=y, desc=desc, r=r, n=n: _cmp_arrays(ctx, 'fshift', desc, y, ans, (n,), np.max(np.abs(r)), nontrivial=n > 1,
                                                            tags=('fshift', 'n-even' if n % 2 == 0 else 'n-odd')))

    # ---- destripe / destripe_lfp on small arrays: temporal filter, re-alignment, interpolation, labels, spatial stage ----
    import scipy.signal
    import neuropixel
    for _ in range(ctx.n(80, 500)):
        ver, nsh = VERSIONS[int(rng.integers(0, len(VERSIONS)))]
        h0 = neuropixel.trace_header(version=ver, nshank=nsh)
        lfp = rng.random() < 0.25
        fs = 2500 if lfp else 30000
        kfilter = bool(rng.random() < 0.6)
        bk = _rand_butter(rng)
        padlen = _padlen(bk)
        nc = int(rng.integers(padlen + 2, padlen + 14)) if kfilter else int(rng.integers(3, 20))
        ns = int(rng.integers(23, 34)) if lfp else int(rng.integers(14, 30))
        off = int(rng.choice([0, 0, 2, 24, 100, 384 - nc]))
        h = {k: np.array(np.asarray(v)[off:off + nc]) for k, v in h0.items()}
        x, xtag = _gen_matrix(rng, nc, ns)
        if rng.random() < 0.5:
            labels = rng.choice([0, 0, 0, 0, 1, 2, 3, 3], size=nc)
            if rng.random() < 0.4:
                labels[:] = np.where(np.arange(nc) >= nc - int(rng.integers(1, 4)), 3, labels)      # outside = top of the probe
            if np.sum(labels != 3) < (padlen + 1 if kfilter else 1):
                labels[: padlen + 1] = 0
            ltag = 'labels'
        else:
            labels, ltag = None, 'labels=None'
        nin = nc if labels is None else int(np.sum(labels != 3))
        coll = None
        if kfilter:
            pad = int(rng.choice([0, 1, 3, min(nin, 6)]))
            tap = int(rng.choice([0, 0, 1, 2]))
            lagc = rng.choice([None, 0, 3, 10, 300])
            lagc = None if lagc is None else int(lagc)
            kk = {'ntr_pad': pad, 'ntr_tap': tap, 'lagc': lagc, 'butter_kwargs': bk}
            sizes = [nin + 2 * pad]
            spat = f"kfilt {pad} {tap} {'N' if lagc is None else lagc} {padlen} N {_ltable(bk, sizes)}"
        else:
            op = str(rng.choice(['median', 'median', 'average']))
            kk = {'operator': op} if (op != 'median' or rng.random() < 0.5) else {'ntr_pad': 60, 'ntr_tap': 0, 'lagc': None}
            if rng.random() < 0.3:
                coll, _ = _gen_collection(rng, nin)
                if coll is not None:
                    kk['collection'] = coll
            spat = f'car {op} {_coll_tok(coll)}'
        if lfp:
            bt = {'N': 3, 'Wn': [0.5, 300], 'btype': 'bandpass', 'fs': fs}
        else:
            bt = {'N': 3, 'Wn': 300 / fs * 2, 'btype': 'highpass'}
        hmat = scipy.signal.sosfiltfilt(scipy.signal.butter(**bt, output='sos'), np.eye(ns))     # row j: response to e_j
        if labels is not None:
            wmat = voltage.interpolate_bad_channels(np.eye(nc), labels, h['x'], h['y'])
        else:
            wmat = np.zeros((0, 0))
        noshift = rng.random() < 0.15
        try:
            if lfp and not noshift and kk == {'ntr_pad': 60, 'ntr_tap': 0, 'lagc': None}:
                y = _seq_call(ctx, rng, 'destripe_lfp', [x.copy(), fs], dict(h=h, channel_labels=labels, k_filter=False))
                fn = 'destripe_lfp'
            else:
                y = _seq_call(ctx, rng, 'destripe', [x.copy(), fs], dict(h=h, neuropixel_version=None if noshift else 1, butter_kwargs=bt, k_kwargs=kk,
                                                                         channel_labels=labels, k_filter=kfilter))
                fn = 'destripe'
        except Exception as e:
            y = 'err ' + type(e).__name__
        num = np.round(h['sample_shift'] * (13 if ver in (1, 'NPultra') else 16)).astype(int)
        den = 13 if ver in (1, 'NPultra') else 16
        shifts = 'N' if noshift else ','.join(f'{a}/{den}' for a in num)
        desc = {'op': fn, 'version': str(ver), 'nshank': nsh, 'first_channel': off, 'nc': nc, 'ns': ns, 'fs': fs, 'k_filter': kfilter,
                'k_kwargs': {k: (v.tolist() if isinstance(v, np.ndarray) else v) for k, v in kk.items()},
                'labels': None if labels is None else labels.tolist(), 'realign': not noshift, 'x': x.tolist()}
        if not np.all(num / den == h['sample_shift']):     # the delay table is not k / n_cycles any more: nothing the model can be fed with
            ctx.compare('destripe', {k: v for k, v in desc.items() if k != 'x'}, f"sample_shift={h['sample_shift'][:4].tolist()}…", f'k/{den}',
                        tags=('destripe', 'delay-table-broken'))
            continue
        add(f"destripe {nc} {ns} {'N' if labels is None else _ints(labels)} {shifts} {_bits(hmat.T)} {_bits(wmat)} {spat} {_bits(x)}",
            lambda ans, y=y, desc=desc, x=x, nc=nc, ns=ns, t=(xtag, ltag, 'destripe-kfilt' if kfilter else 'destripe-car', 'lfp' if lfp else 'ap',
                                                              'no-realign' if noshift else 'realign', f'probe={ver}x{nsh}'):
            _cmp_arrays(ctx, 'destripe', desc, y, ans, (nc, ns), np.max(np.abs(x)) * 10, tags=('destripe',) + t))

    model = ctx.lean(lines)
    for fn, ans in zip(checks, model):
        fn(ans)


# ---------------------------------------------------------------------------------------------
# Oracles: the property text stated directly on the real code (independent of the Lean model).
# Each takes a JSON-able input dict and returns None when the property holds, else a description.
# ---------------------------------------------------------------------------------------------
PHYS_ADC = {'1': (12, 13), 'NPultra': (12, 13), '2': (16, 16)}      # channels per ADC, ADC cycles per sample (probe documentation)


def _phys_delays(version, nc=384):
    """sampling delay of each channel in samples: the j-th channel served by an ADC is sampled j/n_cycles late"""
    a, n = PHYS_ADC[str(version)]
    c = np.arange(nc)
    return ((c % (2 * a)) // 2) / n


def _header(version, nshank):
    import neuropixel
    return neuropixel.trace_header(version=(version if version == 'NPultra' else int(version)), nshank=int(nshank))


def _hp_reference(x, fs, lfp=False):
    import scipy.signal
    if lfp:
        sos = scipy.signal.butter(N=3, Wn=[0.5, 300], btype='bandpass', fs=fs, output='sos')
    else:
        sos = scipy.signal.butter(N=3, Wn=300 / fs * 2, btype='highpass', output='sos')
    return scipy.signal.sosfiltfilt(sos, x)


def _rms(a):
    return float(np.sqrt(np.mean(np.square(a)))) if a.size else 0.0


def make_stripe(i):
    """x[c, n] = amp * env(n + d_c) * sum_m a_m cos(2 pi f_m (n + d_c) / fs + phi_m): one waveform seen by all channels at the
    same physical instant, sampled by channel c with its ADC delay d_c."""
    d = _phys_delays(i['version'])
    ns, fs = i['ns'], i['fs']
    t = np.arange(ns)[None, :] + d[:, None]
    x = np.zeros((len(d), ns))
    for f, ph, a in zip(i['freqs'], i['phases'], i['amps']):
        x += a * np.cos(2 * np.pi * f * t / fs + ph)
    if not i.get('stationary'):
        c, w = (ns - 1) / 2, 0.3 * ns
        x = x * np.cos(np.pi * np.clip((t - c) / w, -1, 1) / 2) ** 2
    return i['amp'] * x


def _labels_of(i, nc=384):
    lab = np.zeros(nc, int)
    if i.get('n_outside'):
        lab[nc - int(i['n_outside']):] = 3
    for c in i.get('bad', []):
        lab[int(c)] = 1
    return lab if (i.get('n_outside') or i.get('bad')) else None


def oracle_stripe(i):
    """>= 40 dB attenuation of an ADC-skewed common disturbance, destripe / destripe_lfp, k-filter or median."""
    from ibldsp import voltage
    h = _header(i['version'], i['nshank'])
    x = make_stripe(i)
    lab = _labels_of(i)
    if lab is not None:
        x[lab == 1] = 0
    fn = voltage.destripe_lfp if i['fn'] == 'destripe_lfp' else voltage.destripe
    y = fn(x.copy(), i['fs'], h=h, k_filter=bool(i['k_filter']), channel_labels=lab)
    rows = np.arange(x.shape[0]) if lab is None else np.where(lab == 0)[0]
    m = i['ns'] // 8 if i.get('stationary') else 0
    sl = slice(m, i['ns'] - m)
    xin, yout = _rms(x[rows][:, sl]), _rms(y[rows][:, sl])
    att = 300.0 if yout == 0 else 20 * np.log10(xin / yout)
    i['_att'] = float(att)
    if not np.isfinite(att) or att < 40:
        return f'common disturbance attenuated by only {att:.1f} dB (< 40 dB): rms in {xin:.3g}, rms out {yout:.3g}'
    # the repaired (dead, label 1) channels are inside the brain too: what is written there must be free of the disturbance as well
    # (calibration on the unchanged tree, bad channels on ADC-group seams and probe ends: >= 61 dB)
    if lab is not None:
        for c in np.where(lab == 1)[0]:
            yc = _rms(y[c:c + 1, sl])
            ac = 300.0 if yc == 0 else 20 * np.log10(xin / yc)
            if not np.isfinite(ac) or ac < 40:
                return (f'on the repaired channel {int(c)} (label 1) the common disturbance is attenuated by only {ac:.1f} dB (< 40 dB) '
                        f'relative to the good channels: rms in {xin:.3g}, rms out on that channel {yc:.3g}')
    return None


def _spike_wave(ns, t0, width, fs):
    t = (np.arange(ns) - t0) / fs
    return -(1 - (t / width) ** 2) * np.exp(-t ** 2 / (2 * width ** 2))


def _peak(v):
    """peak amplitude of the band-limited waveform (8x Fourier interpolation: the re-alignment moves the peak between samples)"""
    import scipy.signal
    return float(np.max(np.abs(scipy.signal.resample(v, 8 * len(v)))))


def oracle_spike(i):
    """a spike on 1 or 3 neighbouring channels keeps >= 90 % of its high-passed amplitude on its centre channel"""
    from ibldsp import voltage
    h = _header(i['version'], i['nshank'])
    nc, ns, fs = 384, i['ns'], i['fs']
    sp = np.zeros((nc, ns))
    for k in range(-(i['nch'] // 2), i['nch'] // 2 + 1):
        c = i['c0'] + k
        if 0 <= c < nc:
            sp[c] = _spike_wave(ns, i['t0'], i['width'], fs) * (1.0 if k == 0 else i['neighbour_amp']) * i['amp']
    ref = _peak(_hp_reference(sp[i['c0']][None, :], fs)[0])
    kf = bool(i['k_filter'])
    if i.get('bg_seed') is None:
        y = voltage.destripe(sp.copy(), fs, h=h, k_filter=kf)[i['c0']]
    else:
        r = np.random.default_rng(int(i['bg_seed']))
        st = dict(version=i['version'], ns=ns, fs=fs, freqs=r.uniform(400, 6000, 8).tolist(), phases=r.uniform(0, 6.28, 8).tolist(),
                  amps=r.normal(size=8).tolist(), amp=0.2 * i['amp'], stationary=True)
        bg = make_stripe(st) + 0.1 * i['amp'] * r.normal(size=(nc, ns))
        y = voltage.destripe((bg + sp).copy(), fs, h=h, k_filter=kf)[i['c0']] - voltage.destripe(bg.copy(), fs, h=h, k_filter=kf)[i['c0']]
    ret = float(_peak(y) / ref)
    i['_ret'] = ret
    if not np.isfinite(ret) or ret < 0.9:
        return f'spike on channel {i["c0"]} keeps only {100 * ret:.1f} % of its high-passed amplitude (< 90 %)'
    return None


def oracle_outside(i):
    """channels labelled 3 are excluded from the spatial filter: their output does not depend on the other channels, and the other
    channels come out exactly as if the labelled-3 channels did not exist (labels 0 / 3 only: no interpolation donors involved)"""
    from ibldsp import voltage
    h0 = _header(i['version'], i['nshank'])
    x = np.array(i['x'], float)
    nc, ns = x.shape
    off = i['first_channel']
    h = {k: np.asarray(v)[off:off + nc] for k, v in h0.items()}
    lab = np.array(i['labels'], int)
    kk = dict(i['k_kwargs'])
    fs = i['fs']
    y = voltage.destripe(x.copy(), fs, h=h, k_kwargs=kk, channel_labels=lab.copy(), k_filter=bool(i['k_filter']))
    sc = max(float(np.max(np.abs(x))), 1e-300)
    out = lab == 3
    # (a) not outputs of the spatial filter: what they return does not depend on the other channels
    x2 = x.copy()
    x2[~out] = x2[~out][::-1] * 1.5 + sc
    y2 = voltage.destripe(x2, fs, h=h, k_kwargs=kk, channel_labels=lab.copy(), k_filter=bool(i['k_filter']))
    if out.any() and np.max(np.abs(y[out] - y2[out])) > 1e-9 * sc:
        c = int(np.where(out)[0][np.argmax(np.max(np.abs(y[out] - y2[out]), axis=1))])
        return (f'channel {c} is labelled 3 but its output changes by {np.max(np.abs(y[c] - y2[c])):.3g} when only the other channels change: '
                f'it went through the spatial filter')
    # (b) not inputs of the spatial filter: the other channels come out as if the labelled-3 channels did not exist
    ins = ~out
    if not ins.any():
        return None
    hin = {k: v[ins] for k, v in h.items()}
    y2 = voltage.destripe(x[ins].copy(), fs, h=hin, k_kwargs=kk, channel_labels=None, k_filter=bool(i['k_filter']))
    if np.max(np.abs(y[ins] - y2)) > 1e-9 * sc * 10:
        return (f'inside channels differ by {np.max(np.abs(y[ins] - y2)):.3g} from destriping the inside channels alone: '
                f'channels labelled 3 took part in the spatial filter')
    return None


def oracle_center(i):
    """car leaves a zero median / mean at every sample within each channel group"""
    from ibldsp import voltage
    x = np.array(i['x'], float)
    coll = None if i['collection'] is None else np.array(i['collection'])
    y = np.asarray(voltage.car(_data_form(x, i.get('form', 'f64C')), collection=coll, operator=i['operator']), float)
    stat = np.median if i['operator'] == 'median' else np.mean
    sc = max(float(np.max(np.abs(x))), 1e-300) * _FORM_TOL[i.get('form', 'f64C')]
    groups = [np.ones(x.shape[0], bool)] if coll is None else [coll == c for c in np.unique(coll)]
    for g in groups:
        v = stat(y[g], axis=0)
        if np.max(np.abs(v)) > 1e-9 * sc:
            t = int(np.argmax(np.abs(v)))
            return f'{i["operator"]} of the referenced channels {np.where(g)[0].tolist()} at sample {t} is {v[t]!r}, not 0'
    return None


def _call_spatial(i, x, coll):
    from ibldsp import voltage
    kw = dict(i['settings'])
    if coll is not None:
        kw['collection'] = coll
    return np.asarray(getattr(voltage, i['fn'])(_data_form(x, i.get('form', 'f64C')), **kw), float)


def oracle_groups(i):
    """filtering with channel groups equals filtering each group on its own with the same settings"""
    x = np.array(i['x'], float)
    coll = np.array(i['collection'])
    try:
        parts = {c: _call_spatial(i, x[coll == c], None) for c in np.unique(coll)}
    except Exception:
        return None         # a group the filter rejects on its own: nothing to compare with
    try:
        y = _call_spatial(i, x, coll)
    except Exception as e:
        return f'{i["fn"]} with channel groups raised {type(e).__name__} although every group is accepted on its own'
    sc = max(float(np.max(np.abs(x))), max(float(np.max(np.abs(v))) for v in parts.values()), 1e-300) * _FORM_TOL[i.get('form', 'f64C')]
    for c, v in parts.items():
        dlt = np.max(np.abs(y[coll == c] - v)) if v.size else 0.0
        if dlt > 1e-9 * sc:
            return (f'{i["fn"]}(x, collection, {i["settings"]}) on group {int(c)} (channels {np.where(coll == c)[0].tolist()}) differs by '
                    f'{dlt:.3g} from {i["fn"]}(x[group], {i["settings"]})')
    return None


def oracle_agc(i):
    """gain control returns data and gain whose product is the input"""
    from ibldsp import voltage
    x = np.array(i['x'], float)
    d, g = voltage.agc(_data_form(x, i.get('form', 'f64C')), wl=i['wl'], si=i['si'], epsilon=i['epsilon'])
    d, g = np.asarray(d, float), np.asarray(g, float)
    sc = max(float(np.max(np.abs(x))), 1e-300) * _FORM_TOL[i.get('form', 'f64C')]
    err = np.abs(d * g - x)
    if not np.all(np.isfinite(err)) or np.max(err) > 1e-9 * sc:
        k = np.unravel_index(int(np.argmax(np.nan_to_num(err, nan=np.inf))), err.shape)
        return f'data*gain = {float((d * g)[k])!r} but the input is {float(x[k])!r} at channel {k[0]}, sample {k[1]}'
    return None


_FORM_TOL = {'f64C': 1.0, 'F': 1.0, 'Tview': 1.0, 'strided': 1.0, 'f32': 1e5}      # x 1e-9: float32 data are held to 1e-4 of the scale
LAW_FORMS = ['f64C', 'f64C', 'f32', 'F', 'Tview', 'strided']


ORACLES = {'stripe': oracle_stripe, 'spike': oracle_spike, 'outside': oracle_outside, 'center': oracle_center,
           'groups': oracle_groups, 'agc': oracle_agc, 'sequence': oracle_sequence}
EXPECTED = {
    'stripe': 'C05: a disturbance hitting all channels at the same instant (recorded with the ADC delays) is attenuated by >= 40 dB',
    'spike': 'C05: a spike confined to <= 3 neighbouring channels keeps >= 90 % of its high-passed amplitude',
    'outside': 'C05: channels labelled outside the brain (3) are excluded from the spatial filter',
    'center': 'C05: referencing leaves a zero median (or mean, as requested) at every sample within each channel group',
    'groups': 'C05: filtering with channel groups equals filtering each group on its own with the same filter / gain-control / operator settings',
    'agc': 'C05: gain control returns data and gain whose product is the input',
    'sequence': 'C05 speaks about functions of their inputs: every call of a sequence on the same argument objects (repeated, interleaved with other '
                'library calls, followed by another function on the same array) returns the result that belongs to the ORIGINAL argument values',
}


def run_oracle(kind, inp):
    try:
        return ORACLES[kind](inp)
    except Exception as e:
        return f'raised {type(e).__name__}: {e}'


# ---- generators of oracle inputs -----------------------------------------------------------------------------
def _gen_stripe(rng, simple=False, lfp=None):
    ver, nsh = VERSIONS[int(rng.integers(0, len(VERSIONS)))]
    lfp = bool(rng.random() < 0.3) if lfp is None else lfp
    fs = 2500 if lfp else 30000
    nsin = 1 if simple else int(rng.integers(1, 16))
    if lfp:
        lo = float(rng.choice([5, 10, 50, 100]))
        hi = min(lo * float(rng.choice([1.05, 2, 4])), 250.0)
        ns = int(rng.choice([2048, 2500, 4096]))
        stationary = False
    else:
        lo = float(rng.choice([400, 1000, 3000, 8000]))
        hi = min(lo * float(rng.choice([1.05, 2, 4])), 12000.0)
        ns = int(rng.choice([1024, 2048, 3000])) if not simple else 1024
        stationary = bool(rng.random() < 0.3) and ns >= 2048
    i = {'version': str(ver), 'nshank': int(nsh), 'fn': 'destripe_lfp' if lfp else 'destripe', 'k_filter': bool(rng.random() < 0.5),
         'ns': ns, 'fs': fs, 'freqs': np.round(rng.uniform(lo, hi, nsin), 3).tolist(), 'phases': np.round(rng.uniform(0, 2 * np.pi, nsin), 4).tolist(),
         'amps': (np.round(rng.normal(size=nsin), 4) + 0.0).tolist() if nsin > 1 else [1.0], 'amp': float(10.0 ** rng.integers(-6, 1)),
         'stationary': stationary}
    if i['amps'] == [0.0] * nsin:
        i['amps'][0] = 1.0
    r = rng.random()
    if r < 0.2:
        i['n_outside'] = int(rng.integers(1, 60))
    elif r < 0.3:
        i['bad'] = sorted(int(c) for c in rng.choice(np.arange(5, 300), size=3, replace=False))
    elif r < 0.45:     # dead channels on ADC-group seams and at the probe ends (where the sampling delay jumps)
        a = PHYS_ADC[str(ver)][0] * 2
        seams = [g * a + o for g in range(1, 8) for o in (0, 1, a - 2, a - 1)] + [0, 1, 382, 383]
        i['bad'] = sorted(int(c) for c in rng.choice(seams, size=3, replace=False))
    return i


def _gen_spike(rng, c0=None, simple=False):
    ver, nsh = VERSIONS[int(rng.integers(0, len(VERSIONS)))]
    if c0 is None:
        c0 = int(rng.choice([0, 1, 2, 3, 190, 191, 192, 193, 380, 381, 382, 383])) if rng.random() < 0.5 else int(rng.integers(0, 384))
    nch = 1 if simple else int(rng.choice([1, 3]))
    bg = None if (simple or rng.random() < 0.6) else int(rng.integers(0, 2 ** 31))
    return {'version': str(ver), 'nshank': int(nsh), 'k_filter': bool(rng.random() < 0.5), 'ns': 1024, 'fs': 30000, 'c0': int(c0), 'nch': nch,
            'width': float(rng.choice([2e-4, 3e-4, 4e-4])), 't0': int(rng.integers(256, 768)),
            'neighbour_amp': float(rng.choice([0.3, 0.5, 0.7])) if bg is not None else float(rng.choice([0.3, 0.5, 1.0])),
            'amp': float(10.0 ** rng.integers(-5, 2)), 'bg_seed': bg}


def _gen_outside(rng, small=False):
    ver, nsh = VERSIONS[int(rng.integers(0, len(VERSIONS)))]
    kf = bool(rng.random() < 0.5)
    nc = int(rng.integers(17, 26)) if kf else int(rng.integers(5, 12))
    ns = 16 if small else int(rng.integers(16, 40))
    x, _ = _gen_matrix(rng, nc, ns)
    lab = np.zeros(nc, int)
    k = int(rng.integers(1, 4))
    if rng.random() < 0.6:
        lab[nc - k:] = 3
    else:
        lab[rng.choice(nc, size=k, replace=False)] = 3
    if kf:
        kk = {'ntr_pad': int(rng.choice([0, 2, 5])), 'ntr_tap': 0, 'lagc': [None, 5, 300][int(rng.integers(0, 3))],
              'butter_kwargs': {'N': 3, 'Wn': 0.01, 'btype': 'highpass'}}
    else:
        kk = {'operator': str(rng.choice(['median', 'average']))}
    return {'version': str(ver), 'nshank': int(nsh), 'first_channel': int(rng.choice([0, 40, 384 - nc])), 'fs': 30000, 'k_filter': kf, 'k_kwargs': kk,
            'labels': lab.tolist(), 'x': x.tolist()}


def _gen_center(rng, small=False):
    nc, ns = (int(rng.integers(2, 5)), 1) if small else (int(rng.integers(1, 14)), int(rng.integers(1, 6)))
    x, _ = _gen_matrix(rng, nc, ns)
    if small:
        x = np.round(rng.normal(size=(nc, ns)) * 4)
    coll, _ = _gen_collection(rng, nc)
    return {'operator': str(rng.choice(['median', 'average'])), 'collection': None if coll is None else coll.tolist(), 'x': x.tolist(),
            'form': 'f64C' if small else str(rng.choice(LAW_FORMS))}


def _gen_groups(rng, fn=None, small=False):
    fn = fn or str(rng.choice(['car', 'kfilt', 'fk']))
    if fn == 'car':
        nc, ns = (4, 1) if small else (int(rng.integers(2, 12)), int(rng.integers(1, 5)))
        st = {'operator': str(rng.choice(['median', 'average']))}
    elif fn == 'kfilt':
        bk = {'N': int(rng.choice([1, 3])), 'Wn': float(rng.choice([0.01, 0.1])), 'btype': str(rng.choice(['highpass', 'highpass', 'lowpass']))}
        k = int(rng.integers(1, 3))
        nc, ns = (_padlen(bk) + int(rng.integers(1, 4))) * k, (2 if small else int(rng.integers(1, 6)))
        st = {'ntr_pad': 0, 'ntr_tap': [None, 0][int(rng.integers(0, 2))], 'lagc': [None, 0, 1, 3, 10, 300][int(rng.integers(0, 6))], 'butter_kwargs': bk}
    else:
        nc, ns = (4, 4) if small else (int(rng.integers(2, 10)), int(rng.integers(2, 9)))
        st = {'si': 0.002, 'dx': float(rng.choice([1, 20])), 'vbounds': [float(rng.choice([1, 50])), float(rng.choice([100, 2000]))],
              'btype': str(rng.choice(['highpass', 'lowpass'])), 'ntr_pad': 0, 'ntr_tap': None, 'lagc': [None, 0.01, 0.5][int(rng.integers(0, 3))],
              'kfilt': None if rng.random() < 0.5 else {'bounds': [0.0, 0.2], 'btype': str(rng.choice(['highpass', 'lowpass']))}}
    x, _ = _gen_matrix(rng, nc, ns)
    if small:
        x = np.round(rng.normal(size=(nc, ns)) * 4)
    if fn == 'kfilt':
        k = nc // (_padlen(st['butter_kwargs']) + 1) or 1
        k = min(k, 2)
        coll = (np.arange(nc) % k) if rng.random() < 0.5 else (np.arange(nc) * k // nc)
    else:
        coll, _ = _gen_collection(rng, nc)
        if coll is None:
            coll = np.arange(nc) % 2
    return {'fn': fn, 'settings': st, 'collection': [int(v) for v in coll], 'x': x.tolist(), 'form': 'f64C' if small else str(rng.choice(LAW_FORMS))}


def _gen_agc(rng, small=False):
    nc, ns = (1, int(rng.integers(2, 6))) if small else (int(rng.integers(1, 6)), int(rng.integers(1, 60)))
    x, _ = _gen_matrix(rng, nc, ns)
    if small:
        x = np.round(rng.normal(size=(nc, ns)) * 4)
    wl, si = [(0.5, 0.002), (3.0, 1.0), (10.0, 1.0), (300.0, 1.0), (0.01, 0.002), (1.0, 1.0)][int(rng.integers(0, 6))]
    return {'wl': wl, 'si': si, 'epsilon': 1e-8, 'x': x.tolist(), 'form': 'f64C' if small else str(rng.choice(LAW_FORMS))}


def _gen_sequence(rng, small=False):
    import neuropixel
    name = str(rng.choice(['car', 'car', 'kfilt', 'fk', 'agc', 'destripe', 'destripe', 'destripe_lfp', 'fshift']))
    if small and name in ('destripe', 'destripe_lfp', 'kfilt'):
        name = 'car'
    if name == 'car':
        nc, ns = (3, 2) if small else (int(rng.integers(2, 10)), int(rng.integers(2, 7)))
        x, _ = _gen_matrix(rng, nc, ns)
        coll, _ = _gen_collection(rng, nc)
        args, kw = [x], {'operator': str(rng.choice(['median', 'average']))}
        if coll is not None:
            kw['collection'] = coll
    elif name == 'kfilt':
        nc, ns = int(rng.integers(13, 20)), int(rng.integers(2, 6))
        x, _ = _gen_matrix(rng, nc, ns)
        args, kw = [x], {'ntr_pad': int(rng.choice([0, 2])), 'ntr_tap': 0, 'lagc': [None, 3, 300][int(rng.integers(0, 3))],
                         'butter_kwargs': {'N': 3, 'Wn': 0.01, 'btype': 'highpass'}}
    elif name == 'fk':
        n = 4 if small else int(rng.integers(4, 9))
        x, _ = _gen_matrix(rng, n, n)                       # square, si == dx: both frequency scales have the same arguments
        args, kw = [x], {'si': 1.0, 'dx': 1.0, 'vbounds': [0.2, 2.0], 'btype': str(rng.choice(['highpass', 'lowpass'])), 'ntr_pad': 0, 'ntr_tap': None,
                         'lagc': [None, 0.5][int(rng.integers(0, 2))]}
        if rng.random() < 0.5:
            kw['collection'] = np.arange(n) % 2
    elif name == 'agc':
        nc, ns = (1, 4) if small else (int(rng.integers(1, 5)), int(rng.integers(2, 30)))
        x, _ = _gen_matrix(rng, nc, ns)
        args, kw = [x], {'wl': float(rng.choice([3.0, 10.0])), 'si': 1.0}
    elif name == 'fshift':
        n = 4 if small else int(rng.integers(2, 20))
        args, kw = [rng.normal(size=n), float(rng.choice([0.5, 1.0, 7 / 13]))], {}
    else:
        lfp = name == 'destripe_lfp'
        ns = int(rng.integers(23, 30))
        if rng.random() < 0.5:                               # the default header path: destripe builds h from neuropixel.trace_header itself
            x, _ = _gen_matrix(rng, 384, ns)
            kw = {'k_filter': bool(rng.random() < 0.5)}
            if not lfp:
                kw['neuropixel_version'] = [1, 2][int(rng.integers(0, 2))]
        else:
            ver, nsh = VERSIONS[int(rng.integers(0, len(VERSIONS)))]
            nc = int(rng.integers(14, 24))
            x, _ = _gen_matrix(rng, nc, ns)
            h = {k: np.array(np.asarray(v)[:nc]) for k, v in neuropixel.trace_header(version=ver, nshank=nsh).items()}
            lab = np.zeros(nc, int)
            lab[int(rng.integers(1, nc - 1))] = 1
            lab[nc - 1] = 3
            kw = {'h': h, 'channel_labels': lab}
            if not lfp:
                kw['k_kwargs'] = {'operator': 'median'}
                kw['k_filter'] = False
            elif rng.random() < 0.5:
                kw['k_filter'] = False
        args = [x, 2500 if lfp else 30000]
    form = draw_form(rng, name)
    if form['data'] in ('int64', 'int16'):            # the form is drawn independently of the values: make the values representable
        args[0] = np.clip(np.round(args[0] / max(float(np.max(np.abs(args[0]))), 1e-300) * 300), -32767, 32767)
    return {'fn': name, 'args': _enc(args), 'kwargs': _enc(kw), 'steps': list(DEFAULT_STEPS), 'form': form}


GENS = {'sequence': _gen_sequence, 'stripe': _gen_stripe, 'spike': _gen_spike, 'outside': _gen_outside, 'center': _gen_center, 'groups': _gen_groups, 'agc': _gen_agc}


def _oracle_part(ctx):
    """The property's own statements checked on the real code (tagged `law-*` / `numeric-*`), with calibration figures in the notes."""
    rng = ctx.rng
    fails = []

    def run(kind, inp, tags):
        r = run_oracle(kind, inp)
        desc = {'oracle': kind, **{k: v for k, v in inp.items() if not k.startswith('_')}}
        ctx.compare('oracle-' + kind, desc, 'holds' if r is None else 'violated: ' + r, 'holds', tags=tags)
        if r is not None:
            fails.append((kind, inp, r))
        return r

    for kind, n in (('center', ctx.n(60, 600)), ('groups', ctx.n(60, 500)), ('agc', ctx.n(40, 400)), ('outside', ctx.n(30, 250)),
                    ('sequence', ctx.n(40, 300))):
        for _ in range(n):
            inp = GENS[kind](rng)
            tags = ('law-' + kind,)
            if kind in ('groups', 'sequence'):
                tags += (f'law-{kind}-' + inp['fn'],)
            if isinstance(inp.get('form'), str):
                tags += ('law-form:' + inp['form'],)
            run(kind, inp, tags)
    att = {}
    for k in range(ctx.n(48, 400)):
        inp = _gen_stripe(rng)
        if k < 8:      # every probe generation x both spatial variants at least once
            inp['version'], inp['nshank'] = str(VERSIONS[k % 4][0]), VERSIONS[k % 4][1]
            inp['k_filter'] = bool(k // 4)
        run('stripe', inp, ('numeric-stripe', inp['fn'], 'k_filter' if inp['k_filter'] else 'median', f"probe={inp['version']}x{inp['nshank']}",
                            'stationary' if inp['stationary'] else 'burst', 'with-outside' if inp.get('n_outside') else 'with-bad' if inp.get('bad') else 'all-good'))
        key = (inp['fn'], 'k' if inp['k_filter'] else 'm')
        att[key] = min(att.get(key, 1e9), inp.get('_att', -1e9))
    ret = {}
    depths = list(range(384)) if not ctx.quick else []
    for k in range(ctx.n(48, 240) + len(depths)):
        inp = _gen_spike(rng, c0=depths[k] if k < len(depths) else None)
        if k < len(depths):
            inp['k_filter'] = bool(k % 2)
            inp['bg_seed'] = None
        run('spike', inp, ('numeric-spike', 'k_filter' if inp['k_filter'] else 'median', f'nch={inp["nch"]}', 'background' if inp['bg_seed'] is not None else 'alone',
                           'probe-end' if inp['c0'] < 3 or inp['c0'] > 380 else 'interior'))
        key = ('k' if inp['k_filter'] else 'm', inp['nch'])
        ret[key] = min(ret.get(key, 1e9), inp.get('_ret', -1e9))
    ctx.note('calibration this run: min attenuation dB ' + ', '.join(f'{k[0]}/{k[1]}={v:.1f}' for k, v in sorted(att.items()))
             + '; min spike retention ' + ', '.join(f'{k[0]}/{k[1]}ch={v:.3f}' for k, v in sorted(ret.items())))
    ctx._oracle_fails = fails



# ---------------------------------------------------------------------------------------------
# growth round: mechanisms inside kfilt / fk / agc observed at the boundary to their dependencies
# ---------------------------------------------------------------------------------------------
class _Spy:
    """Replace attribute `name` of `obj` for the duration of a `with` block by a wrapper that records the positional / keyword arguments of
    every call and then either delegates to the original or returns `returns(*args, **kw)`.  It observes what the code under test hands to
    its DEPENDENCY (numpy / scipy), i.e. an intermediate value of the modelled mechanism; a spy that is never reached (the code was rewritten
    to use another entry point of the dependency) yields no observation and is recorded as information only."""

    def __init__(self, obj, name, returns=None):
        self.obj, self.name, self.returns, self.calls = obj, name, returns, []

    def __enter__(self):
        self.orig = getattr(self.obj, self.name)

        def wrapper(*a, **kw):
            self.calls.append((tuple(np.array(v) if isinstance(v, np.ndarray) else v for v in a), dict(kw)))
            return self.orig(*a, **kw) if self.returns is None else self.returns(*a, **kw)
        setattr(self.obj, self.name, wrapper)
        return self

    def __exit__(self, *exc):
        setattr(self.obj, self.name, self.orig)
        return False


def _sos_tok(sos):
    """second-order sections of scipy (rows b0 b1 b2 1 a1 a2) -> 5 numbers per section"""
    sos = np.asarray(sos, float)
    return _bits(sos[:, [0, 1, 2, 4, 5]])


def observe_agc_window(wl, si, x=None):
    """ns_win of the real agc: the argument it hands to np.hanning (None when the spy is not reached)"""
    from ibldsp import voltage
    x = np.ones((1, 3)) if x is None else x
    with _Spy(np, 'hanning') as sp:
        voltage.agc(x.copy(), wl=wl, si=si)
    return int(sp.calls[0][0][0]) if sp.calls else None


def observe_padding(fn, nx, pad, tap, ns=4, kind='index'):
    """what the real kfilt / fk hand to their filter (scipy.signal.sosfiltfilt resp. np.fft.fft2) and, for kfilt with the filter replaced by the
    identity, what they return: kind 'index' feeds rows c+1 (exact row bookkeeping), kind 'taper' feeds ones.  -> (filter input, result) or None"""
    import scipy.signal
    from ibldsp import voltage
    x = (np.tile(np.arange(1, nx + 1, dtype=float)[:, None], (1, ns)) if kind == 'index' else np.ones((nx, ns)))
    if fn == 'kfilt':
        def ident(sos, xx, axis=-1, **kw):
            return np.array(xx)
        with _Spy(scipy.signal, 'sosfiltfilt', returns=ident) as sp:
            y = voltage.kfilt(x.copy(), ntr_pad=pad, ntr_tap=tap, lagc=None)
        if not sp.calls:
            return None
        a, kw = sp.calls[0]
        axis = kw.get('axis', a[2] if len(a) > 2 else -1)
        return np.moveaxis(np.asarray(a[1], float), axis, 0), np.asarray(y, float)
    with _Spy(np.fft, 'fft2') as sp:
        y = voltage.fk(x.copy(), si=1.0, dx=1.0, vbounds=[0.1, 1.0], ntr_pad=pad, ntr_tap=tap, lagc=None)
    if not sp.calls:
        return None
    return np.asarray(sp.calls[0][0][0], float), None


def _growth_part(ctx):
    import scipy.signal
    from fractions import Fraction
    from ibldsp import voltage
    rng = ctx.rng
    lines, checks = [], []

    def add(line, fn):
        lines.append(line)
        checks.append(fn)

    # ---- (a) agc window length for rational wl / si, read off the real agc's call of np.hanning -------------------------------
    pairs = [(0.5, 0.002), (300.0, 1.0), (3000.0, 1.0), (0.01, 0.002), (1.0, 1.0), (2.0, 1.0), (3.0, 1.0), (5.0, 2.0), (7.0, 2.0), (1.0, 4.0), (0.25, 1.0)]
    for _ in range(ctx.n(40, 300)):
        si = float(rng.choice([1.0, 1.0, 2.0, 0.5, 0.25, 4.0, 0.125]))
        wl = float(rng.integers(1, 1200)) / float(rng.choice([1, 1, 2, 4, 8]))        # dyadic: wl / si / 2 is exact in floating point, half-way cases included
        pairs.append((wl, si))
    for _ in range(ctx.n(10, 60)):
        pairs.append((float(np.round(rng.uniform(0.001, 2.0), 3)), float(rng.choice([0.002, 1 / 30000, 0.0004, 0.001]))))
    for wl, si in pairs:
        fw, fs_ = Fraction(repr(wl)), Fraction(repr(si))
        q = wl / si / 2
        exact = (fw / fs_ / 2)
        dyadic = (fw.denominator & (fw.denominator - 1)) == 0 and (fs_.denominator & (fs_.denominator - 1)) == 0
        if not dyadic and (abs(float(exact) - q) > 1e-9 * abs(q) or abs((float(exact) % 1) - 0.5) < 1e-6):
            continue                    # a non-dyadic quotient within rounding of a half-way point: the float path is not the rational one
        got = observe_agc_window(wl, si)
        desc = {'op': 'agc window length', 'wl': wl, 'si': si}
        if got is None:
            ctx.case(desc, nontrivial=False, tags=('info:spy-not-reached-np.hanning',))
            continue
        half = (exact % 1) == Fraction(1, 2)
        add(f'agcwinq {fw.numerator} {fw.denominator} {fs_.numerator} {fs_.denominator}',
            lambda ans, got=got, desc=desc, half=half, dyadic=dyadic: ctx.compare(
                'agc-window', desc, f'ok {got}', ans, tags=('agc-window', 'half-way' if half else 'not-half-way', 'dyadic' if dyadic else 'decimal')))

    # ---- (b) mirrored padding, taper, un-padding of kfilt / fk: exact row bookkeeping ----------------------------------------------------
    combos = []
    for nx in [1, 2, 3, 4, 5, 7, 8, 13]:
        for pad in sorted({0, 1, 2, nx - 1, nx} & set(range(0, nx + 1))):
            combos.append((nx, pad))
    sel = [combos[i] for i in rng.permutation(len(combos))[:ctx.n(14, len(combos))]]
    for nx, pad in sel:
        for fn in ('kfilt', 'fk'):
            obs = observe_padding(fn, nx, pad, 0, kind='index')
            desc = {'op': 'padding rows', 'fn': fn, 'nx': nx, 'ntr_pad': pad}
            if obs is None:
                ctx.case(desc, nontrivial=False, tags=('info:spy-not-reached-filter-of-' + fn,))
                continue
            xin, y = obs
            rows_in = [int(round(v)) - 1 for v in xin[:, 0]]
            exact_in = bool(np.all(xin == np.round(xin)) and np.all(xin == xin[:, :1]))
            impl = f"ok idx={_ints(rows_in)}" + ('' if exact_in else ' (not whole rows)')
            if y is not None:
                impl += f" strip={_ints([int(round(v)) - 1 for v in y[:, 0]])}" + ('' if y.shape[0] == nx and np.all(y == y[:, :1]) else ' (not whole rows)')

            def chk(ans, impl=impl, desc=desc, has_y=y is not None, pad=pad, nx=nx, fn=fn):
                parts = dict(p.split('=', 1) for p in ans.split()[1:])
                model = f"ok idx={parts['idx']}" + (f" strip={parts['strip']}" if has_y else '')
                ctx.compare('padding', desc, impl, model, nontrivial=nx > 1,
                            tags=('padding', 'padding-' + fn, 'pad=0' if pad == 0 else 'pad=nx' if pad == nx else 'pad=nx-1' if pad == nx - 1 else 'pad-inner'))
                if parts['idx'] != parts['map']:          # the Python-list form of the model and its index-map form must agree (theorem pad_rows_index_map)
                    ctx.compare('padding', {**desc, 'what': 'list form vs index map of the model'}, parts['idx'], parts['map'], tags=('padding-model-forms',))
            add(f'padidx {nx} {pad}', chk)
    for _ in range(ctx.n(16, 120)):
        nx = int(rng.integers(1, 14))
        pad = int(rng.choice([0, 1, 2, nx // 2, max(nx - 1, 0), nx]))
        pad = min(pad, nx)
        nxp = nx + 2 * pad
        tapv = [None, None, 1, 1, 2, pad, pad, pad + 1, max(nxp // 2, 1), nxp][int(rng.integers(0, 10))]
        tap_eff = pad if tapv is None else int(tapv)
        fn = str(rng.choice(['kfilt', 'fk']))
        desc = {'op': 'taper', 'fn': fn, 'nx': nx, 'ntr_pad': pad, 'ntr_tap': tapv}
        if tap_eff <= 0:
            continue
        obs = observe_padding(fn, nx, pad, tapv, kind='taper')
        if obs is None:
            ctx.case(desc, nontrivial=False, tags=('info:spy-not-reached-filter-of-' + fn,))
            continue
        xin, y = obs
        ok_shape = xin.shape[0] == nxp and bool(np.all(xin == xin[:, :1]))

        def chk(ans, xin=xin, y=y, desc=desc, ok_shape=ok_shape, nxp=nxp, pad=pad, nx=nx, tap_eff=tap_eff, fn=fn, tapv=tapv):
            m = _unbits(ans[3:]) if ans.startswith('ok ') else None
            good = ok_shape and m is not None and m.shape == (nxp,) and bool(np.max(np.abs(m - xin[:, 0])) <= 1e-12)
            if good and y is not None:                          # identity filter: the result is the taper on the recorded channels
                good = y.shape[0] == nx and bool(np.max(np.abs(y[:, 0] - m[pad:pad + nx])) <= 1e-12)
                if tap_eff <= pad:                                # theorem kfilt_pad_taper_strip_identity: recorded channels untouched
                    good = good and bool(np.all(y == 1.0))
            ctx.compare('taper', desc, 'ok' if good else f'taper rows {np.round(xin[:, 0], 12).tolist()} result {None if y is None else np.round(y[:, 0], 12).tolist()}',
                        'ok' if good else f'taper {None if m is None else np.round(m, 12).tolist()}',
                        tags=('taper', 'taper-' + fn, 'tap=None' if tapv is None else 'tap<=pad' if tap_eff <= pad else 'tap>pad'))
        add(f'taper {nxp} {tap_eff}', chk)

    # ---- (c) the modelled scipy.signal.sosfiltfilt against the real one; hypotheses of sosfiltfilt_removes_constants -------------------
    designs = [{'N': 3, 'Wn': 0.01, 'btype': 'highpass'}, {'N': 3, 'Wn': 0.1, 'btype': 'highpass'}] + [_rand_butter(rng) for _ in range(ctx.n(6, 30))]
    for bk in designs:
        sos = scipy.signal.butter(**bk, output='sos')
        if bk['btype'] == 'highpass':
            zero_dc = [bool(r[0] + r[1] + r[2] == 0) for r in sos]
            regular = [bool(1 + r[4] + r[5] != 0) for r in sos]
            a0 = [bool(r[3] == 1) for r in sos]
            ctx.compare('sos-hypotheses', {'op': 'high-pass sections: b.sum() == 0 in every section, a.sum() != 0, a0 == 1', 'butter': bk},
                        repr((all(zero_dc), all(regular), all(a0))), repr((True, True, True)), tags=('sos-hypotheses',))
        edge = _padlen(bk)
        for k in range(ctx.n(4, 10)):
            n = [edge, edge + 1, edge + 2, edge + int(rng.integers(3, 30)), max(edge - 1, 1)][k % 5]
            kindx = int(rng.integers(0, 4))
            sc = float(10.0 ** rng.integers(-4, 4))
            x = [rng.normal(size=n), np.full(n, rng.normal()), np.cumsum(rng.normal(size=n)), np.r_[np.zeros(n - 1), 1.0]][kindx] * sc
            try:
                y = scipy.signal.sosfiltfilt(sos, x)
            except ValueError:
                y = 'err ValueError'
            desc = {'op': 'sosfiltfilt', 'butter': bk, 'n': n, 'x': x.tolist()}

            def chk(ans, y=y, desc=desc, x=x, n=n, edge=edge, kindx=kindx, bk=bk):
                medge = int(ans.split('edge=')[1].split()[0]) if 'edge=' in ans else -1
                tags = ('sosfiltfilt', 'sos-' + bk['btype'], ['noise', 'constant', 'random-walk', 'impulse-at-end'][kindx],
                        'n<=edge' if n <= edge else 'n=edge+1' if n == edge + 1 else 'n>edge')
                if isinstance(y, str) or ans.startswith('err'):
                    return ctx.compare('sosfiltfilt', desc, y if isinstance(y, str) else 'ok', ans.split(' edge=')[0] if ans.startswith('err') else 'ok', tags=tags + ('error-branch',))
                m = _unbits(ans.split('y=')[1])
                sc_ = max(float(np.max(np.abs(x))), 1e-300)
                good = medge == edge and m.shape == y.shape and bool(np.max(np.abs(m - y)) <= TOL * sc_ * 10)
                ctx.compare('sosfiltfilt', desc, 'ok' if good else f'edge={edge} {_summary(y)}', 'ok' if good else f'edge={medge} {_summary(m)}', tags=tags)
            add(f'sosff {_sos_tok(sos)} {_bits(x)}', chk)

    # ---- (d) kfilt with the spatial filter MODELLED (sections as data) against the real kfilt ------------------------------------------
    for _ in range(ctx.n(24, 200)):
        bk = _rand_butter(rng) if rng.random() < 0.5 else {'N': 3, 'Wn': 0.01, 'btype': 'highpass'}
        sos = scipy.signal.butter(**bk, output='sos')
        padlen = _padlen(bk)
        ns = int(rng.integers(1, 5))
        coll = None
        if rng.random() < 0.3:
            k = int(rng.integers(1, 3))
            nc = (padlen + int(rng.integers(1, 4))) * k
            coll = (np.arange(nc) % k) if rng.random() < 0.5 else (np.arange(nc) * k // nc)
        else:
            nc = int(rng.integers(max(2, padlen - 6), padlen + 8))
        x, xtag = _gen_matrix(rng, nc, ns)
        pad = min(int(rng.choice([0, 0, 1, 3, nc])), nc)
        tap = rng.choice([None, 0, 1, pad])
        tap = None if tap is None else int(tap)
        lagc = rng.choice([None, 0, 3, 300])
        lagc = None if lagc is None else int(lagc)
        kw = dict(ntr_pad=pad, ntr_tap=tap, lagc=lagc, butter_kwargs=bk)
        if coll is not None:
            kw['collection'] = coll
        try:
            y = voltage.kfilt(x.copy(), **kw)
        except ValueError:
            y = 'err ValueError'
        desc = {'op': 'kfilt', 'filter': 'modelled sosfiltfilt', 'nc': nc, 'ns': ns, 'ntr_pad': pad, 'ntr_tap': tap, 'lagc': lagc, 'butter_kwargs': bk,
                'collection': None if coll is None else coll.tolist(), 'x': x.tolist()}
        add(f"spatial {nc} {ns} kfiltsos {pad} {'N' if tap is None else tap} {'N' if lagc is None else lagc} {_coll_tok(coll)} {_sos_tok(sos)} {_bits(x)}",
            lambda ans, y=y, desc=desc, x=x, nc=nc, ns=ns, t=(xtag, 'coll' if coll is not None else 'coll=None', 'lagc=' + ('off' if not lagc else 'on'),
                                                              'pad>0' if pad else 'pad=0'):
            _cmp_arrays(ctx, 'kfilt', desc, y, ans, (nc, ns), np.max(np.abs(x)) * 10, tags=('kfilt-modelled-filter',) + t))

    # ---- (e) agc at the boundary of "dead": rows that are zero except one sample (first / last / middle), all-zero rows, windows longer than the
    #          row, one-sample rows; the gain must be positive on every live row (theorem agc_gain_positive) in the model AND in the code --------
    for _ in range(ctx.n(30, 250)):
        nc, ns = int(rng.integers(1, 5)), int(rng.choice([1, 2, 3, 5, 8, 17, 30]))
        lagc = int(rng.choice([1, 2, 3, 5, 2 * ns, 2 * ns + 1, 300]))
        x = np.zeros((nc, ns))
        kinds = []
        for c in range(nc):
            k = int(rng.integers(0, 5))
            kinds.append(k)
            if k == 1:
                x[c, 0] = rng.normal()
            elif k == 2:
                x[c, -1] = rng.normal()
            elif k == 3:
                x[c, int(rng.integers(0, ns))] = rng.normal()
            elif k == 4:
                x[c] = rng.normal(size=ns)
        x = x * float(10.0 ** rng.integers(-6, 4))
        d, g = voltage.agc(x.copy(), wl=lagc, si=1.0)
        d, g = np.asarray(d, float), np.asarray(g, float)
        live = np.any(x != 0, axis=1)
        impl = f"ok gain-positive-on-live-rows={bool(np.all(g[live] > 0))} dead={_ints((np.sum(g, axis=1) == 0).astype(int))} zero-rows={_ints((~live).astype(int))}"
        desc = {'op': 'agc', 'class': 'rows at the boundary of dead', 'nc': nc, 'ns': ns, 'lagc': lagc, 'epsilon': 1e-8, 'x': x.tolist()}

        def chk(ans, d=d, g=g, x=x, nc=nc, ns=ns, live=live, impl=impl, desc=desc, lagc=lagc):
            parts = dict(p.split('=', 1) for p in ans.split()[1:])
            md, mg = _unbits(parts['data'], (nc, ns)), _unbits(parts['gain'], (nc, ns))
            mdead = [int(v) for v in parts['dead'].split(',')]
            model = f"ok gain-positive-on-live-rows={bool(np.all(mg[live] > 0))} dead={_ints(mdead)} zero-rows={_ints((~live).astype(int))}"
            sc = max(float(np.max(np.abs(x))), 1e-300)
            okg = _close(g, mg, sc)
            okp = bool(np.max(np.abs(md * mg - x)) <= TOL * sc) and bool(np.max(np.abs(d * g - x)) <= TOL * sc)
            if not (okg and okp):
                impl, model = impl + f' gain {_summary(g)}', model + f' gain {_summary(mg)} product-ok={okp}'
            ctx.compare('agc', desc, impl, model, nontrivial=True,
                        tags=('agc', 'agc-dead-boundary', 'window>=2ns' if lagc >= 2 * ns else 'window<2ns', 'has-zero-row' if (~live).any() else 'all-live'))
        add(f'agc {nc} {ns} {lagc} {_bits([1e-8])} {_bits(x)}', chk)

    model = ctx.lean(lines)
    for fn, ans in zip(checks, model):
        fn(ans)


def correspondence(ctx):
    _exact_part(ctx)
    _twin_part(ctx)
    _growth_part(ctx)
    _oracle_part(ctx)


# ---------------------------------------------------------------------------------------------
# failing-input search
# ---------------------------------------------------------------------------------------------
def _size(kind, inp):
    if kind == 'sequence':
        return (0, int(sum(np.asarray(a['__nd__']).size for a in inp['args'] if isinstance(a, dict) and '__nd__' in a)))
    if 'x' in inp:
        return (0, int(np.asarray(inp['x']).size))
    return (1, len(inp.get('freqs', [])) + inp.get('nch', 0) + (5 if inp.get('bg_seed') is not None else 0)
            + (3 if inp.get('n_outside') or inp.get('bad') else 0))


def _from_mismatch(m):
    """oracle inputs suggested by a model/implementation disagreement"""
    c = m['case']
    op = c.get('op')
    out = []
    if op == 'car':
        if c['operator'] in ('median', 'average'):
            out.append(('center', {'operator': c['operator'], 'collection': c['collection'], 'x': c['x']}))
            if c['collection'] is not None:
                out.append(('groups', {'fn': 'car', 'settings': {'operator': c['operator']}, 'collection': c['collection'], 'x': c['x']}))
    elif op == 'kfilt' and c.get('collection') is not None and c['ntr_pad'] == 0 and c['ntr_tap'] in (None, 0):
        out.append(('groups', {'fn': 'kfilt', 'settings': {'ntr_pad': 0, 'ntr_tap': c['ntr_tap'], 'lagc': c['lagc'], 'butter_kwargs': c['butter_kwargs']},
                               'collection': c['collection'], 'x': c['x']}))
    elif op == 'fk':
        out.append(('groups', {'fn': 'fk', 'settings': c['settings'], 'collection': c['collection'], 'x': c['x']}))
    elif op == 'agc':
        out.append(('agc', {'wl': float(c['lagc']), 'si': 1.0, 'epsilon': c['epsilon'], 'x': c['x']}))
    elif op in ('destripe', 'destripe_lfp') and c.get('labels') is not None and 3 in c['labels'] and op == 'destripe' and c['fs'] == 30000 \
            and c.get('realign') and 'collection' not in c['k_kwargs']:
        out.append(('outside', {'version': c['version'], 'nshank': c['nshank'], 'first_channel': c['first_channel'], 'fs': c['fs'],
                                'k_filter': c['k_filter'], 'k_kwargs': c['k_kwargs'], 'labels': [3 if l == 3 else 0 for l in c['labels']], 'x': c['x']}))
    return out


def search(ctx, reasons):
    rng = ctx.subrng(777)
    found = []

    def tryit(kind, inp):
        r = run_oracle(kind, inp)
        if r is not None:
            found.append((_size(kind, inp), kind, inp, r))
        return r

    for kind, inp, r in getattr(ctx, '_oracle_fails', [])[:50]:
        found.append((_size(kind, inp), kind, inp, r))
    for spec, r in getattr(ctx, '_purity_fails', [])[:50]:
        found.append((_size('sequence', spec), 'sequence', spec, r))
    for m in ctx.mismatches[:60]:
        if m['op'].startswith('oracle-') or m['op'] == 'sequence':
            continue
        for kind, inp in _from_mismatch(m):
            tryit(kind, inp)
    # small structured sweep of every algebraic clause (smallest inputs first)
    for kind in ('center', 'groups', 'agc', 'outside', 'sequence'):
        if any(f[1] == kind and f[0] <= (0, 40) for f in found):
            continue
        for small in (True, False):
            hit = False
            for _ in range(150 if small else 120):
                if kind == 'groups':
                    inp = _gen_groups(rng, fn=['car', 'kfilt', 'fk'][int(rng.integers(0, 3))], small=small)
                else:
                    inp = GENS[kind](rng, small=small)
                if tryit(kind, inp):
                    hit = True
                    break
            if hit:
                break
    # numeric clauses: simplest waveforms first
    if not any(f[1] == 'stripe' for f in found):
        for k in range(40):
            inp = _gen_stripe(rng, simple=k < 24, lfp=(k % 3 == 2))
            if k < 24:
                inp['version'], inp['nshank'] = str(VERSIONS[k % 4][0]), VERSIONS[k % 4][1]
                inp['k_filter'] = bool((k // 4) % 2)
                inp.pop('n_outside', None); inp.pop('bad', None)
                if k >= 8:      # one dead channel on an ADC-group seam / at a probe end
                    a = PHYS_ADC[inp['version']][0] * 2
                    inp['bad'] = [[a, a - 1, 0, 383, 2 * a + 1, 3 * a - 2][(k // 8 + k) % 6]]
            if tryit('stripe', inp):
                break
    if not any(f[1] == 'spike' for f in found):
        for k in range(40):
            inp = _gen_spike(rng, simple=k < 20)
            if tryit('spike', inp):
                break
    if not found:
        return None
    found.sort(key=lambda f: (f[0][0], 'raised' in f[3], f[0][1]))
    _, kind, inp, r = found[0]
    if kind == 'sequence' and inp.get('form'):          # keep only the deviations of the form that matter
        base = {'data': 'f64C', 'labels': 'int64', 'collection': 'int64', 'operator': 'str', 'scalars': 'py', 'spelling': 'keyword'}
        for k in base:
            if inp['form'].get(k) != base[k]:
                trial = {**inp, 'form': {**inp['form'], k: base[k]}}
                r2 = run_oracle('sequence', trial)
                if r2 is not None:
                    inp, r = trial, r2
    inp = {k: v for k, v in inp.items() if not k.startswith('_')}
    return {'input': {'oracle': kind, **inp}, 'observed': r, 'expected': EXPECTED[kind],
            'how': f"python (PYTHONPATH=harness:$IBL_REPO/src): from props import c05; c05.run_oracle('{kind}', input)  — input without the 'oracle' key; "
                   f"see oracle_{kind} in harness/props/c05.py for the construction of the arrays"}


def known_findings(ctx):
    def agc_inplace():
        # kfilt (gain control on, no collection) followed by car on the SAME array: car no longer sees the original values
        from ibldsp import voltage
        r = np.random.default_rng(5)
        x = r.normal(size=(14, 6))
        want = voltage.car(x.copy())
        voltage.kfilt(x, lagc=3)
        return bool(np.max(np.abs(voltage.car(x) - want)) > 1e-9)
    def int_dtype_groups():
        # integer-dtype data with channel groups: xout = np.zeros_like(x) is an integer array, the per-group results are truncated into it
        from ibldsp import voltage
        x = np.array([[1, 2], [2, 5], [4, 9]], dtype=np.int16)
        coll = np.array([0, 0, 0])
        return bool(np.max(np.abs(voltage.car(x, collection=coll, operator='average').astype(float) - voltage.car(x, operator='average'))) > 0.1)

    def int_dtype_agc():
        # integer-dtype data through agc: `x[~dead] = x / gain` stores the quotient into the integer array, data * gain is not the input any more
        from ibldsp import voltage
        x = np.array([[10, -20, 30, 40, -50, 60]], dtype=np.int64)
        d, g = voltage.agc(x.copy(), wl=3, si=1.0)
        return bool(np.max(np.abs(d * g - x)) > 1.0)
    return {'agc-inplace': agc_inplace, 'int-dtype-groups': int_dtype_groups, 'int-dtype-agc': int_dtype_agc}


def replay(ctx, rep):
    i = dict(rep['input'])
    kind = i.pop('oracle')
    r = run_oracle(kind, i)
    print('oracle:', r)
    return r is not None
