"""C11 — Truncated or inconsistent files open and expose exactly the complete sample frames
(spikeglx.Reader.open / .ns / .rl, spikeglx.OnlineReader.ns)."""
import contextlib
import io
import logging
import os
import shutil
import struct
import tempfile
from pathlib import Path

import numpy as np

ID = 'C11'
DRIVER = 'C11'
LEAN_TARGETS = ['IblVerif.Properties.C11']
THEOREMS = [
    'IblVerif.C11.exposed_eq_floor',
    'IblVerif.C11.within_file',
    'IblVerif.C11.values_prefix',
    'IblVerif.C11.seconds_roundtrip',
    'IblVerif.C11.seconds_roundtrip_binary64',
    'IblVerif.C11.offline_open_std',
    'IblVerif.C11.online_floor',
    'IblVerif.C11.online_open_std',
    'IblVerif.C11.duration_matches',
    'IblVerif.C11.duration_close_std',
    'IblVerif.C11.cbin_exposed',
    'IblVerif.C11.cbin_independent_of_ch_rate',
    'IblVerif.C11.cbin_exposed_std',
    'IblVerif.C11.cbin_ch_rate_counterexample',
    'IblVerif.C11.round_counterexample',
    'IblVerif.C11.offline_incomplete_meta_counterexample',
    # round h: steps of open, re-opening, growing files, constructor without meta data
    'IblVerif.C11.open_steps_spec',
    'IblVerif.C11.steps_agree_with_open',
    'IblVerif.C11.reopen_same_offline',
    'IblVerif.C11.reopen_same_offline_std',
    'IblVerif.C11.online_reopen_grown',
    'IblVerif.C11.online_reopen_grown_std',
    'IblVerif.C11.grown_prefix_stable',
    'IblVerif.C11.offline_reopen_stale_counterexample',
    'IblVerif.C11.nometa_768',
    'IblVerif.C11.nometa_770',
    'IblVerif.C11.nometa_both_384_wins',
    'IblVerif.C11.nometa_neither',
]
RULE = ('real files on disk: (channels nc, dtype, sampling-rate text, announced fileTimeSecs text, k complete frames, r trailing '
        'bytes, reader offline/online, format .bin/.cbin/flat-without-meta, ignore_warnings, presence of the fileTimeSecs/'
        'fileSizeBytes keys). Exhaustive box: nc 1..4 x k 0..3 x EVERY r in 0..frame-1 x 5 announced lengths (k-1, k, k+1, '
        'k+1/2, 3k+7 samples) x 2 rates x both readers; seeded random cases: nc in {1..8,16,32,64} (nidq meta, nSavedChans '
        'adjusted) and the 277/385-channel imec fixtures, r boundary-biased (0, 1, half-1, half, half+1, frame-1, random), '
        'rates 30000/2500/30000.123456/2500.05/30003.0003/random fractional/1/2/0.5 (exact ties), sparse files up to 2^40 '
        'bytes, dtype int16/int32/int8, .cbin compressed with mtscomp under a .meta announcing fewer/more/equal samples with the .ch '
        'sample_rate equal to the meta rate, nominal-vs-calibrated (30000 vs 30003.0003 / 29999.757983 / 30000.390639481, streams long '
        'enough for more than half a sample of drift, 1-2 channels) or grossly different (2500 vs 30000), '
        'OnlineReader on a growing file; the shipped recording-in-progress .meta (no fileTimeSecs/fileSizeBytes) under the '
        'OnlineReader at every kind of size. A case is non-trivial when the file has >= 1 frame and disagrees with its meta data '
        '(trailing bytes or announced length != frames present); distinct by the whole case description. Round h: the same reader '
        'OBJECT closed and opened again (op reopen: unchanged file for both readers; OnlineReader on a file appended to in between '
        'by 1 byte / less than a frame / exactly m frames / frames + trailing bytes; a NEW reader of the same class on the grown '
        'file), and files WITHOUT meta data opened through the size inference of the constructor (op nometa: multiples of 768, of '
        '770 with 1..8 and 383..1500 frames, of both = 295 680, odd multiples of 384 / 385, neighbours, arbitrary sizes; none / some '
        '/ all of nc, ns, fs, nsync given, 0 = falsy; int16 / int32)')
ASSUMPTIONS = [
    'input forms: for 60 % of the cases the FORM of the call is drawn independently of the value (dtype as str / np.dtype / type '
    'incl. float32/float64 data; file as Path / str / its .meta as Path or str / meta_file= or ch_file= keyword; constructor vs '
    'open=False + open() vs context manager; explicit ignore_warnings=False; nc/ns/fs of a meta-less reader as int / float / numpy '
    'scalars with integer values; rate and duration written with trailing zeros / a bare dot) and compared with the model of the '
    'value. Excluded: meta_file= given as a str (known finding meta-file-kw-str: AttributeError), a meta-less reader built with '
    'open=False and entered as a context manager (known finding flat-open-false-context: no _raw attribute), nc given as a float (np.ones '
    'raises a clear TypeError: unsupported by the API); fractional ns/fs of a meta-less reader are truncated by int() in the code '
    'and are not generated',
    'the property is demanded for files with at least one complete frame (its own quantifier); sub-frame and empty files are '
    'still run through model and code (ns = 0 / "cannot mmap an empty file") but the oracle does not judge them',
    'known finding incomplete-meta-keys: the OFFLINE Reader on meta data without fileTimeSecs (recording in progress) raises '
    'TypeError in Reader.ns; exactly that class (offline reader and fileTimeSecs absent) is excluded from the generator and the '
    'oracle (the model follows the code: TypeError; theorem offline_incomplete_meta_counterexample). The ONLINE reader on such '
    'meta data is inside the property and is generated and judged (any size, default and ignore_warnings=True)',
    'Reader(bin, nc=, ns=, fs=) without a .meta (flat mode) has no meta data to disagree with: modelled and compared '
    '(np.memmap refuses a too long map), not judged by the oracle',
    'constructor without meta data: the float test st_size / 384 % 2 == 0 is modelled as 768 | st_size (exact below 2^53) and '
    'int(st_size / 2 / 384) as the exact quotient; the oracle judges only Reader(path) with nothing else given, int16, on a size '
    'that is a whole number of 384- or 385-channel frames (opens, ns * nc * 2 = size); with arguments given, other sizes or dtypes '
    'model and code are compared but nothing is demanded. A multiple of both 768 and 770 is read as 384 channels (theorem '
    'nometa_both_384_wins): the exposed frames still cover the file, which is all the property asks',
    're-opening: an OFFLINE Reader object is re-opened only on an unchanged file. Re-opened after the file has grown it keeps the '
    'frame count of its construction (self.nbytes is read once in __init__; theorem offline_reopen_stale_counterexample, '
    'demonstration known_findings()[offline-reopen-stale-size], not listed in known_findings.txt yet): that class is excluded '
    'from the generator and the oracle; a NEW offline Reader on the grown file and the re-opened OnlineReader are judged',
    'warnings are not part of the property: which steps open performs (warning, rewrite, map) is proved about the step model and '
    'tied to the source text by the translator tie only; the correspondence compares their consequences (outcome, ns, shape, '
    'duration, values, with and without ignore_warnings), never the log',
    'duration: rl and the rewritten fileTimeSecs are compared with the model\'s float64 values with a tolerance of a quarter '
    'sample period (|d|*fs <= 0.25): "matches the exposed sample count"; bit-exact agreement is counted in the notes',
    'float statements are proved over R in the standard model of binary64 rounding (|delta| <= 2^-53, integers up to 2^53 '
    'exact, any nearest-integer function), no overflow/underflow; k < 2^50 frames offline, size < 2^40 bytes online',
    'values are compared through Reader[...] (float32 volts) against the file prefix scaled by the same NumPy expression '
    '(astype(float32) then *= sample2volts), channel order taken from Reader.raw_channel_order (sort=False)',
    '.cbin: the compressed stream is intact (mtscomp lossless codec, shape from the .ch file); the .meta disagrees in length and/or '
    'in sampling rate (the .ch sample_rate is an input of the model that must not influence ns: cbin_independent_of_ch_rate)',
]
TRUSTED = [
    'standard model of IEEE-754 binary64 rounding as stated in Analysis/OpenSizeRounding.lean (StdRounding; shown to hold for the '
    'concrete 53-bit round-to-nearest function fl53 in Analysis/OpenSizeBinary64.lean, unbounded exponent); Lean Float = '
    'IEEE binary64 in the driver (same operation sequence as Python: int/int, float/float, float*float, rint, trunc)',
    'np.memmap(mode="r", shape) raises ValueError exactly when shape*itemsize exceeds the file size or the file is empty',
    'mtscomp.Reader.shape is the (n_samples, n_channels) of the .ch file and its slicing agrees with NumPy for in-range rows',
    'translator tie: harness/pyfn2lean.py and the per-item assumptions of harness/tiespecs/c11.py (the four non-integer tests of '
    'Reader.open fixed per item; self.ns read as one symbol although the property is re-evaluated after the rewrite — the '
    're-evaluation is the composed theorems ns_after_open_eq / ns_after_cbin_open_eq); event patterns are regular expressions '
    'on the unparsed statements (a warning is "subscripting" when its text contains self.meta[ )',
    'Reader.close closes the map and changes no attribute the sample count depends on (re-open model: openBinAt)',
]
LEVEL_TEXT_H = (' Round h: open_steps_spec / steps_agree_with_open (fileTimeSecs is rewritten exactly when nc*ns*itemsize != nbytes on a '
                'reader with meta data, independent of ignore_warnings, the uncompressed warning never subscripts the meta data, the '
                'map is last, and the step model agrees with the value model); reopen_same_offline (second open of the same object '
                '= first); online_reopen_grown (a grown file re-opened by an OnlineReader exposes exactly the complete frames now '
                'present, monotone, +m for m frames, whatever size the object remembers); grown_prefix_stable; nometa_768 / nometa_770 '
                '/ nometa_both_384_wins / nometa_neither (inferred (nc, ns) reproduce the size exactly; 384 wins on multiples of 295 680)')
LEVEL_TEXT = ('Lean 4 theorems for every byte length, channel count, item size, announced duration and positive rate: after open '
              'the exposed sample count is floor(bytes/(nc*itemsize)) (offline: round(fl(fl(k/fs)*fs)) = k for k < 2^50 in the '
              'standard model of rounding; online: trunc(fl(fl(b/s)/nc)) = floor for b < 2^40), the map lies inside the file, '
              'one more frame would not, values are the row-major prefix, rl = ns/fs; the .cbin reader exposes the .ch sample '
              'count; the pre-fix formula provably fails; tied to the code by a differential run on real truncated files.'
              + LEVEL_TEXT_H)
LEVEL_NOTE = ('trusted: Lean kernel + Mathlib, standard model of float rounding (relates the R-theorems to IEEE arithmetic), the '
              'Python correspondence harness, numpy.memmap / mtscomp behaviour as stated. Finding kept: the offline Reader on meta '
              'data without fileTimeSecs (recording in progress) raises TypeError in Reader.ns; OnlineReader opens them. '
              'Translator tie (regenerated from spikeglx.py every run, theorems Tie.C11.*): OnlineReader.ns, the duration Reader.open '
              'writes, Reader.ns, Reader.shape, the duration of the mtscomp branch (shape[0] over the META rate), and Reader.open as '
              'the sequence of its steps for each of the 6 combinations of its non-integer tests (is_mtscomp, meta present, '
              'ignore_warnings, mtscomp shape mismatch: these four are per-item ASSUMPTIONS of the tie, the integer size test and the '
              'order/guards of warning, rewrite and map are read from the source). NOT in the tie (outside the translator subset), '
              'only hand model + correspondence: the size inference of __init__ ((n/d) % 2 == 0 on a float quotient, x = x or e), '
              'Reader.rl (a returned fraction), close / __enter__ (bare attribute tests), the stale self.nbytes of a re-opened '
              'object. Only numeric: float64 evaluation of st_size/384 % 2 and st_size/2/384 (exact below 2^53, executed, not '
              'proved); durations to a quarter sample. Candidate finding: offline object re-opened after growth keeps the old count')
TECHNIQUE = ('Lean 4 proof: Nat floor arithmetic (omega/simp) + real analysis of two roundings (Mathlib, linarith/nlinarith) over an '
             'abstract float interface instantiated with IEEE Float in the driver; exact differential run on real files; '
             'translator tie: the step sequence / size test / durations of Reader.open, Reader.ns, OnlineReader.ns, Reader.shape '
             're-translated from the source on every run and proved equal to the model (unfold + simp/omega)')

def _fixtures():
    from framework import SRC
    return SRC / 'tests' / 'fixtures'


# template name -> (fixture, rate key, fixed nc or None, file stem)
TEMPLATES = {
    'nidq': ('sample3B_g0_t0.nidq.meta', 'niSampRate', None, 'x_g0_t0.nidq'),
    'ap3A': ('sample3A_g0_t0.imec.ap.meta', 'imSampRate', 385, 'x_g0_t0.imec.ap'),
    'lf3A': ('sample3A_g0_t0.imec.lf.meta', 'imSampRate', 385, 'x_g0_t0.imec.lf'),
    'ap3B': ('sample3B_g0_t0.imec1.ap.meta', 'imSampRate', 385, 'x_g0_t0.imec1.ap'),
    'np24': ('sampleNP2.4_4shanks_g0_t0.imec.ap.meta', 'imSampRate', 385, 'x_g0_t0.imec0.ap'),
    'np21': ('sampleNP2.1_g0_t0.imec.ap.meta', 'imSampRate', 385, 'x_g0_t0.imec0.ap'),
    'ap277': ('sample3A_376_channels.ap.meta', 'imSampRate', 277, 'x_g0_t0.imec.ap'),
    'acq': ('sampleNP2.4_4shanks_while_acquiring_incomplete.ap.meta', 'imSampRate', 385, 'x_g0_t0.imec0.ap'),
}
ITEMSIZE = {'int16': 2, 'int32': 4, 'int8': 1, 'float32': 4, 'float64': 8}


def _bits(x):
    return struct.unpack('<Q', struct.pack('<d', float(x)))[0]


def _unbits(s):
    return struct.unpack('<d', struct.pack('<Q', int(s)))[0]


def _pos(x):
    """decimal text without exponent (the meta parser only converts [0-9,.]* to numbers)"""
    return np.format_float_positional(float(x), trim='-')


def _meta_text(c):
    fixture, ratekey, _, _ = TEMPLATES[c['tpl']]
    out = []
    for line in (_fixtures() / fixture).read_text().splitlines():
        key = line.split('=', 1)[0]
        if key in ('fileTimeSecs', 'fileSizeBytes'):
            continue
        if key == 'nSavedChans':
            line = f'nSavedChans={c["nc"]}'
        elif key == ratekey:
            line = f'{ratekey}={c["fs"]}'
        elif key in ('snsMnMaXaDw', 'acqMnMaXaDw') and c['tpl'] == 'nidq':
            line = f'{key}=0,0,{c["nc"] - 1},1'
        out.append(line)
    if c['hs']:
        out.insert(5, f'fileSizeBytes={c.get("size_claim", 0)}')
    if c['fts'] is not None:
        out.insert(6, f'fileTimeSecs={c["fts"]}')
    return '\n'.join(out) + '\n'


class Built:
    """A case materialised on disk."""

    def __init__(self, c):
        self.c = c
        self.dir = Path(tempfile.mkdtemp(prefix='c11_'))
        self.isz = ITEMSIZE[c['dtype']]
        self.frame = c['nc'] * self.isz
        self.nbytes = c['k'] * self.frame + c['r']
        stem = TEMPLATES[c['tpl']][3]
        rng = np.random.default_rng(c['seed'])
        self.tail_start = 0           # first sample index held in self.samples (sparse files: only the tail is written)
        if c['fmt'] == 'cbin':
            import mtscomp
            n = c['k']
            self.samples = rng.integers(-3000, 3000, size=n * c['nc']).astype(np.int16)
            self.tail = self.samples.tobytes()
            tmp = self.dir / (stem + '.bin')
            self.samples.tofile(tmp)
            self.path = self.dir / (stem + '.cbin')
            with contextlib.redirect_stderr(io.StringIO()), contextlib.redirect_stdout(io.StringIO()):
                mtscomp.compress(tmp, self.path, self.dir / (stem + '.ch'), sample_rate=float(c.get('ch_fs') or c['fs']),
                                 n_channels=c['nc'], dtype=np.int16, check_after_compress=False,
                                 chunk_duration=c.get('chunk', 1.0), n_threads=1)
            tmp.unlink()
            self.nbytes = n * self.frame     # uncompressed size, for the record only
        else:
            self.path = self.dir / (stem + '.bin')
            if c.get('sparse'):
                ntail = min(c['k'], 2) * c['nc']
                self.tail_start = c['k'] * c['nc'] - ntail
                self.samples = rng.integers(-3000, 3000, size=ntail).astype(c['dtype'])
                trailing = rng.integers(1, 255, size=c['r']).astype(np.uint8)
                self.tail = self.samples.tobytes() + trailing.tobytes()
                with open(self.path, 'wb') as f:
                    f.truncate(self.nbytes)
                    f.seek(self.tail_start * self.isz)
                    f.write(self.tail)
            else:
                lim = 100 if c['dtype'] == 'int8' else 3000
                self.samples = rng.integers(-lim, lim, size=c['k'] * c['nc']).astype(c['dtype'])
                trailing = rng.integers(1, 255, size=c['r']).astype(np.uint8)
                self.tail = self.samples.tobytes() + trailing.tobytes()
                with open(self.path, 'wb') as f:
                    f.write(self.tail)
        if c['fmt'] != 'flat':
            (self.dir / (stem + '.meta')).write_text(_meta_text(c))

    def sample(self, p):
        """complete sample number p of the file (0 in the unwritten part of a sparse file)"""
        off = (p - self.tail_start) * self.isz
        if p >= self.tail_start and off + self.isz <= len(self.tail):
            return np.frombuffer(self.tail[off:off + self.isz], dtype=self.samples.dtype)[0]
        return self.samples.dtype.type(0)

    def prefix(self, rows):
        """the first rows*nc samples as a (rows, nc) matrix (non-sparse files)"""
        return self.samples[:rows * self.c['nc']].reshape(rows, self.c['nc'])

    def open(self):
        """Open with the case's call FORM (how the same request is spelled), see `_with_forms`."""
        import spikeglx
        c = self.c
        f = c.get('forms') or {}
        cls = spikeglx.OnlineReader if c['reader'] == 'on' else spikeglx.Reader
        dt = c['dtype']
        dt = {'str': dt, 'npdtype': np.dtype(dt), 'type': getattr(np, dt)}[f.get('dtype', 'str')]
        kw = dict(sort=False, dtype=dt)
        if c.get('iw'):
            kw['ignore_warnings'] = True
        elif f.get('iw_explicit'):
            kw['ignore_warnings'] = False
        if c['fmt'] == 'flat':
            conv = {'int': int, 'float': float, 'np.int64': np.int64, 'np.int32': np.int32, 'np.uint16': np.uint16,
                    'np.float64': np.float64}
            nf = f.get('num', {})
            kw.update(nc=conv[nf.get('nc', 'int')](c['nc']), ns=conv[nf.get('ns', 'int')](c['flat_ns']),
                      fs=conv[nf.get('fs', 'int')](c['flat_fs']))
        meta = self.path.with_suffix('.meta')
        pf = f.get('path', 'path')
        if pf == 'path':
            target = self.path
        elif pf == 'str':
            target = str(self.path)
        elif pf == 'meta':
            target = meta
        elif pf == 'meta_str':
            target = str(meta)
        elif pf == 'meta_kw':
            target = self.path
            kw['meta_file'] = meta
        elif pf == 'ch_kw':
            target = self.path
            kw['ch_file'] = self.path.with_suffix('.ch')
        else:
            raise ValueError(pf)
        of = f.get('open', 'ctor')
        if of == 'ctor':
            return cls(target, **kw)
        if of == 'open_false':
            sr = cls(target, open=False, **kw)
            sr.open()
            return sr
        if of == 'with':                 # `with Reader(...) as sr:` — the harness closes it (= __exit__)
            return cls(target, **kw).__enter__()
        if of == 'with_open_false':
            return cls(target, open=False, **kw).__enter__()
        raise ValueError(of)

    def grow(self, nbytes, seed):
        extra = np.random.default_rng(seed).integers(1, 255, size=nbytes).astype(np.uint8)
        with open(self.path, 'ab') as f:
            f.write(extra.tobytes())

    def cleanup(self):
        shutil.rmtree(self.dir, ignore_errors=True)


def _err(e):
    t = type(e).__name__
    if isinstance(e, ValueError):
        m = str(e)
        if 'empty file' in m:
            return 'err ValueError:empty'
        if 'mmap length' in m:
            return 'err ValueError:length'
        return 'err ValueError:' + m[:50]
    if t in ('ZeroDivisionError', 'TypeError', 'KeyError', 'IndexError'):
        return 'err ' + t
    return f'err {t}:{str(e)[:50]}'


def _scaled(sr, raw, cols=None):
    """what Reader.read makes of the raw samples: astype(float32)[..., order] *= gain[order]"""
    nc = raw.shape[-1]
    order = np.asarray(getattr(sr, 'raw_channel_order', np.arange(nc)))
    gain = sr.channel_conversion_sample2v[sr.type]
    out = raw.astype(np.float32, copy=True)[..., order]
    out *= gain[order]
    return out


def _finding_key(c):
    """the recorded finding: the OFFLINE reader on meta data without fileTimeSecs (recording in progress) raises
    TypeError in Reader.ns (None * fs); the online reader opens such meta data and is judged like any other case"""
    if c['fmt'] == 'flat':
        return None
    if c['fts'] is None and c['reader'] == 'off':
        return 'incomplete-meta-keys'
    return None


# ---------------------------------------------------------------------------------------------
# generator
# ---------------------------------------------------------------------------------------------
FS_LIST = ['30000', '2500', '30000.123456', '2500.05', '30003.0003', '29999.757983', '30000.390639481', '250', '1', '2', '0.5',
           '32000.75']


def _claim_text(samples, fs_txt):
    """fileTimeSecs text announcing `samples` (possibly fractional) samples at rate fs"""
    if float(fs_txt) == 0:
        return '1'
    return _pos(max(samples, 0) / float(fs_txt))


def _case(tpl, nc, fs, claim, k, r, reader, seed, fmt='bin', dtype='int16', iw=False, hs=True, has_fts=True, **kw):
    c = dict(tpl=tpl, nc=int(nc), dtype=dtype, fs=fs, fts=(_claim_text(claim, fs) if has_fts else None), hs=bool(hs),
             iw=bool(iw), k=int(k), r=int(r), reader=reader, fmt=fmt, seed=int(seed), claim=float(claim))
    c['size_claim'] = int(round(max(claim, 0))) * nc * ITEMSIZE[dtype]
    c.update(kw)
    return c


def _fs_form(txt, form):
    """the same number, written differently in the .meta file"""
    if form == 'plain' or 'e' in txt.lower():
        return txt
    if form == 'dot':
        return txt if '.' in txt else txt + '.'
    if form == 'dot0':
        return txt if '.' in txt else txt + '.0'
    if form == 'zeros':
        return (txt if '.' in txt else txt + '.') + '000000000000'
    raise ValueError(form)


def _with_forms(c, rng):
    """Draw the FORM of the call independently of its value: dtype as str / np.dtype / type, the file given as Path / str /
    through its .meta (Path or str) / with meta_file= or ch_file= keyword, constructor vs open=False + .open() vs context
    manager, numbers of a meta-less reader as int / float / numpy scalars, the rate and the duration written with trailing
    zeros / a bare dot in the .meta.  Excluded (see ASSUMPTIONS): meta_file= as str (known finding meta-file-kw-str),
    nc as a float (np.ones(nc) raises a clear TypeError: unsupported), a meta-less reader built with open=False and then
    entered as a context manager (known finding flat-open-false-context)."""
    f = {'dtype': str(rng.choice(['str', 'npdtype', 'type'])),
         'open': str(rng.choice(['ctor', 'ctor', 'open_false', 'with', 'with_open_false'])),
         'iw_explicit': bool(rng.random() < 0.3)}
    if c['fmt'] == 'flat':
        f['path'] = str(rng.choice(['path', 'str']))
        if f['open'] == 'with_open_false':     # known finding flat-open-false-context (no _raw attribute): excluded
            f['open'] = 'open_false'
        ints = ['int', 'np.int64', 'np.int32', 'np.uint16']
        f['num'] = {'nc': str(rng.choice(ints)) if c['nc'] < 65536 else 'int',
                    'ns': str(rng.choice(ints + ['float', 'np.float64'])) if c['flat_ns'] < 65536 else 'int',
                    'fs': str(rng.choice(ints + ['float', 'np.float64'])) if c['flat_fs'] < 65536 else 'int'}
    else:
        f['path'] = str(rng.choice(['path', 'str', 'meta', 'meta_str', 'meta_kw'] + (['ch_kw'] if c['fmt'] == 'cbin' else [])))
        f['fs_text'] = str(rng.choice(['plain', 'dot', 'dot0', 'zeros']))
        c['fs'] = _fs_form(c['fs'], f['fs_text'])
        if c['fts'] is not None and rng.random() < 0.5:
            c['fts'] = _fs_form(c['fts'], 'zeros')
            f['fts_text'] = 'zeros'
    c['forms'] = f
    return c


def _box(ctx, ncs, ks):
    out = []
    seed = 1000
    for nc in ncs:
        for k in ks:
            for r in range(0, 2 * nc):
                for claim in (k - 1, k, k + 1, k + 0.5, 3 * k + 7):
                    for fs in ('30000', '2500.05'):
                        for reader in ('off', 'on'):
                            seed += 1
                            out.append(_case('nidq', nc, fs, claim, k, r, reader, seed))
    return out


def _random_cases(ctx, n):
    rng = ctx.rng
    out = []
    for _ in range(n):
        u = rng.random()
        if u < 0.55:
            tpl, nc = 'nidq', int(rng.choice([1, 2, 3, 4, 5, 6, 7, 8, 16, 32, 64]))
        elif u < 0.62:
            tpl, nc = 'ap277', 277
        else:
            tpl = str(rng.choice(['ap3A', 'lf3A', 'ap3B', 'np24', 'np21']))
            nc = 385
        dtype = str(rng.choice(['int16'] * 8 + ['int32', 'int8', 'float32', 'float64']))
        frame = nc * ITEMSIZE[dtype]
        fs = str(rng.choice(FS_LIST)) if rng.random() < 0.75 else f'{rng.uniform(100, 40000):.6f}'
        sparse = rng.random() < 0.2
        if sparse:
            k = int(np.exp(rng.uniform(np.log(1e4), np.log((2 ** 40 - frame) // frame))))
        else:
            k = int(np.exp(rng.uniform(0, np.log(40 if nc > 100 else 400)))) - (1 if rng.random() < 0.05 else 0)
        rk = rng.integers(0, 8)
        r = [0, 1, frame // 2 - 1, frame // 2, frame // 2 + 1, frame - 1, int(rng.integers(0, frame)), int(rng.integers(0, frame))][rk]
        r = min(max(r, 0), frame - 1)
        ck = rng.integers(0, 9)
        claim = [k, k - 1, k + 1, k + 0.5, k - 0.5, max(k // 2, 0), 2 * k + 3, int(rng.integers(0, 5 * k + 10)), k + r / frame][ck]
        reader = 'on' if rng.random() < 0.4 else 'off'
        iw = rng.random() < 0.15
        c = _case(tpl, nc, fs, claim, k, r, reader, rng.integers(1 << 31), dtype=dtype, iw=iw, sparse=bool(sparse))
        if reader == 'on' and rng.random() < 0.4:
            c['grow'] = int(rng.choice([1, frame - 1, frame, frame + 1, int(rng.integers(1, 3 * frame))]))
        out.append(c)
    return out


def _acquiring_cases(ctx, n):
    """meta data of a recording in progress (no fileTimeSecs, no fileSizeBytes; the repository's own fixture), read with
    the online reader — the property's "recording still in progress" case: any size, default and ignored warnings"""
    rng = ctx.rng
    out = []
    frame = 770
    for i in range(n):
        k = int(rng.integers(1, 30)) if i % 7 else int(np.exp(rng.uniform(np.log(1e4), np.log(1e9))))
        r = int(rng.choice([0, 1, 384, 385, 386, 769, int(rng.integers(0, 770)), int(rng.integers(0, 770))]))
        c = _case('acq', 385, str(rng.choice(['30000', '30000.123456', '29999.757983'])), k, k, r, 'on',
                  rng.integers(1 << 31), iw=bool(rng.random() < 0.3), hs=False, has_fts=False, sparse=bool(k > 1000))
        if rng.random() < 0.4:
            c['grow'] = int(rng.choice([1, frame - 1, frame, frame + 1, int(rng.integers(1, 3 * frame))]))
        out.append(c)
    # meta data with only one of the two keys, both readers where the offline one can work (fileTimeSecs present)
    for _ in range(max(n // 3, 2)):
        k = int(rng.integers(1, 30))
        r = int(rng.choice([0, 1, 385, 769]))
        out.append(_case('acq', 385, '30000', k + int(rng.integers(-1, 2)), k, r, str(rng.choice(['off', 'on'])),
                         rng.integers(1 << 31), iw=bool(rng.random() < 0.3), hs=False))
        out.append(_case('acq', 385, '30000', k, k, r, 'on', rng.integers(1 << 31), hs=True, has_fts=False))
    return out


# (rate in the .meta, rate the stream was compressed with = sample_rate of the .ch header)
RATE_PAIRS_CLOSE = [('30003.0003', '30000'), ('29999.757983', '30000'), ('30000.390639481', '30000'),
                    ('2500.0325532900833', '2500'), ('30000', '30000.390639481'), ('2500.05', '2500')]
RATE_PAIRS_GROSS = [('30000', '2500'), ('2500', '30000'), ('30003.0003', '2500'), ('250', '30000'), ('30000', '1')]


def _cbin_case(rng, tpl, nc, fs, ch_fs, k, ck, chunk=None, iw=False):
    claim = [k, k - 1, k + 1, max(k // 2, 0), 2 * k + 3, k + 0.5, int(rng.integers(0, 3 * k + 5)), k + 1000, max(k - 1000, 0)][ck]
    if chunk is None:
        chunk = float(rng.choice([1.0, 0.01, 0.003]))
    if chunk * float(ch_fs) < 2:
        chunk = max(1.0, 4 / float(ch_fs))
    return _case(tpl, nc, fs, claim, k, 0, 'off', rng.integers(1 << 31), fmt='cbin', chunk=chunk, iw=iw, ch_fs=ch_fs)


def _cbin_cases(ctx, n):
    """.cbin streams under a .meta that announces fewer / more / as many samples; a third compressed at the meta rate,
    the others at a different rate (nominal vs calibrated: long streams with few channels, so that the drift exceeds
    half a sample; grossly different: any length)"""
    rng = ctx.rng
    out = []
    for i in range(n):
        u = rng.random()
        ck = int(rng.integers(0, 9))
        iw = bool(rng.random() < 0.2)
        if u < 0.3:        # same rate, all channel counts
            if rng.random() < 0.75:
                tpl, nc = 'nidq', int(rng.choice([1, 2, 3, 5, 8, 16]))
            else:
                tpl, nc = str(rng.choice(['ap3A', 'np24', 'ap3B'])), 385
            fs = str(rng.choice(['30000', '2500', '30000.123456', '2500.05', '30003.0003']))
            k = int(np.exp(rng.uniform(0, np.log(60 if nc > 100 else 1500)))) + 1
            out.append(_cbin_case(rng, tpl, nc, fs, fs, k, ck, iw=iw))
        elif u < 0.65:     # nominal vs calibrated rate: needs k * |fs/ch_fs - 1| >= 1/2
            fs, ch_fs = RATE_PAIRS_CLOSE[int(rng.integers(0, len(RATE_PAIRS_CLOSE)))]
            need = 0.5 / abs(float(fs) / float(ch_fs) - 1)
            k = int(need * rng.uniform(1.05, 2.2)) + 1 if rng.random() < 0.8 else int(need * rng.uniform(0.2, 0.95)) + 1
            out.append(_cbin_case(rng, 'nidq', int(rng.choice([1, 1, 2])), fs, ch_fs, min(k, 140000), ck, chunk=1.0, iw=iw))
        else:              # grossly different rates: short streams
            fs, ch_fs = RATE_PAIRS_GROSS[int(rng.integers(0, len(RATE_PAIRS_GROSS)))]
            if rng.random() < 0.2:
                tpl, nc = str(rng.choice(['ap3A', 'np24'])), 385
            else:
                tpl, nc = 'nidq', int(rng.choice([1, 2, 3, 5]))
            k = int(np.exp(rng.uniform(0, np.log(40 if nc > 100 else 600)))) + (0 if rng.random() < 0.5 else 1)
            out.append(_cbin_case(rng, tpl, nc, fs, ch_fs, max(k, 1), ck, iw=iw))
    return out


def _cbin_box():
    """smallest .cbin inputs, for the search: 1..3 samples, announced one less / one more, same and different .ch rate"""
    rng = np.random.default_rng(5)
    out = []
    for k in (1, 2, 3):
        for ck in (1, 2, 0):
            for fs, ch_fs in (('30000', '30000'), ('30000', '2500'), ('2500', '30000'), ('30003.0003', '30000')):
                out.append(_cbin_case(rng, 'nidq', 1, fs, ch_fs, k, ck, chunk=1.0))
    for fs, ch_fs in RATE_PAIRS_CLOSE:
        need = int(0.5 / abs(float(fs) / float(ch_fs) - 1)) + 50
        out.append(_cbin_case(rng, 'nidq', 1, fs, ch_fs, need, 1, chunk=1.0))
        out.append(_cbin_case(rng, 'nidq', 1, fs, ch_fs, need, 2, chunk=1.0))
    return out


def _flat_cases(ctx, n):
    rng = ctx.rng
    out = []
    for _ in range(n):
        nc = int(rng.choice([1, 2, 3, 5, 8, 385]))
        k = int(rng.integers(0, 12))
        frame = nc * 2
        r = int(rng.choice([0, 1, frame // 2, frame - 1]))
        told = max(k + int(rng.choice([-2, -1, 0, 0, 1, 2, 7])), 0)
        c = _case('nidq', nc, '30000', told, k, r, 'on' if rng.random() < 0.3 else 'off', rng.integers(1 << 31), fmt='flat')
        c['flat_ns'], c['flat_fs'] = told, int(rng.choice([30000, 2500, 1]))
        c['fts'] = None
        out.append(c)
    return out


def _reopen_cases(ctx, n):
    """the same reader OBJECT opened, closed and opened again (Reader.close / Reader.open): on the unchanged file (both
    readers), and — OnlineReader only — on a file that was appended to in between (recording in progress): 1 byte, less than a
    frame, exactly m frames, frames + trailing bytes.  The offline object re-opened after growth is the candidate finding
    offline-reopen-stale-size and is not generated (a NEW offline Reader on the grown file is compared in the same case)."""
    rng = ctx.rng
    out = []
    for _ in range(n):
        u = rng.random()
        if u < 0.7:
            tpl, nc = 'nidq', int(rng.choice([1, 2, 3, 4, 5, 8, 16]))
        else:
            tpl, nc = str(rng.choice(['ap3A', 'np24', 'ap3B', 'ap277'])), 385
            if tpl == 'ap277':
                nc = 277
        frame = nc * 2
        k = int(rng.integers(1, 12 if nc > 100 else 60))
        r = int(rng.choice([0, 0, 1, frame // 2, frame - 1, int(rng.integers(0, frame))]))
        claim = [k, k, k - 1, k + 1, k + 0.5, 2 * k + 3][int(rng.integers(0, 6))]
        reader = 'on' if rng.random() < 0.65 else 'off'
        fs = str(rng.choice(FS_LIST[:7]))
        c = _case(tpl, nc, fs, claim, k, r, reader, rng.integers(1 << 31), iw=bool(rng.random() < 0.2))
        m = int(rng.integers(1, 4))
        c['reopen'] = int(rng.choice([0, 1, frame - r - 1 if frame - r > 1 else 1, frame - r, m * frame, m * frame + 1,
                                      m * frame + frame - 1, int(rng.integers(1, 3 * frame))])) if reader == 'on' else 0
        out.append(c)
    return out


def _nometa_cases(ctx, n):
    """Reader(bin) on a file WITHOUT a .meta: the constructor infers (nc, ns, fs, nsync) from the size — multiples of 768
    bytes (384 channels), of 770 (385 channels + sync; 1..8 frames and 383..1500 frames, where size/2/384 and size/2/385 differ), of both (295 680: which branch wins), odd multiples of 384 / 385,
    neighbours of all of them, arbitrary sizes — with none, some or all of nc / ns / fs / nsync given (0 = falsy)."""
    rng = ctx.rng
    out = []
    for i in range(n):
        m = int(rng.integers(1, 9)) if rng.random() < 0.5 else int(rng.choice([383, 385, 386, 767, 769, int(rng.integers(400, 1500))]))
        kind = int(rng.choice(9, p=[0.2, 0.2, 0.12, 0.08, 0.08, 0.08, 0.08, 0.08, 0.08]))
        size = [768 * m, 770 * m, 295680 * int(rng.integers(1, 3)), 384 * (2 * m + 1), 385 * (2 * m + 1),
                768 * m + int(rng.choice([-2, -1, 1, 2])), 770 * m + int(rng.choice([-2, -1, 1, 2])),
                int(rng.integers(1, 5000)), 2 * int(rng.integers(1, 40)) * int(rng.choice([3, 7, 16]))][kind]
        a = {}
        if rng.random() < 0.45:
            matched = size % 768 == 0 or size % 770 == 0
            if rng.random() < 0.5:
                a['nc'] = int(rng.choice([0, 3, 384, 385] if matched else [1, 3, 7, 16]))
            if rng.random() < 0.5:
                nc_ = a.get('nc') or (385 if size % 768 else 384)
                a['ns'] = int(rng.choice([0, 1, max(size // (2 * nc_), 1), size // (2 * nc_) + 1, 5]))
            if rng.random() < 0.5:
                a['fs'] = int(rng.choice([0, 2500, 30000, 1] if matched else [2500, 30000, 1]))
            if rng.random() < 0.3:
                a['nsync'] = int(rng.choice([0, 1, 2]))
        out.append({'op': 'nometa', 'size': int(size), 'args': a, 'dtype': 'int16' if rng.random() < 0.85 else 'int32',
                    'seed': int(rng.integers(1 << 31))})
    return out


def _run_nometa(c):
    """real code on one no-meta case -> canonical string (same format as the driver's `nometa` answer, durations aside)"""
    import spikeglx
    d = Path(tempfile.mkdtemp(prefix='c11n_'))
    sr = None
    try:
        p = d / 'flat_g0_t0.imec0.ap.bin'
        raw = np.random.default_rng(c['seed']).integers(0, 255, size=c['size']).astype(np.uint8)
        raw.tofile(p)
        try:
            sr = spikeglx.Reader(p, open=False, dtype=c['dtype'], **c['args'])
        except AssertionError:
            return 'err AssertionError'
        except TypeError:
            return 'err TypeError'
        except Exception as e:   # noqa
            return _err(e)
        head = f'ok nc={int(sr.nc)} ns={int(sr.ns)} fs={int(sr.fs)} nsync={int(sr.nsync)}'
        try:
            sr.open()
        except Exception as e:   # noqa
            return head + ' open=' + _err(e).replace(' ', '_')
        ns, nc = int(sr.shape[0]), int(sr.shape[1])
        vals = 'ok'
        isz = ITEMSIZE[c['dtype']]
        if ns >= 1 and nc >= 1 and ns * nc * isz <= c['size']:
            data = np.frombuffer(raw.tobytes()[:ns * nc * isz], dtype=c['dtype']).reshape(ns, nc)
            try:
                got = sr[ns - 1, :]
                if not np.array_equal(np.asarray(got), _scaled(sr, data[ns - 1:ns, :])[0]):
                    vals = 'last-frame-differs-from-the-file'
            except Exception as e:   # noqa
                vals = _err(e).replace(' ', '_')
        return head + f' open=ok_ns={ns}_shape={ns},{nc} vals={vals}'
    finally:
        if sr is not None:
            with contextlib.suppress(Exception):
                sr.close()
        shutil.rmtree(d, ignore_errors=True)


def _nometa_line(c):
    a = c['args']
    g = lambda k_: '-' if k_ not in a else str(a[k_])   # noqa
    return f'nometa {c["size"]} {g("nc")} {g("ns")} {g("fs")} {g("nsync")} {ITEMSIZE[c["dtype"]]}'


def _nometa_model(ans):
    """driver answer -> same canonical form (the duration bits are dropped: flat readers have no meta duration)"""
    if not ans.startswith('ok '):
        return ans
    head, opened = ans.rsplit(' open=', 1)
    if opened.startswith('ok_'):
        d = dict(x.split('=', 1) for x in opened.split('_')[1:])
        return f'{head} open=ok_ns={d["ns"]}_shape={d["shape"]} vals=ok'
    return f'{head} open={opened}'


def _cases(ctx):
    cases = _box(ctx, (1, 2, 3, 4), (0, 1, 2, 3)) if ctx.quick else _box(ctx, (1, 2, 3, 4, 5, 6), (0, 1, 2, 3, 5))
    cases += _random_cases(ctx, ctx.n(900, 9000))
    cases += _acquiring_cases(ctx, ctx.n(60, 400))
    cases += _cbin_cases(ctx, ctx.n(120, 700))
    cases += _flat_cases(ctx, ctx.n(60, 400))
    cases += _reopen_cases(ctx, ctx.n(90, 600))
    # the form of the call is drawn independently of the value, for 60 % of the cases
    frng = ctx.subrng(13)
    cases = [_with_forms(c, frng) if frng.random() < 0.6 else c for c in cases]
    # edge rows of the model's error branches (zero rate; empty file) — never judged by the oracle
    cases.append(_case('nidq', 3, '0', 1, 2, 1, 'off', 7))
    cases.append(_case('nidq', 3, '0', 1, 2, 1, 'on', 8))
    cases.append(_case('nidq', 2, '30000', 3, 0, 0, 'off', 9))
    cases.append(_case('nidq', 2, '30000', 0, 0, 0, 'on', 10))
    return [c for c in cases if _finding_key(c) is None]


# ---------------------------------------------------------------------------------------------
# correspondence
# ---------------------------------------------------------------------------------------------
def _model_line(c, b):
    if c['fmt'] == 'flat':
        return f'flat {c["reader"]} {c["nc"]} {c["flat_ns"]} {c["flat_fs"]} {b.isz} {b.nbytes}'
    fts = '-' if c['fts'] is None else str(_bits(float(c['fts'])))
    if c['fmt'] == 'cbin':
        return f'cbin {c["nc"]} {_bits(float(c["fs"]))} {fts} {c["k"]} {c["nc"]} {_bits(float(c.get("ch_fs") or c["fs"]))}'
    return f'open {c["reader"]} {c["nc"]} {b.isz} {b.nbytes} {_bits(float(c["fs"]))} {fts}'


def _parse_model(ans):
    if not ans.startswith('ok '):
        return None
    d = dict(p.split('=', 1) for p in ans.split()[1:])
    return {'ns': int(d['ns']), 'shape': tuple(int(x) for x in d['shape'].split(',')),
            'rl': None if d['rl'].startswith('(') else _unbits(d['rl']),
            'fts': None if d['fts'] == '-' else _unbits(d['fts'])}


def _run_impl(c, probes_rng):
    """Run the real code on the case; everything needed later is extracted while the reader is open."""
    b = Built(c)
    rec = {'line': _model_line(c, b), 'nbytes': b.nbytes, 'isz': b.isz}
    sr = None
    try:
        try:
            sr = b.open()
        except Exception as e:   # noqa
            rec['outcome'] = _err(e)
            return rec
        rec['outcome'] = 'ok'
        nc = c['nc']
        rec['ns'], rec['shape'] = int(sr.ns), tuple(int(x) for x in sr.shape)
        try:
            rec['rl'] = float(sr.rl)
        except Exception as e:   # noqa
            rec['rl'] = _err(e)
        rec['fts'] = None if sr.meta is None or sr.meta.get('fileTimeSecs') is None else float(sr.meta['fileTimeSecs'])
        rec['fs'] = float(sr.fs)
        rec['order'] = np.asarray(getattr(sr, 'raw_channel_order', np.arange(nc))).copy()
        ns = rec['ns']
        nsamp = b.nbytes // b.isz
        # whole read, asking for 3 rows more than announced
        if not c.get('sparse'):
            try:
                a = sr[0:ns + 3, :]
                rec['read_rows'] = int(a.shape[0])
                rows = min(ns, len(b.samples) // nc)
                if 0 < nsamp <= 1200 and c['fmt'] != 'cbin':
                    rec['samples'] = b.samples.copy()
                # judged now, for the row count the implementation announces, one less and all complete frames
                # (the model's count is not known yet; any other count is a disagreement anyway)
                rec['vals_by_rows'] = {}
                for rr in {rows, max(rows - 1, 0), len(b.samples) // nc}:
                    exp = _scaled(sr, b.prefix(rr))
                    if a.shape != exp.shape:
                        tag = f'read returned shape {tuple(a.shape)}'
                    elif not np.array_equal(a, exp):
                        w = np.argwhere(a != exp)[0]
                        tag = f'first difference from the file prefix at [{int(w[0])},{int(w[1])}]'
                    else:
                        tag = 'ok'
                    rec['vals_by_rows'][rr] = tag
            except Exception as e:   # noqa
                rec['read_err'] = _err(e)
        # probes [i, j]
        pts = []
        if ns > 0:
            pts += [(ns - 1, nc - 1), (0, 0), (int(probes_rng.integers(0, ns)), int(probes_rng.integers(0, nc))), (ns - 1, 0)]
        pts += [(ns, 0), (ns + 1, nc - 1)]
        if c.get('sparse') and ns > 2:
            pts += [(ns - 2, int(probes_rng.integers(0, nc)))]
        rec['probes'] = []
        for (i, j) in pts:
            col = int(rec['order'][j])
            try:
                v = sr[i, j]
                p = i * nc + col
                exp = _scaled(sr, np.array([[b.sample(i * nc + q) if i * nc + q < nsamp else 0 for q in range(nc)]],
                                           dtype=b.samples.dtype))[0, j] if p < nsamp else None
                rec['probes'].append((i, j, col, ('val', np.float32(v), exp)))
            except Exception as e:   # noqa
                rec['probes'].append((i, j, col, ('err', _err(e), None)))
        # growth of the file under an online reader
        if c.get('grow') and c['reader'] == 'on' and c['fmt'] == 'bin':
            b.grow(c['grow'], c['seed'] + 1)
            try:
                rec['grown'] = f'ok {int(sr.ns)} shape={int(sr.shape[0])},{int(sr.shape[1])}'
            except Exception as e:   # noqa
                rec['grown'] = _err(e)
            rec['grown_line'] = f'onlinens {nc} {b.isz} {b.nbytes + c["grow"]}'
        # the same object closed and opened again, the file appended to in between (OnlineReader) or unchanged
        if c.get('reopen') is not None and c['fmt'] == 'bin':
            rec['re'] = _reopen_observe(c, b, sr)
            rec['re_line'] = (f'reopen {c["reader"]} {nc} {b.isz} {b.nbytes} {b.nbytes + c["reopen"]} '
                              f'{_bits(float(c["fs"]))} {"-" if c["fts"] is None else _bits(float(c["fts"]))}')
            rec['fresh_line'] = (f'open {c["reader"]} {nc} {b.isz} {b.nbytes + c["reopen"]} '
                                 f'{_bits(float(c["fs"]))} {"-" if c["fts"] is None else _bits(float(c["fts"]))}')
        return rec
    finally:
        if sr is not None:
            with contextlib.suppress(Exception):
                sr.close()
        b.cleanup()


def _prefix_tag(sr, path, dtype, nc):
    """'ok' when sr[0:ns+3, :] is exactly the first ns complete frames of the file as it is now"""
    ns = int(sr.ns)
    data = np.fromfile(path, dtype=np.uint8)
    isz = ITEMSIZE[dtype]
    have = len(data) // (isz * nc)
    try:
        a = sr[0:ns + 3, :]
    except Exception as e:   # noqa
        return 'read ' + _err(e)
    if ns > have:
        return f'{ns} rows exposed, the file holds {have}'
    want = _scaled(sr, np.frombuffer(data[:ns * nc * isz].tobytes(), dtype=dtype).reshape(ns, nc))
    if a.shape != want.shape:
        return f'read returned shape {tuple(a.shape)}'
    return 'ok' if np.array_equal(a, want) else 'values differ from the file prefix'


def _reopen_observe(c, b, sr):
    """close, append c['reopen'] bytes, open() the same object; then a NEW reader on the grown file"""
    import spikeglx
    out = {}
    try:
        sr.close()
        if c['reopen']:
            b.grow(c['reopen'], c['seed'] + 2)
        sr.open()
        out['same'] = (f'ok ns={int(sr.ns)} shape={int(sr.shape[0])},{int(sr.shape[1])} '
                       f'vals={_prefix_tag(sr, b.path, c["dtype"], c["nc"]).replace(" ", "_")}')
        out['same_rl'] = float(sr.rl)
    except Exception as e:   # noqa
        out['same'] = _err(e)
    new = None
    try:
        cls = spikeglx.OnlineReader if c['reader'] == 'on' else spikeglx.Reader
        new = cls(b.path, sort=False, dtype=c['dtype'], ignore_warnings=bool(c.get('iw')))
        out['fresh'] = (f'ok ns={int(new.ns)} shape={int(new.shape[0])},{int(new.shape[1])} '
                        f'vals={_prefix_tag(new, b.path, c["dtype"], c["nc"]).replace(" ", "_")}')
    except Exception as e:   # noqa
        out['fresh'] = _err(e)
    finally:
        if new is not None:
            with contextlib.suppress(Exception):
                new.close()
    return out


def _desc(c):
    d = {k: v for k, v in c.items() if k not in ('size_claim',)}
    return d


def _tags(c, outcome):
    frame = c['nc'] * ITEMSIZE[c['dtype']]
    r = c['r']
    t = ['reader=' + c['reader'], 'fmt=' + c['fmt'], 'nc=' + ('385' if c['nc'] == 385 else '277' if c['nc'] == 277 else 'small'),
         'r=0' if r == 0 else 'r<half' if 2 * r < frame else 'r=half' if 2 * r == frame else 'r>half',
         'claim=' if c['claim'] == c['k'] else 'claim<' if c['claim'] < c['k'] else 'claim>',
         'fs-frac' if float(c['fs']) != int(float(c['fs'])) else 'fs-int',
         'k=0' if c['k'] == 0 else 'k=1..9' if c['k'] < 10 else 'k=10..999' if c['k'] < 1000 else 'k>=1000',
         'dtype=' + c['dtype'], 'outcome=' + outcome]
    if c['claim'] != int(c['claim']):
        t.append('claim-fractional')
    if c.get('sparse'):
        t.append('sparse')
    if c.get('iw'):
        t.append('ignore_warnings')
    if c['fts'] is None and c['fmt'] != 'flat':
        t.append('meta-without-fileTimeSecs')
    if c.get('grow'):
        t.append('grown')
    f = c.get('forms')
    if f:
        t += ['form:dtype=' + f['dtype'], 'form:path=' + f['path'], 'form:open=' + f['open']]
        if 'fs_text' in f:
            t.append('form:fs_text=' + f['fs_text'])
        for k_, v_ in f.get('num', {}).items():
            t.append(f'form:{k_}={v_}')
    else:
        t.append('form:default')
    if c['fmt'] == 'cbin':
        ch = float(c.get('ch_fs') or c['fs'])
        rel = abs(float(c['fs']) / ch - 1)
        t.append('ch_rate=meta' if rel == 0 else 'ch_rate~meta' if rel < 0.01 else 'ch_rate!=meta')
        if rel and c['k'] * rel >= 0.5 and c['claim'] != c['k']:
            t.append('cbin-drift>=half-sample')
    return tuple(t)


def correspondence(ctx):
    logging.getLogger('ibllib').setLevel(logging.CRITICAL)
    cases = _cases(ctx)
    prng = ctx.subrng(11)
    recs = [_run_impl(c, prng) for c in cases]
    answers = ctx.lean([r['line'] for r in recs])
    # second batch: cells / at / growth, parameterised by the model's sample count
    lines2, slots = [], []
    for idx, (c, r, ans) in enumerate(zip(cases, recs, answers)):
        m = _parse_model(ans)
        r['model'] = m
        if m is None or r['outcome'] != 'ok':
            continue
        nc = c['nc']
        nsamp = r['nbytes'] // r['isz']
        for (i, j, col, _) in r['probes']:
            lines2.append(f'at {m["ns"]} {nc} {nsamp} {i} {col}'); slots.append((idx, 'at'))
        if 'grown_line' in r:
            lines2.append(r['grown_line']); slots.append((idx, 'grown'))
        if 're_line' in r:
            lines2.append(r['re_line']); slots.append((idx, 're_same'))
            lines2.append(r['fresh_line']); slots.append((idx, 're_fresh'))
    # constructor without meta data (its own op)
    nm_cases = _nometa_cases(ctx, ctx.n(150, 1500))
    nm_base = len(lines2)
    lines2 += [_nometa_line(c) for c in nm_cases]
    ans2 = ctx.lean(lines2)
    for c, a in zip(nm_cases, ans2[nm_base:]):
        size = c['size']
        br = '768&770' if size % 295680 == 0 else '768' if size % 768 == 0 else '770' if size % 770 == 0 else 'neither'
        ctx.compare('nometa', c, _run_nometa(c), _nometa_model(a), nontrivial=(br != 'neither' or bool(c['args'])),
                    tags=('size=' + br, 'args=' + ('none' if not c['args'] else '+'.join(sorted(c['args']))), 'dtype=' + c['dtype']))
    ans2 = ans2[:nm_base]
    per = {}
    for (idx, kind), a in zip(slots, ans2):
        per.setdefault(idx, {}).setdefault(kind, []).append(a)
    # small files: the model's `exposed` view, row by row, from the samples themselves
    lines3, slots3 = [], []
    for idx, (c, r) in enumerate(zip(cases, recs)):
        if r.get('model') and r['outcome'] == 'ok' and not c.get('sparse') and 'read_err' not in r:
            if 'samples' in r and len(r['samples']) > 0 and idx % ctx.n(2, 1) == 0:
                lines3.append(f'cells {r["model"]["ns"]} {c["nc"]} ' + ','.join(str(int(x)) for x in r['samples']))
                slots3.append((idx, r['samples']))
    ans3 = ctx.lean(lines3)
    cells = {idx: (a, s) for (idx, s), a in zip(slots3, ans3)}

    exact_rl = tol_rl = 0
    worst = 0.0
    for idx, (c, r, ans) in enumerate(zip(cases, recs, answers)):
        m = r.get('model')
        nontrivial = c['k'] >= 1 and c['fmt'] != 'flat' and (c['r'] != 0 or c['claim'] != c['k'])
        if r['outcome'] != 'ok' or m is None:
            impl_s, model_s = r['outcome'], (ans if m is None else ans.split(' rl=')[0])
            ctx.compare('open', _desc(c), impl_s, model_s, nontrivial=nontrivial, tags=_tags(c, r['outcome'].split(':')[0]))
            continue
        fs = r['fs']

        def close(a, b_):
            nonlocal exact_rl, tol_rl, worst
            if a is None or b_ is None:
                return 'ok' if a is None and b_ is None else repr(a)
            if isinstance(a, str):
                return a
            if a == b_:
                exact_rl += 1
                return 'ok'
            dev = abs(a - b_) * fs
            worst = max(worst, dev)
            if dev <= 0.25:
                tol_rl += 1
                return 'ok'
            return repr(a)
        rl_tag, fts_tag = close(r['rl'], m['rl']), close(r['fts'], m['fts'])
        # values
        vals = 'ok'
        if not c.get('sparse'):
            if 'read_err' in r:
                vals = r['read_err']
            else:
                vals = r['vals_by_rows'].get(m['ns'], f'rows read {r["read_rows"]}')
        if idx in cells and vals == 'ok':
            a3, samples = cells[idx]
            rows = [] if a3 == 'ok -' else [[int(x) for x in row.split(',')] for row in a3[3:].split(';')]
            want = samples[:m['ns'] * c['nc']].reshape(m['ns'], c['nc']).tolist()
            if rows != want:
                vals = 'model view differs from the NumPy reshape of the prefix'
        # probes
        probes = 'ok'
        for (i, j, col, (kind, v, exp)), a in zip(r['probes'], per.get(idx, {}).get('at', [])):
            if kind == 'err':
                if a != v:
                    probes = f'[{i},{j}] {v} (model {a})'
            elif not a.startswith('ok '):
                probes = f'[{i},{j}] returned a value where the model raises {a}'
            elif int(a.split()[1]) != i * c['nc'] + col or exp is None or np.float32(v) != np.float32(exp):
                probes = f'[{i},{j}] = {v}, file sample {a.split()[1]} scaled = {exp}'
            if probes != 'ok':
                break
        impl_s = f'ok ns={r["ns"]} shape={r["shape"][0]},{r["shape"][1]} rl={rl_tag} fts={fts_tag} vals={vals} probes={probes}'
        model_s = f'ok ns={m["ns"]} shape={m["shape"][0]},{m["shape"][1]} rl=ok fts=ok vals=ok probes=ok'
        if 'grown' in r:
            g = per.get(idx, {}).get('grown', ['?'])[0]
            impl_s += ' grown=' + r['grown'].replace(' ', '_')
            model_s += ' grown=' + (f'ok_{g.split()[1]}_shape={g.split()[1]},{c["nc"]}' if g.startswith('ok ') else g.replace(' ', '_'))
        ctx.compare('open', _desc(c), impl_s, model_s, nontrivial=nontrivial, tags=_tags(c, 'opens'))
        if 're' in r:
            def canon(a_):
                mm = _parse_model(a_)
                return a_ if mm is None else f'ok ns={mm["ns"]} shape={mm["shape"][0]},{mm["shape"][1]} vals=ok'
            g = c['reopen']
            frame = c['nc'] * r['isz']
            gt = ('reopen:unchanged' if g == 0 else 'reopen:grown<frame' if g < frame else
                  'reopen:grown=frames' if g % frame == 0 else 'reopen:grown>frame')
            ms, mf = (per.get(idx, {}).get(k_, ['?'])[0] for k_ in ('re_same', 're_fresh'))
            ctx.compare('reopen', _desc(c), r['re']['same'], canon(ms), nontrivial=True, tags=('reader=' + c['reader'], gt, 'same-object'))
            ctx.compare('reopen', dict(_desc(c), fresh=True), r['re']['fresh'], canon(mf), nontrivial=True,
                        tags=('reader=' + c['reader'], gt, 'new-object'))
    ctx.note(f'durations (rl, fileTimeSecs): {exact_rl} bit-identical to the model, {tol_rl} within tolerance, '
             f'largest deviation {worst:.3g} sample periods (tolerance 0.25)')
    ctx.note('exhaustive box: every trailing-byte count 0..frame-1 for nc in 1..%d, k in %s, 5 announced lengths, 2 rates, both readers'
             % ((4, '0..3') if ctx.quick else (6, '{0,1,2,3,5}')))
    # the constant the model takes as a parameter
    import spikeglx
    if int(ctx.consts.get('SAMPLE_SIZE', spikeglx.SAMPLE_SIZE)) != np.dtype('int16').itemsize:
        ctx.mismatch('const', {'SAMPLE_SIZE': ctx.consts.get('SAMPLE_SIZE')}, 'SAMPLE_SIZE', 'int16 itemsize 2')


# ---------------------------------------------------------------------------------------------
# oracle (from the property text, independent of the model) and search
# ---------------------------------------------------------------------------------------------
def oracle(c):
    """C11 on the real code for one case. None when it holds (or the case is outside the property), else what failed."""
    if c['fmt'] == 'flat' or c['k'] < 1 or _finding_key(c) is not None or float(c['fs']) <= 0:
        return None
    logging.getLogger('ibllib').setLevel(logging.CRITICAL)
    b = Built(c)
    sr = None
    try:
        nc = c['nc']
        present = c['k'] if c['fmt'] == 'cbin' else b.nbytes // (nc * b.isz)
        try:
            sr = b.open()
        except Exception as e:   # noqa
            return f'opening raised {type(e).__name__}: {e}'
        if int(sr.ns) != present:
            if c['fmt'] == 'cbin':
                return (f'ns = {int(sr.ns)} but the compressed stream holds {present} samples (.ch sample_rate '
                        f'{c.get("ch_fs") or c["fs"]}, meta rate {c["fs"]}, meta announces {c["claim"]:g} samples)')
            return f'ns = {int(sr.ns)} but the file holds {present} complete frames ({b.nbytes} bytes, frame {nc * b.isz})'
        if tuple(int(x) for x in sr.shape) != (present, nc):
            return f'shape = {tuple(sr.shape)}, expected {(present, nc)}'
        try:
            dur = float(sr.rl)
        except Exception as e:   # noqa
            return f'the duration rl raised {type(e).__name__}: {e}'
        if abs(dur * float(c['fs']) - present) > 0.25:
            return f'duration rl = {dur} s does not match {present} samples at {c["fs"]} Hz'
        try:
            last = sr[present - 1, :]
            if not c.get('sparse'):
                a = sr[0:present + 3, :]
        except Exception as e:   # noqa
            return f'reading the exposed frames raised {type(e).__name__}: {e}'
        want_last = _scaled(sr, np.array([[b.sample((present - 1) * nc + q) for q in range(nc)]], dtype=b.samples.dtype))[0]
        if not np.array_equal(np.asarray(last), want_last):
            return f'last exposed frame [{present - 1}, :] differs from the file'
        if not c.get('sparse'):
            want = _scaled(sr, b.prefix(present))
            if a.shape != want.shape:
                return f'a read of rows 0..{present + 3} returned shape {a.shape}, the file holds {want.shape}'
            if not np.array_equal(a, want):
                w = np.argwhere(a != want)[0]
                return f'value [{int(w[0])},{int(w[1])}] = {a[tuple(w)]} differs from the file prefix ({want[tuple(w)]})'
        if c.get('grow') and c['reader'] == 'on' and c['fmt'] == 'bin':
            b.grow(c['grow'], c['seed'] + 1)
            now = (b.nbytes + c['grow']) // (nc * b.isz)
            if int(sr.ns) != now:
                return f'after the file grew by {c["grow"]} bytes OnlineReader.ns = {int(sr.ns)}, complete frames = {now}'
        if c.get('reopen') is not None and c['fmt'] == 'bin' and (c['reader'] == 'on' or c['reopen'] == 0):
            # close, (online reader: the recording goes on) append, open the same object again
            what = f'close(), {c["reopen"]} bytes appended, open()'
            try:
                sr.close()
                if c['reopen']:
                    b.grow(c['reopen'], c['seed'] + 2)
                sr.open()
            except Exception as e:   # noqa
                return f'{what} raised {type(e).__name__}: {e}'
            now = (b.nbytes + c['reopen']) // (nc * b.isz)
            if int(sr.ns) != now or tuple(int(x) for x in sr.shape) != (now, nc):
                return f'after {what}: ns = {int(sr.ns)}, shape = {tuple(sr.shape)}; the file holds {now} complete frames'
            tag = _prefix_tag(sr, b.path, c['dtype'], nc)
            if tag != 'ok':
                return f'after {what}: {tag}'
            if abs(float(sr.rl) * float(c['fs']) - now) > 0.25:
                return f'after {what}: duration rl = {float(sr.rl)} s does not match {now} samples at {c["fs"]} Hz'
        return None
    finally:
        if sr is not None:
            with contextlib.suppress(Exception):
                sr.close()
        b.cleanup()


def oracle_nometa(c):
    """C11 for a file without meta data opened with nothing but its path (int16): when the size is a whole number of
    384- or 385-channel frames the reader opens and exposes frames that cover the file exactly (ns * nc * 2 = size, nc 384 or
    385); anything else (arguments given, other sizes, other dtypes) is outside the property and not judged."""
    if c.get('args') or c['dtype'] != 'int16' or (c['size'] % 768 and c['size'] % 770) or c['size'] == 0:
        return None
    got = _run_nometa(c)
    if not got.startswith('ok ') or ' open=ok_' not in got:
        return f'Reader(path) on a {c["size"]}-byte file without meta data: {got}'
    d = dict(x.split('=', 1) for x in got.split()[1:] if '=' in x)
    nc, ns = int(d['nc']), int(d['ns'])
    if nc not in (384, 385) or ns * nc * 2 != c['size'] or 'vals=ok' not in got:
        return f'Reader(path) on a {c["size"]}-byte file without meta data exposes ({ns}, {nc}): {got}'
    return None


def _size_key(c):
    return (c['nc'] * c['k'] + c['r'], c['nc'], c['k'], c['r'], c['fmt'] != 'bin', c['reader'] != 'off', c['claim'] != c['k'])


def search(ctx, reasons):
    cands = [m['case'] for m in ctx.mismatches[:60] if isinstance(m.get('case'), dict) and 'tpl' in m['case']]
    cands += _box(ctx, (1, 2, 3), (1, 2, 3)) + _cbin_box()
    rng = ctx.subrng(12)

    class _R:
        pass
    fake = _R(); fake.rng = rng; fake.quick = True; fake.n = lambda q, t: q
    cands += _cbin_cases(fake, 40) + _acquiring_cases(fake, 12) + _random_cases(fake, 250) + _reopen_cases(fake, 40)
    small = _box(ctx, (1, 2), (1, 2))
    cands += [_with_forms(dict(c), rng) for c in small[::3]] + [_with_forms(c, rng) for c in _cbin_box()[:12]]
    best = None
    nm = [m['case'] for m in ctx.mismatches[:40] if isinstance(m.get('case'), dict) and m['case'].get('op') == 'nometa']
    nm += [{'op': 'nometa', 'size': sz, 'args': {}, 'dtype': 'int16', 'seed': 1} for sz in (768, 770, 1536, 1540, 3840, 3850, 295680, 768 * 385 + 768, 770 * 385, 770 * 769)]
    for c in sorted(nm, key=lambda q: q['size']):
        try:
            res = oracle_nometa(c)
        except Exception as e:   # noqa
            res = f'oracle raised {type(e).__name__}: {e}'
        if res:
            return {'input': dict(c), 'observed': res,
                    'expected': 'C11: a file of whole 384- / 385-channel int16 frames without meta data opens and the exposed '
                                '(ns, nc) cover it exactly: ns * nc * 2 = size',
                    'how': 'harness/props/c11.py: oracle_nometa(input) writes a file of that size and calls spikeglx.Reader(path)'}
    for c in cands:
        c = dict(c)
        try:
            res = oracle(c)
        except Exception as e:   # noqa
            res = f'oracle raised {type(e).__name__}: {e}'
        if res and (best is None or _size_key(c) < _size_key(best[0])):
            best = (c, res)
    if best is None:
        return None
    c, res = best
    return {'input': _desc(c), 'observed': res,
            'expected': 'C11: the reader opens, ns = shape[0] = complete frames physically present (floor(bytes/(nc*itemsize)); '
                        'n_samples of the .ch for a .cbin), values = file prefix, reads inside the shape do not raise, rl*fs = ns',
            'how': 'harness/props/c11.py: oracle(input) builds the file + .meta in a temp dir (Built) and opens it with '
                   'spikeglx.Reader / OnlineReader'}


def replay(ctx, rep):
    if rep['input'].get('op') == 'nometa':
        r = oracle_nometa(dict(rep['input']))
        print('oracle:', r)
        return r is not None
    r = oracle(dict(rep['input']))
    print('oracle:', r)
    return r is not None


# ---------------------------------------------------------------------------------------------
# known finding: incomplete meta data (recording in progress / interrupted acquisition)
# ---------------------------------------------------------------------------------------------
def known_findings(ctx):
    def demo():
        """offline Reader on the repository's own 'while acquiring' meta file, 10 frames + 400 trailing bytes -> TypeError
        (the model raises the same); the OnlineReader must open the same file (that part is judged by the oracle)."""
        logging.getLogger('ibllib').setLevel(logging.CRITICAL)
        off = _case('acq', 385, '30000', 10, 10, 400, 'off', 2, iw=False, hs=False, has_fts=False)
        b = Built(off)
        try:
            try:
                sr = b.open()
                got = 'ok'
                sr.close()
            except Exception as e:   # noqa
                got = _err(e)
            line = _model_line(off, b)
        finally:
            b.cleanup()
        try:
            ctx.note(f'known finding incomplete-meta-keys (offline reader): code {got}, model {ctx.lean([line])[0]}')
        except Exception as e:   # noqa
            ctx.note(f'known finding: model not run ({e})')
        return got == 'err TypeError'

    def demo_meta_kw():
        """Reader(bin, meta_file=<str>) raises AttributeError ('str' object has no attribute 'exists'); with a Path it opens."""
        import spikeglx
        logging.getLogger('ibllib').setLevel(logging.CRITICAL)
        b = Built(_case('nidq', 3, '30000', 5, 4, 3, 'off', 3))
        try:
            try:
                sr = spikeglx.Reader(b.path, meta_file=str(b.path.with_suffix('.meta')))
                sr.close()
                return False
            except AttributeError:
                return True
        finally:
            b.cleanup()

    def demo_flat_ctx():
        """Reader(bin, nc=, ns=, fs=, open=False) without a .meta never sets _raw: is_open / `with` raise AttributeError."""
        import spikeglx
        c = _case('nidq', 3, '30000', 4, 4, 0, 'off', 4, fmt='flat')
        c['flat_ns'], c['flat_fs'], c['fts'] = 4, 30000, None
        b = Built(c)
        try:
            sr = spikeglx.Reader(b.path, nc=3, ns=4, fs=30000, open=False)
            try:
                with sr:
                    pass
                return False
            except AttributeError:
                return True
        finally:
            b.cleanup()

    def demo_offline_reopen():
        """candidate finding offline-reopen-stale-size: an OFFLINE Reader consistent with its file (4 frames x 3 channels),
        close(), the file grows by 2 complete frames, open() again -> still ns = 4 (self.nbytes is read once in __init__, so the
        size test does not fire), the file holds 6; a NEW Reader and the OnlineReader expose 6 (theorem
        offline_reopen_stale_counterexample).  Excluded from the generator: the offline object is only re-opened on an unchanged file."""
        logging.getLogger('ibllib').setLevel(logging.CRITICAL)
        b = Built(_case('nidq', 3, '30000', 4, 4, 0, 'off', 5))
        sr = None
        try:
            sr = b.open()
            sr.close()
            b.grow(12, 6)
            sr.open()
            return int(sr.ns) == 4 and b.path.stat().st_size // 6 == 6
        finally:
            if sr is not None:
                with contextlib.suppress(Exception):
                    sr.close()
            b.cleanup()
    return {'incomplete-meta-keys': demo, 'meta-file-kw-str': demo_meta_kw, 'flat-open-false-context': demo_flat_ctx,
            'offline-reopen-stale-size': demo_offline_reopen}
