"""C17 — Sliding windows cover, overlap, partition and splice exactly (ibldsp.utils.WindowGenerator)."""
import struct

import numpy as np

ID = 'C17'
DRIVER = 'C17'
LEAN_TARGETS = ['IblVerif.Properties.C17']
THEOREMS = [
    'IblVerif.C17.cover',
    'IblVerif.C17.overlap_exact',
    'IblVerif.C17.window_shape',
    'IblVerif.C17.nwin_eq_count',
    'IblVerif.C17.nwin_unclamped_counterexample',
    'IblVerif.C17.valid_partition',
    'IblVerif.C17.valid_inside',
    'IblVerif.C17.tscale_centre',
    'IblVerif.C17.hann_complement',
    'IblVerif.C17.splice_sum_one',
]
RULE = ('triples (ns, nswin, overlap) with overlap < nswin: an exhaustive small box plus seeded random triples '
        '(log-uniform sizes up to 10^7, biased to short last windows, ns <= overlap, zero overlap, 2*overlap = nswin; sample counts around 2^31 … 2^45 with very large windows, and the default 65536/1024 batch window over 2^31 samples); '
        'a subset also with the three arguments given in other numeric forms (numpy ints of several widths, floats); each triple is run through firstlast / nwin / tscale (a subset also twice on ONE generator object, and with passes that overlap in time on one object: tscale / a full pass inside an outer loop, two generators in lockstep), firstlast_valid (even overlaps, odd ones must assert) '
        'and firstlast_splicing; a case is non-trivial when it yields >= 2 windows or ns < nswin; distinct by triple+op')
ASSUMPTIONS = [
    'nwin is computed in float64 by the code (ceil of a float quotient); the model uses exact integers, equal for ns < 2^26',
    'splicing amplitudes are compared with tolerance 1e-12 (Float twin of the Hann ramp); per-sample sums with atol 1e-12 + rtol 1e-9 (for 2*overlap > nswin hundreds of windows add up at one sample)',
    'overlap >= nswin is outside the property (the Python generator does not terminate there); never generated',
]
TRUSTED = ['scipy.signal.windows.hann(2(ov+1)+1)[1:ov+1] equals 1/2 - 1/2 cos(pi (k+1)/(ov+1)) (checked numerically each run)']


def _impl_firstlast(ns, w, ov):
    from ibldsp.utils import WindowGenerator
    wg = WindowGenerator(ns, w, ov)
    fl = [(int(a), int(b)) for a, b in wg.firstlast]
    ts = WindowGenerator(ns, w, ov).tscale(1)
    ts2 = [int(round(2 * float(t))) for t in ts]
    assert all(abs(2 * float(t) - r) < 1e-9 for t, r in zip(ts, ts2))
    return f'ok nwin={int(wg.nwin)} fl=' + (';'.join(f'{a},{b}' for a, b in fl) or '-') + ' ts2=' + (','.join(map(str, ts2)) or '-')


def _impl_valid(ns, w, ov):
    from ibldsp.utils import WindowGenerator
    try:
        v = [tuple(int(x) for x in q) for q in WindowGenerator(ns, w, ov).firstlast_valid]
    except Exception as e:          # odd overlap: rejected (the exception class is not part of the property)
        return 'err ' + type(e).__name__
    return 'ok ' + (';'.join(','.join(map(str, q)) for q in v) or '-')


def _impl_splice(ns, w, ov):
    from ibldsp.utils import WindowGenerator
    sums = np.zeros(ns)
    amps = []
    for f, l, a in WindowGenerator(ns, w, ov).firstlast_splicing:
        sums[f:l] += a
        amps.append(np.array(a, dtype=float))
    return sums, amps


def _impl_same_object(ns, w, ov):
    """All generators consumed from ONE WindowGenerator object, twice: the object must behave as a pure function of
    (ns, nswin, overlap) whatever was iterated before (iw counter, any cached ramp ...).  The yielded arrays are NOT
    modified by the harness: whether they alias internal buffers is not part of C17."""
    from ibldsp.utils import WindowGenerator
    wg = WindowGenerator(ns, w, ov)
    out = []
    for rep in range(2):
        fl = [(int(a), int(b)) for a, b in wg.firstlast]
        ts2 = [int(round(2 * float(t))) for t in wg.tscale(1)]
        try:
            v = [tuple(int(x) for x in q) for q in wg.firstlast_valid]
            vs = 'ok ' + (';'.join(','.join(map(str, q)) for q in v) or '-')
        except Exception as e:
            vs = 'err ' + type(e).__name__
        sl = [(int(sl.start), int(sl.stop)) for sl in wg.slice]
        amps = []
        for f, l, a in wg.firstlast_splicing:
            amps.append(np.array(a, dtype=float))
        out.append((f'ok nwin={int(wg.nwin)} fl=' + (';'.join(f'{a},{b}' for a, b in fl) or '-') + ' ts2=' + (','.join(map(str, ts2)) or '-'),
                    vs, sl == fl, amps))
    return out


def _impl_interleaved(ns, w, ov):
    """Passes over ONE WindowGenerator object that overlap in time (a second generator started while the first is being
    consumed): tscale / a full inner pass inside an outer loop, two generators advanced in lockstep.  Each generator is an
    independent iteration of the same windows; returns the window lists seen by every pass."""
    from ibldsp.utils import WindowGenerator
    wg = WindowGenerator(ns, w, ov)
    outer, inner_ts, inner_fl = [], [], []
    for k, (a, b) in enumerate(wg.firstlast):
        outer.append((int(a), int(b)))
        if k == 0:
            inner_ts = [int(round(2 * float(t))) for t in wg.tscale(1)]
        if k == 1:
            inner_fl = [(int(c), int(d)) for c, d in wg.firstlast]
        if k > 4000:
            break
    wg2 = WindowGenerator(ns, w, ov)
    lock_a, lock_b = [], []
    for sl, (c, d, amp) in zip(wg2.slice, wg2.firstlast_splicing):
        lock_a.append((int(sl.start), int(sl.stop)))
        lock_b.append((int(c), int(d), len(amp)))
        if len(lock_a) > 4000:
            break
    return outer, inner_ts, inner_fl, lock_a, lock_b


_FORMS = {
    'int': int, 'np.int64': np.int64, 'np.int32': np.int32, 'np.int16': np.int16, 'np.uint16': np.uint16,
    'float': float, 'np.float64': np.float64, 'np.float32': np.float32,
}


def _form_ok(name, v):
    """can value v be represented exactly in this form?"""
    if name in ('np.int16',):
        return v < 2 ** 15
    if name in ('np.uint16',):
        return v < 2 ** 16
    if name in ('np.int32',):
        return v < 2 ** 31
    if name == 'np.float32':
        return v < 2 ** 24
    return True


def _impl_forms(ns, w, ov, fns, fw, fov):
    """Same VALUES, other numeric FORMS of the three constructor arguments.  Windows must come out as integers usable as
    slice bounds; the iteration is capped so that a generator that never reaches the end cannot hang the check."""
    import itertools
    import operator
    from ibldsp.utils import WindowGenerator
    nexp = max(-(-(ns - w) // (w - ov)), 0) + 1
    wg = WindowGenerator(_FORMS[fns](ns), _FORMS[fw](w), _FORMS[fov](ov))
    fl = list(itertools.islice(wg.firstlast, nexp + 3))
    flc = [(operator.index(a), operator.index(b)) for a, b in fl]       # TypeError for float bounds
    sl = [np.arange(ns)[s_] for s_ in itertools.islice(wg.slice, nexp + 3)]
    assert all(len(x) == b - a for x, (a, b) in zip(sl, flc)), 'slice does not select the window'
    ts2 = [int(round(2 * float(t))) for t in itertools.islice(iter(wg.tscale(1)), nexp + 3)] if len(fl) <= nexp else []
    return f'ok nwin={int(wg.nwin)} fl=' + (';'.join(f'{a},{b}' for a, b in flc) or '-') + ' ts2=' + (','.join(map(str, ts2)) or '-')


def _decode(tok):
    return np.array([struct.unpack('<d', struct.pack('<Q', int(x)))[0] for x in tok.split(',')]) if tok != '-' else np.zeros(0)


def _triples(ctx):
    rng = ctx.rng
    out = []
    box = ctx.n((40, 12), (400, 64))
    if ctx.tier == 'quick' and not ctx.quick:      # quick tier escalated by a broken secondary tie: an intermediate box
        box = (160, 32)
    for ns in range(1, box[0] + 1):
        for w in range(1, box[1] + 1):
            for ov in range(0, w):
                out.append((ns, w, ov))
    ctx.exhaustive_box = box
    for _ in range(ctx.n(2000, 20000)):
        kind = rng.integers(0, 6)
        w = int(np.exp(rng.uniform(0, np.log(70000)))) + 1
        ov = int(rng.integers(0, w))
        if kind == 0:
            ov = 0
        elif kind == 1:
            ov = w // 2
        elif kind == 2:
            ov = w - 1
        stride = w - ov
        k = int(rng.integers(0, 60))
        if kind == 3:      # ns <= overlap
            ns = int(rng.integers(1, max(ov, 1) + 1))
        elif kind == 4:    # last window short by r
            ns = w + k * stride + int(rng.integers(0, stride + 1))
        else:
            ns = int(np.exp(rng.uniform(0, np.log(1e7)))) + 1
            if (ns - w) // stride > 400:
                ns = w + int(rng.integers(1, 400)) * stride - int(rng.integers(0, stride))
        out.append((max(ns, 1), w, ov))
    # sample counts beyond what 31 / 32 / 53 bits hold (a 30 kHz recording passes 2^31 samples after 19.9 h): few, very large
    # windows, so that the lists stay short; and the library's default batch window (65536, overlap 1024) over 2^31 samples
    for e in (31, 32, 33, 36, 40, 45):
        for _ in range(ctx.n(6, 30)):
            w = 2 ** (e - int(rng.integers(4, 9))) + int(rng.integers(-3, 4))
            ov = int(rng.choice([0, w // 2, int(rng.integers(0, w)), 2 * int(rng.integers(0, w // 2))]))
            ns = 2 ** e + int(rng.integers(-5, 2 ** (e - 3)))
            out.append((ns, w, ov))
    out.append((2 ** 31 + 10 * 64512 + 777, 65536, 1024))
    return out


def correspondence(ctx):
    trip = _triples(ctx)
    lines, impl, meta = [], [], []
    # splicing is per-sample: restrict it to moderate sizes
    for (ns, w, ov) in trip:
        lines.append(f'firstlast {ns} {w} {ov}'); impl.append(_impl_firstlast(ns, w, ov)); meta.append(('firstlast', ns, w, ov))
        lines.append(f'valid {ns} {w} {ov}'); impl.append(_impl_valid(ns, w, ov)); meta.append(('valid', ns, w, ov))
    model = ctx.lean(lines)
    for m, a, b in zip(meta, impl, model):
        op, ns, w, ov = m
        nwin_real = max(-(-(ns - w) // (w - ov)), 0) + 1
        ctx.compare(op, {'op': op, 'ns': ns, 'nswin': w, 'overlap': ov}, a, b,
                    nontrivial=(nwin_real >= 2 or ns < w),
                    tags=(op, 'nwin=1' if nwin_real == 1 else 'nwin=2..9' if nwin_real < 10 else 'nwin>=10',
                          'ov=0' if ov == 0 else 'ov_odd' if ov % 2 else 'ov_even', 'ns<=ov' if ns <= ov else 'ns>ov'))
    # splicing
    sp = [(ns, w, ov) for (ns, w, ov) in trip if ns <= ctx.n(60, 160) and w <= ctx.n(24, 40)]
    if not ctx.quick:
        sp = sp[::3]
    sp += [(ns, w, ov) for (ns, w, ov) in trip[-ctx.n(600, 4000):] if ns * ((ns - w) // (w - ov) + 2) <= 60000]
    lines = [f'splice {ns} {w} {ov}' for ns, w, ov in sp]
    model = ctx.lean(lines)
    for (ns, w, ov), ans in zip(sp, model):
        desc = {'op': 'splice', 'ns': ns, 'nswin': w, 'overlap': ov}
        try:
            sums, amps = _impl_splice(ns, w, ov)
            parts = dict(p.split('=', 1) for p in ans.split()[1:])
            msums = _decode(parts['sums'])
            mamps = [_decode(t) for t in parts['amps'].split(';')]
            ok = (len(msums) == len(sums) and np.allclose(msums, sums, atol=1e-12, rtol=1e-9)
                  and len(mamps) == len(amps)
                  and all(len(x) == len(y) and np.allclose(x, y, atol=1e-12, rtol=0) for x, y in zip(mamps, amps)))
            impl_s = 'ok' if ok else f'sums[:8]={sums[:8].tolist()} n_windows={len(amps)}'
            model_s = 'ok' if ok else f'sums[:8]={msums[:8].tolist()} n_windows={len(mamps)}'
        except Exception as e:
            impl_s, model_s = f'err {type(e).__name__}: {e}', ans[:80]
        ctx.compare('splice', desc, impl_s, model_s, nontrivial=(ns > w),
                    tags=('splice', '2ov<=w' if 2 * ov <= w else '2ov>w'))
    # same values, other numeric forms of (ns, nswin, overlap): numpy ints of several widths, floats
    names = list(_FORMS)
    ft = [t for t in trip if t[0] <= 5000 and (t[0] - t[1]) // (t[1] - t[2]) <= 300][::ctx.n(9, 3)]
    lines, metas = [], []
    for k, (ns, w, ov) in enumerate(ft):
        r = ctx.subrng(17, k)
        pick = lambda v: [n for n in names if _form_ok(n, v)]
        fns, fw, fov = (str(r.choice(pick(ns))), str(r.choice(pick(w))), str(r.choice(pick(ov))))
        if k % 3 == 0:
            fns, fw = 'int', 'int'            # only the overlap in another form
        lines.append(f'firstlast {ns} {w} {ov}'); metas.append((ns, w, ov, fns, fw, fov))
    model = ctx.lean(lines)
    for (ns, w, ov, fns, fw, fov), m in zip(metas, model):
        try:
            impl_s = _impl_forms(ns, w, ov, fns, fw, fov)
        except Exception as e:
            impl_s = f'err {type(e).__name__}: {str(e)[:80]}'
        ctx.compare('forms', {'op': 'forms', 'ns': ns, 'nswin': w, 'overlap': ov, 'forms': [fns, fw, fov]}, impl_s, m,
                    nontrivial=(ns > w), tags=('forms', 'ov:' + fov))
    # same object reused (state carried between calls: iw counter, cached ramps ...)
    so = [t for t in trip if t[0] <= 300 and t[1] <= 40][::ctx.n(23, 5)] + [t for t in trip[-200:] if t[0] * ((t[0] - t[1]) // (t[1] - t[2]) + 2) <= 60000]
    lines = []
    for ns, w, ov in so:
        lines += [f'firstlast {ns} {w} {ov}', f'valid {ns} {w} {ov}', f'splice {ns} {w} {ov}']
    model = ctx.lean(lines)
    for k, (ns, w, ov) in enumerate(so):
        mfl, mv, msp = model[3 * k: 3 * k + 3]
        mamps = [_decode(t) for t in dict(p.split('=', 1) for p in msp.split()[1:])['amps'].split(';')]
        try:
            reps = _impl_same_object(ns, w, ov)
            for rep, (ifl, iv, slice_ok, amps) in enumerate(reps):
                okamp = len(amps) == len(mamps) and all(len(x) == len(y) and np.allclose(x, y, atol=1e-12, rtol=0) for x, y in zip(mamps, amps))
                impl_s = f'{ifl} | {iv} | slice={slice_ok} | amps={"ok" if okamp else [a[:4].tolist() for a in amps[:2]]}'
                model_s = f'{mfl} | {mv} | slice=True | amps=ok'
                ctx.compare('same-object', {'op': 'same-object', 'pass': rep, 'ns': ns, 'nswin': w, 'overlap': ov}, impl_s, model_s,
                            nontrivial=(ns > w), tags=('same-object',))
        except Exception as e:
            ctx.compare('same-object', {'op': 'same-object', 'ns': ns, 'nswin': w, 'overlap': ov}, f'err {type(e).__name__}: {e}', 'ok',
                        tags=('same-object',))
        # passes that overlap in time on one object (nested / lockstep generators): every pass sees the model's windows
        mwin = [tuple(int(x) for x in q.split(',')) for q in dict(p.split('=', 1) for p in mfl.split()[1:])['fl'].split(';') if q != '-']
        mts2 = [a + b - 1 for a, b in mwin]
        try:
            outer, its, ifl, la, lb = _impl_interleaved(ns, w, ov)
            impl_s = (outer, its, ifl if len(mwin) > 1 else mwin, la, [(c, d) for c, d, _ in lb], all(n == d - c for c, d, n in lb))
        except Exception as e:
            impl_s = f'err {type(e).__name__}: {e}'
        ctx.compare('interleaved', {'op': 'interleaved', 'ns': ns, 'nswin': w, 'overlap': ov}, impl_s,
                    (mwin, mts2, mwin, mwin, mwin, True), nontrivial=(len(mwin) > 1), tags=('interleaved-passes',))
    ctx.exhaustive = False
    ctx.note(f'exhaustive box ns<={ctx.exhaustive_box[0]}, nswin<={ctx.exhaustive_box[1]}, every overlap < nswin: '
             f'enumerated completely for firstlast/nwin/tscale/valid')


# ---------------------------------------------------------------------------------------------
def oracle(ns, w, ov):
    """Direct statement of C17 on the real code.  Returns None when it holds, else a description."""
    from ibldsp.utils import WindowGenerator
    wg = WindowGenerator(ns, w, ov)
    fl = [(int(a), int(b)) for a, b in wg.firstlast]
    if not fl or fl[0][0] != 0 or fl[-1][1] != ns:
        return f'windows do not span [0, ns): {fl[:3]}...{fl[-1:]}'
    for (a, b), (c, d) in zip(fl[:-1], fl[1:]):
        if b - c != ov:
            return f'consecutive windows ({a},{b}),({c},{d}) overlap by {b - c} != {ov}'
        if c > b:
            return f'gap between ({a},{b}) and ({c},{d})'
    if wg.nwin != len(fl):
        return f'announced nwin={wg.nwin} but {len(fl)} windows produced'
    ts = WindowGenerator(ns, w, ov).tscale(1)
    for (a, b), t in zip(fl, ts):
        if abs(t - (a + b - 1) / 2) > 1e-9:
            return f'tscale {t} is not the centre of window ({a},{b})'
    if ov % 2 == 0:
        cnt = np.zeros(ns, int)
        for a, b, fv, lv in WindowGenerator(ns, w, ov).firstlast_valid:
            if not (a <= fv and lv <= b):
                return f'valid range ({fv},{lv}) outside window ({a},{b})'
            cnt[fv:lv] += 1
        if not np.all(cnt == 1):
            t = int(np.where(cnt != 1)[0][0])
            return f'sample {t} is contained in {int(cnt[t])} valid sub-windows'
    # the generator object is a pure function of (ns, nswin, overlap): a second pass over the same object agrees
    fl2 = [(int(a), int(b)) for a, b in wg.firstlast]
    if fl2 != fl:
        return f'second iteration over the same WindowGenerator yields different windows: {fl2[:3]} vs {fl[:3]}'
    # generators started while another one over the same object is being consumed are independent passes
    if len(fl) <= 4000:
        try:
            outer, its, ifl, la, lb = _impl_interleaved(ns, w, ov)
        except Exception as e:
            return f'interleaved passes over one WindowGenerator raised {type(e).__name__}: {e}'
        if outer != fl:
            return f'a pass over firstlast during which tscale() / another pass was run on the same object yields {outer[:4]} instead of {fl[:4]}'
        if len(fl) > 1 and ifl != fl:
            return f'a pass started inside another pass over the same object yields {ifl[:4]} instead of {fl[:4]}'
        if [round(t) for t in its] != [a + b - 1 for a, b in fl]:
            return f'tscale() called inside a pass over the same object gives {[t / 2 for t in its[:4]]}, not the window centres'
        if la != fl or [(c, d) for c, d, _ in lb] != fl:
            return f'slice and firstlast_splicing advanced in lockstep on one object yield {la[:4]} / {lb[:4]} instead of {fl[:4]}'
    if 2 * ov <= w and ns <= 20000:
        wg2 = WindowGenerator(ns, w, ov)
        for rep in range(2):
            s2 = np.zeros(ns)
            try:
                for a, b, amp in wg2.firstlast_splicing:
                    s2[a:b] += amp
            except Exception as e:
                return f'firstlast_splicing (pass {rep} on the same object) raised {type(e).__name__}: {e}'
            if np.max(np.abs(s2 - 1)) > 1e-9:
                return f'splicing amplitudes on pass {rep} over the same object sum to {s2[int(np.argmax(np.abs(s2 - 1)))]} '
    if 2 * ov <= w and ns <= 200000:
        s = np.zeros(ns)
        try:
            for a, b, amp in WindowGenerator(ns, w, ov).firstlast_splicing:
                s[a:b] += amp
        except Exception as e:
            return f'firstlast_splicing raised {type(e).__name__}: {e}'
        if np.max(np.abs(s - 1)) > 1e-9:
            t = int(np.argmax(np.abs(s - 1)))
            return f'splicing amplitudes sum to {s[t]} at sample {t}'
    return None


def oracle_forms(ns, w, ov, forms):
    """C17 on the same values given in other numeric forms: windows are integer index pairs spanning [0, ns) with exact
    overlap, and the announced count equals the number produced (iteration capped)."""
    import itertools
    import operator
    from ibldsp.utils import WindowGenerator
    nexp = max(-(-(ns - w) // (w - ov)), 0) + 1
    try:
        wg = WindowGenerator(_FORMS[forms[0]](ns), _FORMS[forms[1]](w), _FORMS[forms[2]](ov))
        fl = list(itertools.islice(wg.firstlast, 4 * nexp + 8))
    except Exception as e:
        return f'WindowGenerator({forms[0]}({ns}), {forms[1]}({w}), {forms[2]}({ov})) raised {type(e).__name__}: {e}'
    try:
        flc = [(operator.index(a), operator.index(b)) for a, b in fl]
    except TypeError:
        return f'windows are not integers (cannot be used as slice bounds): {fl[:3]}'
    if not flc or flc[0][0] != 0 or flc[-1][1] != ns or len(flc) != nexp:
        return f'{len(flc)} windows {flc[:3]}…{flc[-1:]} do not span [0, {ns}) in {nexp} windows'
    if any(b - c != ov for (a, b), (c, d) in zip(flc[:-1], flc[1:])):
        return 'consecutive windows do not overlap by the requested amount'
    if int(wg.nwin) != len(flc):
        return f'announced nwin={wg.nwin} but {len(flc)} windows produced'
    return None


def search(ctx, reasons):
    cands = []
    for m in ctx.mismatches[:200]:
        c = m['case']
        if c.get('op') == 'forms':
            r = oracle_forms(c['ns'], c['nswin'], c['overlap'], c['forms'])
            if r:
                return {'input': {'ns': c['ns'], 'nswin': c['nswin'], 'overlap': c['overlap'], 'forms': c['forms']}, 'observed': r,
                        'expected': 'C17 on the same values in another numeric form of the arguments',
                        'how': 'harness/props/c17.py oracle_forms(ns, nswin, overlap, forms)'}
            continue
        cands.append((c['ns'], c['nswin'], c['overlap']))
    for ns in range(1, 61):
        for w in range(1, 17):
            for ov in range(0, w):
                cands.append((ns, w, ov))
    cands += _triples(ctx)[-2000:]
    best = None
    for (ns, w, ov) in cands:
        try:
            r = oracle(ns, w, ov)
        except Exception as e:
            r = f'raised {type(e).__name__}: {e}'
        if r and (best is None or (ns, w, ov) < best[0]):
            best = ((ns, w, ov), r)
            if ns <= 8:
                break
    if best:
        (ns, w, ov), r = best
        return {'input': {'ns': ns, 'nswin': w, 'overlap': ov}, 'observed': r,
                'expected': 'C17: cover without gaps, exact overlap, nwin = count, valid partition, splice sum 1, tscale centre',
                'how': 'python: from ibldsp.utils import WindowGenerator; harness/props/c17.py oracle(ns, nswin, overlap)'}
    return None


def replay(ctx, rep):
    i = rep['input']
    r = oracle_forms(i['ns'], i['nswin'], i['overlap'], i['forms']) if 'forms' in i else oracle(i['ns'], i['nswin'], i['overlap'])
    print('oracle:', r)
    return r is not None

LEVEL_TEXT = ('Lean 4 theorems for every (ns, nswin, overlap) with overlap < nswin: cover/no gaps, exact overlap, nwin = number of '
              'windows, valid sub-windows contain each sample exactly once, Hann splicing amplitudes sum to 1 for 2*overlap <= nswin, '
              'tscale = window centre; the model is tied to WindowGenerator by an exact differential run (exhaustive small box + random large triples)')
LEVEL_NOTE = ('trusted: Lean kernel + Mathlib (Real.cos_pi_sub), the Python correspondence harness, float64 evaluation of nwin (exact below 2^26), '
              'scipy hann = the closed form used in the theorem (compared numerically to 1e-12)')
TECHNIQUE = 'Lean 4 proof by functional induction over the generator loop (omega/grind) + Mathlib trig identity; exact correspondence run'
