"""
Runs the registered quick checks against every seeded change under /verif/seeded/<id>/ and prints the catch matrix.

For each seeded/<id>/ (patch.diff + meta.json with "property"): apply the patch to /repo (git apply), run
`./check <property> quick` (and any extra properties given in meta["also_run"]), record exit code and the VIOLATION
line, undo the patch (git checkout -- .).  Never commits anything in /repo.

By default the patch is applied in a scratch git worktree of /repo (removed afterwards) and the checks run with
IBL_REPO pointing at it, so that /repo itself is never disturbed (other runs may be using it); `--in-place` applies to
/repo itself exactly as a user would (git apply … ; checks ; git checkout -- .).

usage: /venv/bin/python harness/seeded_matrix.py [--in-place] [id ...]      (default: all)
"""
import os
import shutil
import tempfile
import json
import subprocess
import sys
from pathlib import Path

VERIF = Path(__file__).resolve().parents[1]
VERIF_RUN = [VERIF]
REPO = Path('/repo')


def sh(cmd, **kw):
    return subprocess.run(cmd, capture_output=True, text=True, **kw)


def main(ids):
    inplace = '--in-place' in ids
    kind = 'seeded'
    global VERIF
    if '--neutral' in ids:          # behaviour-preserving rewrites under /verif/neutral/<id>/: the checks must stay quiet
        kind = 'neutral'
    for a in list(ids):
        if a.startswith('--verif='):   # run the checks of another checkout of /verif (e.g. a snapshot) against the patches stored here
            VERIF_RUN[0] = Path(a.split('=', 1)[1])
    ids = [i for i in ids if not i.startswith('--')]
    seeded = VERIF / kind
    rows = []
    st = sh(['git', '-C', str(REPO), 'status', '--porcelain', '--untracked-files=no']).stdout.strip()
    if st and inplace:
        print('refusing to run: /repo has uncommitted changes:\n' + st)
        return 2
    scratch = Path(tempfile.mkdtemp(prefix='seedrun_out_'))
    (scratch / 'evidence').mkdir(); (scratch / 'replays').mkdir()
    redirect = {'VERIF_EVIDENCE_DIR': str(scratch / 'evidence'), 'VERIF_REPLAY_DIR': str(scratch / 'replays')}
    if inplace:
        target, env = REPO, dict(os.environ, **redirect)
    else:
        target = Path(tempfile.mkdtemp(prefix='seedrun_')) / 'repo'
        r = sh(['git', '-C', str(REPO), 'worktree', 'add', '--detach', str(target), 'HEAD'])
        assert r.returncode == 0, r.stderr
        env = dict(os.environ, IBL_REPO=str(target), **redirect)
    try:
        return _run(seeded, ids, target, env, rows)
    finally:
        shutil.rmtree(scratch, ignore_errors=True)
        # the runs above re-translated the tie sources from the PATCHED tree into lean/IblVerif/Generated: put back /repo's
        if not inplace:
            clean = {k: v for k, v in os.environ.items() if k != 'IBL_REPO'}
            clean['PYTHONPATH'] = str(VERIF_RUN[0] / 'harness')
            for p in sorted({r[1] for r in rows}):
                sh(['/venv/bin/python', str(VERIF_RUN[0] / 'harness' / 'ties.py'), p], cwd=str(VERIF_RUN[0]), env=clean)
        if not inplace:
            sh(['git', '-C', str(REPO), 'worktree', 'remove', '--force', str(target)])
            shutil.rmtree(target.parent, ignore_errors=True)


def _run(seeded, ids, REPO, env, rows):
    for d in sorted(p for p in seeded.iterdir() if p.is_dir()):
        if ids and d.name not in ids:
            continue
        meta = json.loads((d / 'meta.json').read_text())
        props = [meta['property']] + list(meta.get('also_run', []))
        ap = sh(['git', '-C', str(REPO), 'apply', str(d / 'patch.diff')])
        if ap.returncode != 0:
            rows.append((d.name, props[0], 'patch does not apply: ' + ap.stderr.strip()[:100]))
            continue
        try:
            for p in props:
                r = sh([str(VERIF_RUN[0] / 'check'), p, 'quick'], cwd=str(VERIF_RUN[0]), env=env)
                vio = [l for l in r.stdout.splitlines() if l.startswith('VIOLATION')]
                rows.append((d.name, p, f'exit={r.returncode} ' + (vio[0] if vio else r.stdout.strip().splitlines()[-1][:120] if r.stdout.strip() else r.stderr.strip()[-120:])))
                print('..', *rows[-1], flush=True)
                if vio:
                    rp = vio[0].split('replay=')[1].split()[0]
                    src = Path(rp) if os.path.isabs(rp) else VERIF_RUN[0] / rp
                    if src.exists():
                        (d / f'replay_{p}.json').write_text(src.read_text())
        finally:
            sh(['git', '-C', str(REPO), 'checkout', '--', '.'])
    w = max(len(r[0]) for r in rows) if rows else 10
    for name, p, res in rows:
        print(f'{name:<{w}}  {p}  {res}')
    return 0


if __name__ == '__main__':
    sys.exit(main(sys.argv[1:]))
