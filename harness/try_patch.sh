#!/bin/sh
# usage: harness/try_patch.sh <patch.diff> <Cxx> [tier]  — runs one check against a scratch worktree of /repo with the patch applied;
# evidence and replay go to /tmp/try_<Cxx>/ (never to the committed files); the worktree is removed afterwards
P=$(readlink -f "$1"); C=$2; T=${3:-quick}
W=$(mktemp -d /tmp/trywt_XXXX)/repo
git -C /repo worktree add --detach "$W" HEAD >/dev/null 2>&1 || exit 2
git -C "$W" apply "$P" || { echo "patch does not apply"; git -C /repo worktree remove --force "$W"; exit 2; }
O=/tmp/try_$C; rm -rf $O; mkdir -p $O/evidence $O/replays
cd /verif && IBL_REPO="$W" VERIF_EVIDENCE_DIR=$O/evidence VERIF_REPLAY_DIR=$O/replays ./check $C $T 2>&1 | grep -v "^KNOWN-FINDING\|WARNING conda" | tail -3
git -C /repo worktree remove --force "$W"; rm -rf "$(dirname "$W")"
