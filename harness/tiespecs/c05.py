"""C05 tie: integer / decision / event-order skeleton of ibldsp.voltage agc, kfilt, fk, destripe (see harness/ties.py for the item format).

Tests of the source that are not integer comparisons (`x is None`, `not lagc`, `gpu`) cannot become parameters in the translator's
subset; every combination of them that matters is its own item with the test fixed by `assume` (recorded in the evidence)."""

_KF_EVENTS = [
    # spelling of the call in the source -> (tag, integer arguments read off the call)
    [r'^(?:gp|np)\.copy\(x\)$', 'copy', []],
    [r'^agc\(x, wl=lagc, si=([^,()]*)(?:, gpu=gpu)?\)$', 'agc', [r'\1']],
    [r'^fourier\.fcn_cosine\(\[(.*), (.*)\](?:, gpu=gpu)?\)\((?:gp|np)\.arange\((.*)\)\)$', 'taper_up', [r'\1', r'\2', r'\3']],
    [r'^scipy\.signal\.sosfiltfilt\(sos, xf, axis=(.*)\)$', 'sosfiltfilt', [r'\1']],
    [r'^np\.real\(np\.fft\.ifft2\(fk_att \* np\.fft\.fft2\(xf\)\)\)$', 'fk_multiply', []],
]
# fk's argument checks (`assert vbounds` / a raise in a rewrite) and its btype dispatch are outside the stage skeleton: valid arguments assumed
_KF_BASE = {'collection is not None': False, 'gpu': False, 'butter_kwargs is None': False, 'not vbounds': False,
            r"btype\.lower\(\) in \['highpass', 'hp'\]": True}

_DS_EVENTS = [
    [r'^scipy\.signal\.sosfiltfilt\(sos, x\)$', 'temporal', []],
    [r"^fourier\.fshift\(x, (-?)h\['sample_shift'\], axis=(.*)\)$", 'fshift', [r'\g<1>1', r'\2']],
    [r"^interpolate_bad_channels\(x, channel_labels, h\['x'\], h\['y'\]\)$", 'interpolate', []],
    [r'^spatial_fcn\(x\[inside_brain, :\]\)$', 'spatial', ['1']],
    [r'^spatial_fcn\(x\)$', 'spatial', ['0']],
    [r'^spatial_fcn\(', 'spatial', ['2']],                      # any other argument: neither the whole array nor the inside rows
]
_LAB = 'channel_labels is not None and channel_labels is not False'


def _ds(name, realign, labels):
    return {'name': name, 'module': 'ibldsp/voltage.py', 'function': 'destripe', 'kind': 'events', 'events': _DS_EVENTS,
            'assume': {'neuropixel_version is not None': realign, _LAB: labels, 'h is None': False, 'channel_labels is True': False}}


# `ntr_pad = int(ntr_pad)` and `ntr_tap = ntr_pad if ntr_tap is None else ntr_tap` re-assign their own argument, which the translator
# cannot follow: in the stage items both names are `free`, i.e. they denote the values AFTER these two normalisation statements (the
# statements themselves are the items *_tap_none / *_tap_given / *_nxp).
_FREE = ['nx', 'nt', 'ntr_pad', 'ntr_tap', 'gp']


def _kf(name, fn, lagc_off):
    return {'name': name, 'module': 'ibldsp/voltage.py', 'function': fn, 'kind': 'events', 'events': _KF_EVENTS, 'free': _FREE,
            'assume': dict(_KF_BASE, **{'not lagc': lagc_off, 'ntr_tap is None': False}), 'params': ['nx', 'ntr_pad', 'ntr_tap', 'si']}


SPEC = {
    'items': [
        # agc: ns_win = int(np.round(wl / si / 2) * 2 + 1), wl and si read as fractions
        {'name': 'agc_ns_win', 'module': 'ibldsp/voltage.py', 'function': 'agc', 'kind': 'expr', 'target': 'ns_win',
         'fractions': {'wl': ['wl_num', 'wl_den'], 'si': ['si_num', 'si_den']}, 'params': ['wl_num', 'wl_den', 'si_num', 'si_den']},
        # kfilt / fk: padded size and taper length
        {'name': 'kfilt_nxp', 'module': 'ibldsp/voltage.py', 'function': 'kfilt', 'kind': 'expr', 'target': 'nxp', 'free': _FREE,
         'params': ['nx', 'ntr_pad']},
        {'name': 'kfilt_tap_none', 'module': 'ibldsp/voltage.py', 'function': 'kfilt', 'kind': 'expr', 'target': 'ntr_tap', 'free': _FREE,
         'assume': {'ntr_tap is None': True}, 'params': ['ntr_pad', 'ntr_tap']},
        {'name': 'kfilt_tap_given', 'module': 'ibldsp/voltage.py', 'function': 'kfilt', 'kind': 'expr', 'target': 'ntr_tap', 'free': _FREE,
         'assume': {'ntr_tap is None': False}, 'params': ['ntr_pad', 'ntr_tap']},
        {'name': 'fk_nxp', 'module': 'ibldsp/voltage.py', 'function': 'fk', 'kind': 'expr', 'target': 'nxp', 'free': _FREE,
         'params': ['nx', 'ntr_pad']},
        {'name': 'fk_tap_none', 'module': 'ibldsp/voltage.py', 'function': 'fk', 'kind': 'expr', 'target': 'ntr_tap', 'free': _FREE,
         'assume': {'ntr_tap is None': True}, 'params': ['ntr_pad', 'ntr_tap']},
        {'name': 'fk_tap_given', 'module': 'ibldsp/voltage.py', 'function': 'fk', 'kind': 'expr', 'target': 'ntr_tap', 'free': _FREE,
         'assume': {'ntr_tap is None': False}, 'params': ['ntr_pad', 'ntr_tap']},
        # kfilt without collection as a sequence of stages: copy | agc(si), taper (bounds, length) when ntr_tap > 0, the spatial filter (axis)
        _kf('kfilt_stages_agc', 'kfilt', False),
        _kf('kfilt_stages_noagc', 'kfilt', True),
        _kf('fk_stages_agc', 'fk', False),
        _kf('fk_stages_noagc', 'fk', True),
        # destripe: order of the stages, sign of the re-alignment, restriction of the spatial stage
        _ds('destripe_stages_realign_labels', True, True),
        _ds('destripe_stages_realign_nolabels', True, False),
        _ds('destripe_stages_noshift_labels', False, True),
        _ds('destripe_stages_noshift_nolabels', False, False),
    ],
    'theorems': ['IblVerif.Tie.C05.agc_ns_win_eq', 'IblVerif.Tie.C05.agc_ns_win_kfilt', 'IblVerif.Tie.C05.kfilt_nxp_eq', 'IblVerif.Tie.C05.fk_nxp_eq',
                 'IblVerif.Tie.C05.tap_eq', 'IblVerif.Tie.C05.kfilt_stages_eq', 'IblVerif.Tie.C05.fk_stages_eq', 'IblVerif.Tie.C05.destripe_stages_eq'],
    'covers': 'voltage.agc (window length for every rational wl / si), kfilt / fk without collection (nxp, ntr_tap default, copy-or-agc with its si, '
              'taper bounds and length, filter axis), destripe (order of temporal filter / fshift with the sign of sample_shift and its axis / '
              'interpolation / spatial stage on the inside rows or the whole array, for the four combinations of probe version and labels)',
}
