"""C10 tie: the array pipeline of spikeglx.split_sync as an ordered list of operations with their integer arguments, the
element-wise decisions and the index offset of ibldsp.utils.fronts / rises, the type decision table of
spikeglx._get_type_from_meta and the meta entries that give the number of digital / analog sync channels
(see harness/ties.py for the item format).

How the element-wise decisions are read: the regular expression of an event captures the comparison as it is written in the
source and hands it back to the translator inside `1 if (<comparison>) else 0`, with the array replaced by one of its
elements (`d` = one element of np.diff(x, axis), `x` = one sample).  The generated definition therefore carries the operator
and both operands of the source text; nothing of the comparison is frozen in this file."""

_WHERE_DIFF = r'^np\.array\(np\.where\((?:np\.diff\(x, axis=axis\)|d) (\S+) step\)\)$'

SPEC = {
    'items': [
        # ---- split_sync: int16 cast, byte view + unpackbits + reshape(size, 16), roll by 8 along axis 1, flip along axis 1
        {'name': 'split_sync_ops', 'module': 'spikeglx.py', 'function': 'split_sync', 'kind': 'events',
         'params': ['sync_tr_size'],
         'events': [
             [r'^np\.int16\(np\.copy\(sync_tr\)\)$', 'int16', []],
             [r'^np\.unpackbits\(sync_tr\.view\(np\.uint8\)\)\.reshape\((.+), (.+)\)$', 'unpack_u8_reshape', [r'\1', r'\2']],
             [r'^np\.flip\(np\.roll\(out, (.+), axis=(.+)\), axis=(.+)\)$', 'roll_flip', [r'\1', r'\2', r'\3']],
             [r'^np\.roll\(out, (.+), axis=(.+)\)$', 'roll', [r'\1', r'\2']],
             [r'^np\.flip\(out, axis=(.+)\)$', 'flip', [r'\1']],
             [r'.', 'other', []],
         ]},
        # ---- fronts: the element-wise decision |d| >= step and the index offset
        {'name': 'fronts_ops', 'module': 'ibldsp/utils.py', 'function': 'fronts', 'kind': 'events',
         'free': ['d', 'ind', 'sign'], 'params': ['d', 'step', 'len_ind'],
         'events': [
             [r'^np\.diff\(x, axis=axis\)$', 'diff', []],
             [r'^np\.array\(np\.where\(np\.abs\(d\) (\S+) step\)\)$', 'where', [r'1 if (abs(d) \1 step) else 0']],
             [r'.', 'other', []],
         ]},
        {'name': 'fronts_shift', 'module': 'ibldsp/utils.py', 'function': 'fronts', 'kind': 'expr', 'target': 'ind[axis]',
         'free': ['ind', 'axis'], 'params': ['ind_axis']},
        # ---- rises: digital mode (the decision d >= step), analog mode (x > step, then d >= 1), the index offset
        {'name': 'rises_ops_digital', 'module': 'ibldsp/utils.py', 'function': 'rises', 'kind': 'events',
         'assume': {'analog': False}, 'free': ['d', 'ind', 'step'], 'params': ['d', 'step', 'len_ind'],
         'events': [
             [_WHERE_DIFF, 'where', [r'1 if (d \1 step) else 0']],
             [r'.', 'other', []],
         ]},
        # (x_in, step_in: the values of the arguments `x`, `step` on entry; `step` itself is re-assigned to 1 afterwards)
        {'name': 'rises_ops_analog', 'module': 'ibldsp/utils.py', 'function': 'rises', 'kind': 'events',
         'assume': {'analog': True}, 'free': ['d', 'ind'], 'params': ['x_in', 'step_in', 'd', 'len_ind'],
         'events': [
             [r'^\(x (\S+) step\)\.astype\(np\.float64\)$', 'binarize', [r'1 if (x_in \1 step_in) else 0']],
             [_WHERE_DIFF, 'where', [r'1 if (d \1 step) else 0']],
             [r'.', 'other', []],
         ]},
        {'name': 'rises_shift', 'module': 'ibldsp/utils.py', 'function': 'rises', 'kind': 'expr', 'target': 'ind[axis]',
         'assume': {'analog': False}, 'free': ['ind', 'axis', 'step'], 'params': ['ind_axis']},
        # ---- _get_type_from_meta: decision table on snsApLfSy (an imec meta carries the key; a nidq meta does not)
        {'name': 'type_from_meta_imec', 'module': 'spikeglx.py', 'function': '_get_type_from_meta', 'kind': 'fn',
         'option_return': True, 'value': 'Option String', 'free': ['snsApLfSy'],
         'assume': {r"snsApLfSy == \[-1, -1, -1\] and .*": False}, 'params': ['snsApLfSy_0', 'snsApLfSy_1']},
        {'name': 'type_from_meta_nidq', 'module': 'spikeglx.py', 'function': '_get_type_from_meta', 'kind': 'fn',
         'option_return': True, 'value': 'Option String', 'free': ['snsApLfSy'],
         'assume': {r"snsApLfSy == \[-1, -1, -1\]": True, r"md\.get\('typeThis', None\) == 'nidq'": True},
         'params': ['snsApLfSy_0', 'snsApLfSy_1']},
        # ---- which meta entry is the number of sync words / of analog sync channels (the parameter NAME carries the index)
        {'name': 'nsync_nidq', 'module': 'spikeglx.py', 'function': '_get_sync_trace_indices_from_meta', 'kind': 'expr',
         'target': 'nsync', 'occurrence': 0},
        {'name': 'nsync_imec', 'module': 'spikeglx.py', 'function': '_get_sync_trace_indices_from_meta', 'kind': 'expr',
         'target': 'nsync', 'occurrence': 1},
        {'name': 'nanalog_nidq', 'module': 'spikeglx.py', 'function': '_get_analog_sync_trace_indices_from_meta', 'kind': 'expr',
         'target': 'nsa', 'free': ['tr']},
    ],
    'theorems': ['IblVerif.Tie.C10.split_sync_ops_eq', 'IblVerif.Tie.C10.split_sync_src_bit',
                 'IblVerif.Tie.C10.fronts_ops_eq', 'IblVerif.Tie.C10.rises_ops_digital_eq', 'IblVerif.Tie.C10.rises_ops_analog_eq',
                 'IblVerif.Tie.C10.shift_eq', 'IblVerif.Tie.C10.type_from_meta_imec_eq', 'IblVerif.Tie.C10.type_from_meta_nidq_eq',
                 'IblVerif.Tie.C10.sync_idx_nidq_eq', 'IblVerif.Tie.C10.sync_idx_imec_eq', 'IblVerif.Tie.C10.analog_idx_nidq_eq'],
    'covers': 'spikeglx.split_sync (the ordered array operations with their integer arguments: int16 cast, byte view + unpackbits + '
              'reshape(size, 16), roll by 8 and flip along axis 1, evaluated with their NumPy meaning = the model pipeline, hence '
              'line k = bit k); utils.fronts and utils.rises (element-wise decisions |d| >= step, d >= step, analog x > step then '
              'd >= 1; the index offset ind[axis] += 1); spikeglx._get_type_from_meta (decision table on snsApLfSy); which meta '
              'entry gives the number of sync words (nidq snsMnMaXaDw[-1], imec snsApLfSy[2]) and of analog sync channels '
              '(snsMnMaXaDw[-2]).  NOT covered (outside the translator: events in return statements / masked assignments): '
              'utils.falls (negation of x and step), the return expressions list(range(...)), Reader.read_sync (thresholding, '
              'percentile floor, column order of the concatenation)',
}
