"""Translator-tie items of C11 added in round h (appended to the three items of harness/ties.py: OnlineReader.ns, the duration
Reader.open writes, Reader.ns).

`Reader.open` is read as the SEQUENCE OF OBSERVABLE STEPS it performs (kind 'events'), once per combination of its non-integer
tests, which the translator cannot read and which are therefore fixed per item by an assumption (recorded below):
`self.is_mtscomp` (.cbin or not), `self.meta is not None` (a .meta file or a flat reader), `self.ignore_warnings`, and, in the
mtscomp branch, the tuple comparison `self._raw.shape != (self.ns, self.nc)`.  What IS read from the source for every item:
the integer mismatch test `nc * ns * itemsize != nbytes`, which steps happen under which test and in which order (the warning,
the rewrite of `fileTimeSecs`, the memory map with shape `(self.ns, self.nc)`), and — through the event patterns — that the
warning of the uncompressed branch does not subscript `self.meta[...]` (keys that a recording in progress does not have; a
`self.meta['fileSizeBytes']` there raises KeyError), that what is stored is the variable `ftsec`, and that the map is requested
with the shape `(self.ns, self.nc)` (or `self.shape`).
"""

_OPEN_EVENTS = [
    [r'^mtscomp\.Reader\(\)$', 'mtscomp', []],
    [r'^self\._raw\.open\(self\.file_bin,', 'chopen', []],
    # a warning whose text subscripts the meta data (KeyError when the key is absent) is a different event from one that
    # only uses .get(): the uncompressed branch must be of the second kind (fileSizeBytes / fileTimeSecs may be absent)
    [r'^_logger\.warning\((?=.*self\.meta\[)', 'warn_subscript', []],
    [r'^_logger\.warning\(', 'warn', []],
    [r"^self\.meta\[['\"]fileTimeSecs['\"]\] = ftsec$", 'setfts', [], 'stmt'],
    [r'^np\.memmap\(.*shape=(\(self\.ns, self\.nc\)|self\.shape)\)$', 'memmap', ['self.nc']],
]
_OPEN_PARAMS = ['self_nc', 'self_ns', 'self_dtype_itemsize', 'self_nbytes']
_SHAPE_TEST = r'self\._raw\.shape != \(self\.ns, self\.nc\)'


def _open(name, assume):
    return {'name': name, 'module': 'spikeglx.py', 'function': 'Reader.open', 'kind': 'events', 'assume': assume,
            'events': _OPEN_EVENTS, 'params': _OPEN_PARAMS}


SPEC = {
    'items': [
        _open('open_bin_meta_warn', {r'self\.is_mtscomp': False, r'self\.meta is not None': True, r'self\.ignore_warnings': False}),
        _open('open_bin_meta_quiet', {r'self\.is_mtscomp': False, r'self\.meta is not None': True, r'self\.ignore_warnings': True}),
        _open('open_bin_flat', {r'self\.is_mtscomp': False, r'self\.meta is not None': False, r'self\.ignore_warnings': False}),
        _open('open_cbin_mismatch_warn', {r'self\.is_mtscomp': True, _SHAPE_TEST: True, r'self\.ignore_warnings': False}),
        _open('open_cbin_mismatch_quiet', {r'self\.is_mtscomp': True, _SHAPE_TEST: True, r'self\.ignore_warnings': True}),
        _open('open_cbin_match', {r'self\.is_mtscomp': True, _SHAPE_TEST: False, r'self\.ignore_warnings': False}),
        # the duration the mtscomp branch stores: shape[0] of the compressed stream over the META rate (a fraction)
        {'name': 'cbin_ftsec', 'module': 'spikeglx.py', 'function': 'Reader.open', 'kind': 'expr', 'target': 'ftsec',
         'occurrence': 0, 'fraction': True, 'value': 'Int × Int', 'fractions': {'self_fs': ['fs_num', 'fs_den']},
         'params': ['self__raw_shape_0', 'fs_num', 'fs_den']},
        {'name': 'reader_shape', 'module': 'spikeglx.py', 'function': 'Reader.shape', 'kind': 'fn', 'value': 'Int × Int',
         'params': ['self_ns', 'self_nc']},
    ],
    'theorems': ['IblVerif.Tie.C11.open_bin_steps_eq', 'IblVerif.Tie.C11.open_flat_steps_eq', 'IblVerif.Tie.C11.open_cbin_steps_eq',
                 'IblVerif.Tie.C11.cbin_ftsec_eq', 'IblVerif.Tie.C11.ns_after_cbin_open_eq', 'IblVerif.Tie.C11.shape_eq'],
    'covers': 'Reader.open as the sequence of its observable steps for every combination of (mtscomp, meta present, '
              'ignore_warnings, shape mismatch): the integer mismatch test nc*ns*itemsize != nbytes, the fileTimeSecs rewrite '
              '(exactly under the mismatch, independent of ignore_warnings, never for a flat reader), the warning (only when '
              'not ignored; without subscripting self.meta in the uncompressed branch), the memory map of shape (ns, nc) last; '
              'the duration the mtscomp branch stores (shape[0] over the META rate) and Reader.ns on it = shape[0]; Reader.shape',
}
