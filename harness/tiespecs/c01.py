"""C01 tie: the integer / decision skeleton behind `Reader.read`'s gain vector and channel order, as the source text says it NOW
(see harness/ties.py for the item format).

What `Reader.read` does to the data is array code (`self._raw[nsel, :].astype(np.float32)[..., csel]`, `darray *= s2v[csel]`) and
type dispatch (`isinstance(item, tuple)`).  The array statements are tied as whole-statement events (their text is matched by a
regular expression, the variables they read are captured); what they COMPUTE stays with the hand model + the bit-exact
correspondence run, and so does the dispatch of `__getitem__` / `read_samples` (values of `return` statements that are calls are
outside the translator's subset).  Translated besides is everything integer the read depends on:

  * `_get_type_from_meta`             the band decision: the KEY under which `read` looks up its volts-per-bit vector
  * `_get_sync_trace_indices_from_meta` which meta entry is the number of sync words (imec: snsApLfSy[2], nidq: snsMnMaXaDw[-1]);
                                      the parameter NAME of the generated definition carries the index, the tie theorems use named
                                      arguments, so `[2]` -> `[1]` no longer elaborates
  * `_get_nchannels_from_meta`        `nc` = nSavedChans
  * `geometry_from_meta`              `th["ind"]` and the `sort=False` index, element by element (`np.arange`)
  * `Reader.__init__`                 the statements that set up the channel order: geometry_from_meta(self.meta,
                                      return_index=True, sort=sort) (the `sort` argument forwarded), np.arange(self.nc), the prefix
                                      assignment raw_channel_order[:order.size] = order
  * `Reader.read`                     its three array statements as whole-statement events, in order, each with the VARIABLES it
                                      reads: the permuted `csel` is the index of BOTH the column gather and the gain gather
  * `geometry_from_meta`              its ordering statements: ind = arange, sort keys (the signs of col / row / shank are captured
                                      as integers), lexsort, re-indexing of every vector; arange when sort is off
  * module-level `read`               forwards (first_sample, last_sample) unchanged to `Reader.read_samples`
"""

SPEC = {
    'items': [
        {'name': 'type_from_meta', 'module': 'spikeglx.py', 'function': '_get_type_from_meta', 'kind': 'fn',
         'option_return': True, 'value': 'Option String', 'free': ['snsApLfSy'],
         'assume': {r"snsApLfSy == \[-1, -1, -1\] and .*": False, r"snsApLfSy == \[-1, -1, -1\]": False},
         'params': ['snsApLfSy_0', 'snsApLfSy_1']},
        {'name': 'nsync_nidq', 'module': 'spikeglx.py', 'function': '_get_sync_trace_indices_from_meta', 'kind': 'expr',
         'target': 'nsync', 'occurrence': 0},
        {'name': 'nsync_imec', 'module': 'spikeglx.py', 'function': '_get_sync_trace_indices_from_meta', 'kind': 'expr',
         'target': 'nsync', 'occurrence': 1},
        {'name': 'nchannels', 'module': 'spikeglx.py', 'function': '_get_nchannels_from_meta', 'kind': 'fn'},
        {'name': 'geom_ind', 'module': 'spikeglx.py', 'function': 'geometry_from_meta', 'kind': 'expr', 'target': "th['ind']",
         'elementwise': True, 'free': ['th'], 'params': ['i']},
        {'name': 'geom_inds_unsorted', 'module': 'spikeglx.py', 'function': 'geometry_from_meta', 'kind': 'expr', 'target': 'inds',
         'occurrence': -1, 'elementwise': True, 'free': ['th'], 'params': ['i']},
        {'name': 'init_order_calls', 'module': 'spikeglx.py', 'function': 'Reader.__init__', 'kind': 'events',
         'assume': {r'not meta_file\.exists\(\)': False, r'meta_file == sglx_file': False, r'self\.geometry is not None': True,
                    r'open and self\.file_bin': False},
         'params': ['self_nc'],
         'events': [
             [r'^self\.geometry, order = geometry_from_meta\(self\.meta, return_index=True, sort=sort\)$',
              'geometry, order = geometry_from_meta(meta, sort=sort)', [], 'stmt'],
             [r'geometry_from_meta\(', 'geometry_from_meta: other call', [], 'stmt'],
             [r'^self\.raw_channel_order = np\.arange\((.+)\)$', 'raw_channel_order = arange', [r'\1'], 'stmt'],
             [r'^self\.raw_channel_order\[:order\.size\] = order$', 'raw_channel_order[:order.size] = order', [], 'stmt'],
             [r'raw_channel_order', 'raw_channel_order: other statement', [], 'stmt'],
         ]},
        # the array statements of Reader.read, in order, with the variables each one reads (whole-statement events; any other
        # assignment / augmented assignment / expression statement of the function shows up as 'other statement')
        {'name': 'read_statements', 'module': 'spikeglx.py', 'function': 'Reader.read', 'kind': 'events',
         'assume': {r'not self\.is_open': False, r"hasattr\(self, 'raw_channel_order'\)": True, 'sync': False},
         'free': ['csel', 'darray'], 'params': ['nsel', 'csel'],
         'events': [
             [r'^(\w+) = self\.raw_channel_order\[(\w+)\]$', 'csel = raw_channel_order[csel]', [r'\1', r'\2'], 'stmt'],
             [r'^darray = self\._raw\[(\w+), :\]\.astype\(np\.float32, copy=True\)\[\.\.\., (\w+)\]$',
              'darray = raw[nsel, :].astype(float32)[..., csel]', [r'\1', r'\2'], 'stmt'],
             [r'^darray \*= self\.channel_conversion_sample2v\[self\.type\]\[(\w+)\]$', 'darray *= s2v[type][csel]', [r'\1'], 'stmt'],
             [r'.', 'other statement', [], 'stmt'],
         ]},
        {'name': 'geom_sort_statements', 'module': 'spikeglx.py', 'function': 'geometry_from_meta', 'kind': 'events',
         'assume': {r'cm is None or .*': False, r"'x' in cm\.keys\(\)": False, 'sort': True, 'return_index': True,
                    'major_version == 1': False},
         'free': ['th', 'cm'],
         'events': [
             [r"^th\['ind'\] = np\.arange\(th\['col'\]\.size\)$", 'ind = arange(n)', [], 'stmt'],
             [r"^sort_keys = np\.c_\[(-?)th\['col'\], (-?)th\['row'\], (-?)th\['shank'\]\]$", 'keys = (±col, ±row, ±shank)',
              [r'\g<1>1', r'\g<2>1', r'\g<3>1'], 'stmt'],
             [r"^inds = np\.lexsort\(sort_keys\.T\)$", 'inds = lexsort(keys), last key first', [], 'stmt'],
             [r"^th = \{k: v\[inds\] for k, v in th\.items\(\)\}$", 'every vector reindexed by inds', [], 'stmt'],
             [r"^inds = np\.arange\(th\['col'\]\.size\)$", 'inds = arange(n)', [], 'stmt'],
             [r"sort_keys|inds|th\['ind'\]", 'other ordering statement', [], 'stmt'],
         ]},
        {'name': 'geom_nosort_statements', 'module': 'spikeglx.py', 'function': 'geometry_from_meta', 'kind': 'events',
         'assume': {r'cm is None or .*': False, r"'x' in cm\.keys\(\)": False, 'sort': False, 'return_index': True,
                    'major_version == 1': False},
         'free': ['th', 'cm'],
         'events': [
             [r"^th\['ind'\] = np\.arange\(th\['col'\]\.size\)$", 'ind = arange(n)', [], 'stmt'],
             [r"^sort_keys = np\.c_\[(-?)th\['col'\], (-?)th\['row'\], (-?)th\['shank'\]\]$", 'keys = (±col, ±row, ±shank)',
              [r'\g<1>1', r'\g<2>1', r'\g<3>1'], 'stmt'],
             [r"^inds = np\.lexsort\(sort_keys\.T\)$", 'inds = lexsort(keys), last key first', [], 'stmt'],
             [r"^th = \{k: v\[inds\] for k, v in th\.items\(\)\}$", 'every vector reindexed by inds', [], 'stmt'],
             [r"^inds = np\.arange\(th\['col'\]\.size\)$", 'inds = arange(n)', [], 'stmt'],
             [r"sort_keys|inds|th\['ind'\]", 'other ordering statement', [], 'stmt'],
         ]},
        {'name': 'module_read', 'module': 'spikeglx.py', 'function': 'read', 'kind': 'events',
         'params': ['first_sample', 'last_sample'],
         'events': [
             [r'^sglxr\.read_samples\(first_sample=(.+), last_sample=(.+)\)$', 'read_samples', [r'\1', r'\2']],
             [r'^sglxr\.read_samples\(([^=,]+), ([^=,]+)\)$', 'read_samples', [r'\1', r'\2']],
             [r'^sglxr\.read', 'other_read', []],
         ]},
    ],
    'theorems': ['IblVerif.Tie.C01.type_from_meta_eq', 'IblVerif.Tie.C01.nsync_entry_eq', 'IblVerif.Tie.C01.nchannels_eq',
                 'IblVerif.Tie.C01.unsorted_index_eq', 'IblVerif.Tie.C01.init_order_calls_eq', 'IblVerif.Tie.C01.module_read_eq',
                 'IblVerif.Tie.C01.read_statements_eq', 'IblVerif.Tie.C01.geom_order_statements_eq',
                 'IblVerif.Tie.C01.s2v_np1_from_source', 'IblVerif.Tie.C01.s2v_np2_from_source'],
    'covers': '_get_type_from_meta (band = key of the volts-per-bit vector), _get_sync_trace_indices_from_meta (meta entry that '
              'counts the sync words), _get_nchannels_from_meta, geometry_from_meta (ind / unsorted index; ordering statements with '
              'the key signs), Reader.__init__ (statements that set up raw_channel_order, sort forwarded), Reader.read (its three '
              'array statements and the variables they read), module-level read (first/last forwarded)',
}
