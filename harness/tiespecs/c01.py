"""C01 tie: the integer / decision skeleton behind `Reader.read`'s gain vector and channel order, as the source text says it NOW
(see harness/ties.py for the item format).

What `Reader.read` does to the data is array code (`self._raw[nsel, :].astype(np.float32)[..., csel]`, `darray *= s2v[csel]`) and
type dispatch (`isinstance(item, tuple)`), which the translator's subset (integer expressions, comparisons, calls named as events
in expression / assignment statements) cannot express; that part stays with the hand model + the bit-exact correspondence run.
Translated instead is everything integer the read depends on:

  * `_get_type_from_meta`             the band decision: the KEY under which `read` looks up its volts-per-bit vector
  * `_get_sync_trace_indices_from_meta` which meta entry is the number of sync words (imec: snsApLfSy[2], nidq: snsMnMaXaDw[-1]);
                                      the parameter NAME of the generated definition carries the index, the tie theorems use named
                                      arguments, so `[2]` -> `[1]` no longer elaborates
  * `_get_nchannels_from_meta`        `nc` = nSavedChans
  * `geometry_from_meta`              `th["ind"]` and the `sort=False` index, element by element (`np.arange`)
  * `Reader.__init__`                 the calls that set up the channel order: geometry_from_meta(self.meta, return_index=True,
                                      sort=sort) (the `sort` argument forwarded), then np.arange(self.nc)
  * module-level `read`               forwards (first_sample, last_sample) unchanged to `Reader.read_samples`
"""

SPEC = {
    'items': [
        {'name': 'type_from_meta', 'module': 'spikeglx.py', 'function': '_get_type_from_meta', 'kind': 'fn',
         'option_return': True, 'value': 'Option String', 'free': ['snsApLfSy'],
         'assume': {r"snsApLfSy == \[-1, -1, -1\] and .*": False, r"snsApLfSy == \[-1, -1, -1\]": False},
         'params': ['snsApLfSy_0', 'snsApLfSy_1']},
        {'name': 'nsync_nidq', 'module': 'spikeglx.py', 'function': '_get_sync_trace_indices_from_meta', 'kind': 'expr',
         'target': 'nsync', 'occurrence': 0},
        {'name': 'nsync_imec', 'module': 'spikeglx.py', 'function': '_get_sync_trace_indices_from_meta', 'kind': 'expr',
         'target': 'nsync', 'occurrence': 1},
        {'name': 'nchannels', 'module': 'spikeglx.py', 'function': '_get_nchannels_from_meta', 'kind': 'fn'},
        {'name': 'geom_ind', 'module': 'spikeglx.py', 'function': 'geometry_from_meta', 'kind': 'expr', 'target': "th['ind']",
         'elementwise': True, 'free': ['th'], 'params': ['i']},
        {'name': 'geom_inds_unsorted', 'module': 'spikeglx.py', 'function': 'geometry_from_meta', 'kind': 'expr', 'target': 'inds',
         'occurrence': -1, 'elementwise': True, 'free': ['th'], 'params': ['i']},
        {'name': 'init_order_calls', 'module': 'spikeglx.py', 'function': 'Reader.__init__', 'kind': 'events',
         'assume': {r'not meta_file\.exists\(\)': False, r'meta_file == sglx_file': False, r'self\.geometry is not None': True,
                    r'open and self\.file_bin': False},
         'params': ['self_nc'],
         'events': [
             [r'^geometry_from_meta\(self\.meta, return_index=True, sort=sort\)$', 'geometry_sort_forwarded', []],
             [r'^geometry_from_meta\(', 'geometry_other', []],
             [r'^np\.arange\((.+)\)$', 'arange', [r'\1']],
         ]},
        {'name': 'module_read', 'module': 'spikeglx.py', 'function': 'read', 'kind': 'events',
         'params': ['first_sample', 'last_sample'],
         'events': [
             [r'^sglxr\.read_samples\(first_sample=(.+), last_sample=(.+)\)$', 'read_samples', [r'\1', r'\2']],
             [r'^sglxr\.read_samples\(([^=,]+), ([^=,]+)\)$', 'read_samples', [r'\1', r'\2']],
             [r'^sglxr\.read', 'other_read', []],
         ]},
    ],
    'theorems': ['IblVerif.Tie.C01.type_from_meta_eq', 'IblVerif.Tie.C01.nsync_entry_eq', 'IblVerif.Tie.C01.nchannels_eq',
                 'IblVerif.Tie.C01.unsorted_index_eq', 'IblVerif.Tie.C01.init_order_calls_eq', 'IblVerif.Tie.C01.module_read_eq',
                 'IblVerif.Tie.C01.s2v_np1_from_source', 'IblVerif.Tie.C01.s2v_np2_from_source'],
    'covers': '_get_type_from_meta (band = key of the volts-per-bit vector), _get_sync_trace_indices_from_meta (meta entry that '
              'counts the sync words), _get_nchannels_from_meta, geometry_from_meta (ind / unsorted index), Reader.__init__ (calls '
              'that set up raw_channel_order, sort forwarded), module-level read (first/last forwarded)',
}
