"""C07 tie: the integer / decision / event-order skeleton of fourier.fshift, utils.parabolic_max, waveforms.wave_shift_corrmax and
waveforms.shift_waveform (see harness/ties.py for the item format).

fshift is translated as the ordered list of its observable stages (kind 'events'): where the unit impulse is written
(`np.put(dephas, 1, 1)`: flat position, value), which arrays are transformed along which axis and in which order, whether the
per-trace shift vector is reshaped, and the length / axis passed to the inverse transform - once per decision path
(real input x scalar shift, real input x per-trace shifts, complex input).  The two shape assignments `shape[axis] = ns` and
`s_shape[axis] = 1` are translated as expressions.  parabolic_max is translated as events whose arguments are regular-expression
captures of the index / matrix / edge-test expressions (the three clipped positions of either branch, twice the 0.5
scale factor, the nine matrix entries, the operands of the two edge tests).  wave_shift_corrmax: the expression that turns the
interpolated peak position into a shift (zero lag of a mode='same' correlation at floor(n / 2), sign).  shift_waveform: the
loop over the spikes of the cluster (one delay estimate and one fshift of the spike's own traces per spike, in order).
"""
_FS = 'ibldsp/fourier.py'
_FSHIFT_EVENTS = [
    [r'^np\.put\(dephas, (.*), (.*)\)$', 'put', [r'\1', r'\2']],
    [r'^scipy\.fft\.rfft\(dephas, axis=(.*)\)$', 'rfft_impulse', [r'\1']],
    [r'^scipy\.fft\.rfft\(w, axis=(.*)\)$', 'rfft_data', [r'\1']],
    [r'^s\.reshape\(s_shape\)$', 'reshape', []],
    [r'scipy\.fft\.irfft\(W, (.*), axis=(.*)\)\)$', 'irfft', [r'\1', r'\2']],
]
_ROW = r'x\[\.\.\., np\.arange\(x\.shape\[0\]\), (.*?)\]'
_PMAX_EVENTS = [
    [r'^np\.argmax\(x, axis=(.*)\)$', 'argmax', [r'\1']],
    [r'^np\.vstack\(\(' + _ROW + ', ' + _ROW + ', ' + _ROW + r'\)\)$', 'rows', [r'\1', r'\2', r'\3']],
    # 1-D branch: the three positions sit in the subscript of an assignment (matched on the whole statement)
    [r'^v010 = x\[np\.maximum\(np\.minimum\(imax \+ np\.array\(\[(.*), (.*), (.*)\]\), (.*)\), (.*)\)\]$', 'rows',
     [r'max(min(imax + (\1), \4), \5)', r'max(min(imax + (\2), \4), \5)', r'max(min(imax + (\3), \4), \5)'], 'stmt'],
    [r'^np\.matmul\((.*) \* np\.array\(\[\[(.*), (.*), (.*)\], \[(.*), (.*), (.*)\], \[(.*), (.*), (.*)\]\]\), v010\)$', 'poly',
     [r'int(2 * (\1))'] + [f'\\{k}' for k in range(2, 11)]],
    [r'^np\.logical_or\((.*) == (.*), (.*) == (.*)\)$', 'edges', [r'\1', r'\2', r'\3', r'\4']],
]

SPEC = {
    'items': [
        {'name': 'fshift_scalar', 'module': _FS, 'function': 'fshift', 'kind': 'events', 'events': _FSHIFT_EVENTS,
         'assume': {'do_fft': True, r'not np\.isscalar\(s\)': False}, 'params': ['axis', 'ns']},
        {'name': 'fshift_pertrace', 'module': _FS, 'function': 'fshift', 'kind': 'events', 'events': _FSHIFT_EVENTS,
         'assume': {'do_fft': True, r'not np\.isscalar\(s\)': True}, 'params': ['axis', 'ns']},
        {'name': 'fshift_freq', 'module': _FS, 'function': 'fshift', 'kind': 'events', 'events': _FSHIFT_EVENTS, 'free': ['W'],
         'assume': {'do_fft': False, r'not np\.isscalar\(s\)': False}, 'params': ['axis', 'ns']},
        {'name': 'fshift_impulse_len', 'module': _FS, 'function': 'fshift', 'kind': 'expr', 'target': 'shape[axis]', 'params': ['ns']},
        {'name': 'fshift_sshape_axis', 'module': _FS, 'function': 'fshift', 'kind': 'expr', 'target': 's_shape[axis]'},
        {'name': 'pmax_2d', 'module': 'ibldsp/utils.py', 'function': 'parabolic_max', 'kind': 'events', 'events': _PMAX_EVENTS,
         'assume': {r'x\.ndim == 1': False}, 'free': ['imax'], 'params': ['imax', 'x_shape_m1']},
        {'name': 'pmax_1d', 'module': 'ibldsp/utils.py', 'function': 'parabolic_max', 'kind': 'events', 'events': _PMAX_EVENTS,
         'assume': {r'x\.ndim == 1': True}, 'free': ['imax'], 'params': ['imax', 'x_shape_m1']},
        {'name': 'corrmax_shift', 'module': 'ibldsp/waveforms.py', 'function': 'wave_shift_corrmax', 'kind': 'expr',
         'target': 'shift_computed', 'free': ['ipeak'], 'params': ['ipeak', 'spike_shape_0']},
        {'name': 'shift_waveform_loop', 'module': 'ibldsp/waveforms.py', 'function': 'shift_waveform', 'kind': 'events', 'free': ['df'],
         'events': [[r'^wave_shift_corrmax\(spike_raw, spike_template\)$', 'corrmax', []],
                    [r'^fshift\(wf_cluster\[(.*), :, :\], shift_computed\)$', 'fshift', [r'\1']]],
         'params': ['wf_cluster_shape_0']},
    ],
    'theorems': ['IblVerif.Tie.C07.fshift_scalar_eq', 'IblVerif.Tie.C07.fshift_pertrace_eq', 'IblVerif.Tie.C07.fshift_freq_eq',
                 'IblVerif.Tie.C07.fshift_impulse_len_eq', 'IblVerif.Tie.C07.fshift_sshape_axis_eq',
                 'IblVerif.Tie.C07.pmax_2d_eq', 'IblVerif.Tie.C07.pmax_1d_eq', 'IblVerif.Tie.C07.corrmax_shift_eq',
                 'IblVerif.Tie.C07.shift_waveform_loop_eq'],
    'covers': 'fourier.fshift: ordered stages on the three decision paths (impulse position and value, transform axes, reshape of '
              'per-trace shifts, length and axis of the inverse transform), extents shape[axis] / s_shape[axis]; utils.parabolic_max: '
              'argmax axis, the three clipped positions of the 1-D and of the 2-D branch, scale factor and matrix, edge tests; '
              'waveforms.wave_shift_corrmax: peak position -> shift (zero lag floor(n/2), sign); waveforms.shift_waveform: loop over spikes',
}
