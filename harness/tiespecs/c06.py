"""C06 tie, second part: how decompress_destripe_cbin prepares its three output files (truncate vs keep + offsets)."""
_EV = [
    [r"^open\(ap_rms_file, 'wb'\)\.close\(\)$", 'truncate_rms', []],
    [r"^open\(ap_time_file, 'wb'\)\.close\(\)$", 'truncate_time', []],
    [r"^open\(output_file, 'wb'\)\.close\(\)$", 'truncate_out', []],
    [r"^CHUNK_SIZE = ", 'offsets', ['offset', 'rms_offset', 'time_offset'], 'stmt'],     # marker: the values the workers will use
]
_OPAQUE = {r"Path\(output_file\)\.stat\(\)\.st_size": 'out_size', r"Path\(ap_rms_file\)\.stat\(\)\.st_size": 'rms_size',
           r"Path\(ap_time_file\)\.stat\(\)\.st_size": 'time_size'}


def _item(name, append):
    return {'name': name, 'module': 'ibldsp/voltage.py', 'function': 'decompress_destripe_cbin', 'kind': 'events',
            'assume': {'compute_rms': True, 'append': append}, 'opaque': _OPAQUE, 'events': _EV, 'until': r'^def my_function',
            'params': ['out_size', 'rms_size', 'time_size']}


SPEC = {
    'items': [_item('destripe_setup_fresh', False), _item('destripe_setup_append', True)],
    'theorems': ['IblVerif.Tie.C06.setup_fresh_eq', 'IblVerif.Tie.C06.setup_append_eq'],
    'covers': 'decompress_destripe_cbin: preparation of the output / RMS / time files (non-append: all three truncated, offsets 0; '
              'append: nothing truncated, offsets = the sizes already on disk)',
}
