"""C16 tie (see harness/ties.py for the item format).

`voltage.saturation` is seven lines of array arithmetic: it has no integer expression the translator could read as a
formula, so its skeleton is taken as an EVENT SEQUENCE — the NumPy / SciPy calls it performs, in order, each matched on its
unparsed text with the integer parameters captured (comparison operators, operand order and keyword spellings are part of the
pattern; the factor 0.98 is read as parts per million, the axes / clip constants as integers, the scalar arguments as opaque
parameters so that WHERE each one is used is recorded).  A call that no longer matches drops out of the sequence, so any
change of an operator, an axis, the factor, the window argument, the convolution mode or the clipping breaks the tie theorem
(never an alarm by itself: the correspondence is escalated and decides).

`decompress_destripe_cbin.my_function` is read as the sequence of `saturation(data=chunk, max_voltage=_sr.range_volts[:ncv],
fs=_sr.fs)` calls with the batch bounds `[first_s, last_s)` at each call: the batches that `batched_eq_whole` /
`destripe_batched_eq_whole` (Properties/C16.lean) are about.

`Reader.range_volts` (full-scale voltage = sample2volts * maxint; `maxint` declared free: it is the value of
`_get_max_int_from_meta`) and the NP2 branch of `_get_max_int_from_meta` (assumptions fix the two string tests) are
translated as values.  The other two branches, `int(md.get("imMaxInt", <default>))`, are outside the translator's subset
(two-argument dict.get) and are tied by the correspondence run only.
"""
SPEC = {
    'items': [
        {'name': 'saturation_steps', 'module': 'ibldsp/voltage.py', 'function': 'saturation', 'kind': 'events',
         'params': ['v_per_sec', 'fs', 'proportion', 'mute_window_samples'],
         'events': [
             [r'^np\.mean\(np\.abs\(data\) > max_voltage \* ([0-9][0-9.]*), axis=(-?\d+)\)$', 'over', [r'int(\1 * 1000000)', r'\2']],
             [r'^np\.mean\(np\.abs\(np\.diff\(data, axis=(-?\d+)\)\) / (\w+) >= (\w+), axis=(-?\d+)\)$', 'slew', [r'\1', r'\2', r'\3', r'\4']],
             [r'^np\.logical_or\(\w+ > (\w+), \w+ > (\w+)\)$', 'or', [r'\1', r'\2']],
             [r'^scipy\.signal\.windows\.cosine\((\w+)\)$', 'cosine', [r'\1']],
             [r"^np\.maximum\((\d+), (\d+) - scipy\.signal\.convolve\(\w+, \w+, mode='same'\)\)$", 'mute', [r'\1', r'\2']],
         ]},
        {'name': 'saturation_calls', 'module': 'ibldsp/voltage.py', 'function': 'decompress_destripe_cbin.my_function', 'kind': 'events',
         'assume': {'compute_rms': True},
         'params': ['i_chunk', 'n_chunk', 'CHUNK_SIZE', 'NBATCH', 'SAMPLES_TAPER', '_sr_ns'],
         'events': [
             [r'^saturation\(data=chunk, max_voltage=_sr\.range_volts\[:ncv\], fs=_sr\.fs\)$', 'sat', ['first_s', 'last_s']],
         ]},
        {'name': 'destripe_chunk_size', 'module': 'ibldsp/voltage.py', 'function': 'decompress_destripe_cbin', 'kind': 'expr',
         'target': 'CHUNK_SIZE', 'params': ['sr_ns', 'nprocesses']},
        {'name': 'range_volts', 'module': 'spikeglx.py', 'function': 'Reader.range_volts', 'kind': 'fn', 'free': ['maxint'],
         'assume': {r'not self\.meta': False}, 'params': ['self_sample2volts', 'maxint']},
        {'name': 'max_int_np2', 'module': 'spikeglx.py', 'function': '_get_max_int_from_meta', 'kind': 'fn',
         'assume': {r"md\.get\('typeThis', None\) == 'imec'": True, r"'NP2' in neuropixel_version": True},
         'params': ['md_imMaxInt']},
    ],
    'theorems': ['IblVerif.Tie.C16.saturation_steps_eq', 'IblVerif.Tie.C16.factor_eq_generated',
                 'IblVerif.Tie.C16.saturation_calls_eq', 'IblVerif.Tie.C16.single_worker_calls_eq', 'IblVerif.Tie.C16.chunk_size_eq',
                 'IblVerif.Tie.C16.range_volts_eq', 'IblVerif.Tie.C16.max_int_np2_eq'],
    'covers': 'voltage.saturation as the sequence of its array-level calls (strict > against 0.98 x range averaged over the channel '
              'axis; >= on |diff along the sample axis| / fs against v_per_sec; OR of two strict comparisons with the same proportion; '
              'cosine(mute_window_samples); max(0, 1 - convolve(mode=same))); the batches [first_s, last_s) on which '
              'decompress_destripe_cbin.my_function calls saturation with max_voltage=range_volts (start batch, stride NBATCH - 2 TAPER, '
              'clipping at ns, stop rule; every worker); Reader.range_volts = sample2volts * maxint; the NP2 '
              'branch of _get_max_int_from_meta',
}
