"""C19 tie: the integer / decision / event-order skeleton of utils.sync_timestamps that the shared translator can read
(see harness/ties.py for the item format).  Times are read as integers in one common unit (e.g. microseconds); `ab[0]`, the slope
polyfit returns, as an integer in units of 1e-6 / u (the theorems quantify over the unit)."""
SPEC = {
    'items': [
        # threshold = tbin : the window of the first assignment pass is exactly one bin
        {'name': 'sync_threshold', 'module': 'ibldsp/utils.py', 'function': 'sync_timestamps', 'kind': 'expr', 'target': 'threshold',
         'params': ['tbin']},
        # drift_ppm = ab[0] * 1e6
        {'name': 'interp_drift_ppm', 'module': 'ibldsp/utils.py', 'function': 'sync_timestamps._interp_fcn', 'kind': 'expr',
         'target': 'drift_ppm', 'free': ['ab'], 'params': ['ab_0']},
        # the external calls _interp_fcn makes, in order, per mode: polyfit of degree <d> always; interp1d(fill_value="extrapolate")
        # only in interpolating mode
        {'name': 'interp_calls_linear', 'module': 'ibldsp/utils.py', 'function': 'sync_timestamps._interp_fcn', 'kind': 'events',
         'free': ['ab'], 'assume': {'linear': True},
         'events': [[r'^np\.polyfit\(.*,\s*(\d+)\)$', 'polyfit', [r'\1']],
                    [r'''interp1d\(.*fill_value=['"]extrapolate['"]''', 'interp1d_extrapolate', []],
                    [r'interp1d\(', 'interp1d', []]]},
        {'name': 'interp_calls_interp', 'module': 'ibldsp/utils.py', 'function': 'sync_timestamps._interp_fcn', 'kind': 'events',
         'free': ['ab'], 'assume': {'linear': False},
         'events': [[r'^np\.polyfit\(.*,\s*(\d+)\)$', 'polyfit', [r'\1']],
                    [r'''interp1d\(.*fill_value=['"]extrapolate['"]''', 'interp1d_extrapolate', []],
                    [r'interp1d\(', 'interp1d', []]]},
    ],
    'theorems': ['IblVerif.Tie.C19.threshold_eq', 'IblVerif.Tie.C19.drift_ppm_eq', 'IblVerif.Tie.C19.interp_calls_linear_eq',
                 'IblVerif.Tie.C19.interp_calls_interp_eq'],
    'covers': 'sync_timestamps: threshold of the first pass (= tbin); _interp_fcn: drift_ppm formula, external calls per mode',
}
