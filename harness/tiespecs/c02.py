"""C02 tie: the ORDER OF FILE-SYSTEM CALLS of Reader.compress_file / decompress_file / decompress_to_scratch, re-read from the
source text on every run as event sequences (format: see harness/ties.py / pyfn2lean.py), one item per value of the Boolean
parameters (`keep_original`, `scratch_dir is None`, `bin_file.exists()` are fixed by `assume`; `"out" not in kwargs` becomes the
integer flag `kwargs_has_out`).

An event is a call statement (or an assignment whose right-hand side is a call) matched by a regular expression on its
unparsed text; path-valued local variables are declared `free` and travel as opaque integers, so an event records WHICH
variable it acts on (`("rename", [file_tmp, file_out])`) and the binding events record from which suffix literal a variable
was made (`("tmp_name", [])` = `… = self.file_bin.with_suffix('.cbin_tmp')`).  Not expressible in the translator's subset
(see the report): the assertion on `is_mtscomp`, the re-pointing `self.file_bin = …` (an assignment of a name), and which
variable a binding event binds.
"""

_COMPRESS_EVENTS = [
    [r"^self\.file_bin\.with_suffix\('\.cbin_tmp'\)$", 'tmp_name', []],          # file_tmp = self.file_bin.with_suffix(".cbin_tmp")
    [r"^(\w+)\.with_suffix\('\.cbin'\)$", 'out_name', [r'\1']],                  # file_out = file_tmp.with_suffix(".cbin")
    [r"^mtscomp\.compress\(self\.file_bin, out=(\w+), outmeta=self\.file_bin\.with_suffix\('\.ch'\), ", 'compress', [r'\1']],
    [r"^(\w+)\.(?:rename|replace)\((\w+)\)$", 'rename', [r'\1', r'\2']],                 # file_tmp.rename(file_out)
    [r"^(?:os\.rename|os\.replace|shutil\.move)\((\w+), (\w+)\)$", 'rename', [r'\1', r'\2']],   # (equivalent spellings)
    [r"^self\.file_bin\.unlink\(\)$", 'unlink_src', []],
]

_DECOMPRESS_EVENTS = [
    [r"^self\.file_bin\.with_suffix\('\.bin'\)$", 'default_out', []],            # kwargs["out"] = self.file_bin.with_suffix(".bin")
    [r"^mtscomp\.decompress\(self\.file_bin, self\.file_bin\.with_suffix\('\.ch'\), \*\*kwargs\)$", 'decompress', []],
    [r"^(\w+)\.close\(\)$", 'close', [r'\1']],                                   # r.close()  /  self.close()
    [r"^self\.file_bin\.unlink\(\)$", 'unlink_src', []],
    [r"^self\.file_bin\.with_suffix\('\.ch'\)\.unlink\(\)$", 'unlink_ch', []],
]

_SCRATCH_EVENTS = [
    [r"^Path\(self\.file_bin\)\.with_suffix\('\.bin'\)$", 'target_beside', []],
    [r"^scratch_dir\.mkdir\(exist_ok=True, parents=True\)$", 'mkdir', []],
    [r"^Path\(scratch_dir\)\.joinpath\(self\.file_bin\.name\)\.with_suffix\('\.bin'\)$", 'target_scratch', []],
    [r"^shutil\.copy\(self\.file_meta_data, (\w+)\.with_suffix\('\.meta'\)\)$", 'copy_meta', [r'\1']],
    [r"^self\.decompress_file\(keep_original=True, out=(\w+)\.with_suffix\('\.bin_temp'\), check_after_decompress=False, overwrite=True\)$",
     'decompress_to_temp', [r'\1']],
    [r"^(?:shutil\.move|os\.rename|os\.replace)\((\w+)\.with_suffix\('\.bin_temp'\), (\w+)\)$", 'move_temp', [r'\1', r'\2']],
    [r"^(\w+)\.with_suffix\('\.bin_temp'\)\.(?:rename|replace)\((\w+)\)$", 'move_temp', [r'\1', r'\2']],    # (equivalent spelling)
]


def _item(name, function, events, assume, free, params):
    return {'name': name, 'module': 'spikeglx.py', 'function': function, 'kind': 'events', 'events': events,
            'assume': assume, 'free': free, 'params': params}


SPEC = {
    'items': [
        _item('compress_keep', 'Reader.compress_file', _COMPRESS_EVENTS, {'keep_original': True},
              ['file_tmp', 'file_out'], ['file_tmp', 'file_out']),
        _item('compress_inplace', 'Reader.compress_file', _COMPRESS_EVENTS, {'keep_original': False},
              ['file_tmp', 'file_out'], ['file_tmp', 'file_out']),
        _item('decompress_keep', 'Reader.decompress_file', _DECOMPRESS_EVENTS, {'keep_original': True},
              ['r', 'self_file_bin'], ['kwargs_has_out', 'r', 'self']),
        _item('decompress_inplace', 'Reader.decompress_file', _DECOMPRESS_EVENTS, {'keep_original': False},
              ['r', 'self_file_bin'], ['kwargs_has_out', 'r', 'self']),
        _item('scratch_beside_absent', 'Reader.decompress_to_scratch', _SCRATCH_EVENTS,
              {r'scratch_dir is None': True, r'bin_file\.exists\(\)': False}, ['bin_file', 't0'], ['bin_file']),
        _item('scratch_beside_present', 'Reader.decompress_to_scratch', _SCRATCH_EVENTS,
              {r'scratch_dir is None': True, r'bin_file\.exists\(\)': True}, ['bin_file', 't0'], ['bin_file']),
        _item('scratch_dir_absent', 'Reader.decompress_to_scratch', _SCRATCH_EVENTS,
              {r'scratch_dir is None': False, r'bin_file\.exists\(\)': False}, ['bin_file', 't0'], ['bin_file']),
        _item('scratch_dir_present', 'Reader.decompress_to_scratch', _SCRATCH_EVENTS,
              {r'scratch_dir is None': False, r'bin_file\.exists\(\)': True}, ['bin_file', 't0'], ['bin_file']),
    ],
    'theorems': ['IblVerif.Tie.C02.compress_calls_eq', 'IblVerif.Tie.C02.decompress_calls_eq', 'IblVerif.Tie.C02.scratch_calls_eq',
                 'IblVerif.Tie.C02.enc_faithful'],
    'covers': 'Reader.compress_file, decompress_file, decompress_to_scratch: the sequence of file-system calls (compress to the '
              'temporary name, rename, unlink of the source; decompress, close, unlink .cbin, unlink .ch; mkdir, copy meta, '
              'existence test, decompress to the temporary name, move) for every value of keep_original / scratch_dir is None / '
              'bin_file.exists() / "out" in kwargs',
}
