"""C18 tie, second part: the bin-count / index expressions of fourier.freduce, fexpand and fscale (see harness/ties.py for the format)."""
SPEC = {
    'items': [
        {'name': 'freduce_size', 'module': 'ibldsp/fourier.py', 'function': 'freduce', 'kind': 'expr', 'target': 'siz[axis]',
         'free': ['siz', 'axis'], 'assume': {'axis is None': False}, 'params': ['siz_axis']},
        {'name': 'fexpand_ilast', 'module': 'ibldsp/fourier.py', 'function': 'fexpand', 'kind': 'expr', 'target': 'ilast', 'free': ['axis'], 'assume': {'axis is None': False}, 'params': ['ns']},
        {'name': 'fscale_count', 'module': 'ibldsp/fourier.py', 'function': 'fscale', 'kind': 'subexpr',
         'pattern': r'np\.floor\(ns / 2\) \+ 1', 'params': ['ns']},
        {'name': 'fscale_start', 'module': 'ibldsp/fourier.py', 'function': 'fscale', 'kind': 'subexpr',
         'pattern': r'-2 \+ ns % 2', 'params': ['ns']},
    ],
    'theorems': ['IblVerif.Tie.C18.freduce_size_eq', 'IblVerif.Tie.C18.fexpand_ilast_eq', 'IblVerif.Tie.C18.fscale_count_eq',
                 'IblVerif.Tie.C18.fscale_start_eq'],
    'covers': 'fourier.freduce (number of kept bins), fourier.fexpand (index of the last mirrored bin), fourier.fscale (number of non-negative bins, start of the mirrored negative part)',
}
