"""C13 tie, second part: the validity mask of _make_wfs_table (which spikes have a full window inside the recording), element-wise."""
SPEC = {
    'items': [
        {'name': 'wfs_allowed', 'module': 'ibldsp/waveform_extraction.py', 'function': '_make_wfs_table', 'kind': 'expr',
         'target': 'allowed_idx', 'predicate': True, 'value': 'Bool', 'elementwise': True,
         'params': ['spike_samples', 'trough_offset', 'sr_ns', 'spike_length_samples']},
    ],
    'theorems': ['IblVerif.Tie.C13.allowed_eq'],
    'covers': '_make_wfs_table: the mask of spikes whose extraction window lies inside the recording',
}
