"""C13 tie, second part (see harness/ties.py for the item format).

_make_wfs_table : the validity mask (element-wise), the number of spikes drawn per unit, the padding value of the index table
extract_wfs_cbin: the chunk bounds as the sequence of array operations that builds them (np.arange / + chunksize / [-1] = ns),
                  the bounds handed to np.searchsorted and to each job, the template slice end
make_channel_index: the within-radius comparison (element-wise), the default pad value, the row-assignment loop
"""
_WE = 'ibldsp/waveform_extraction.py'

# extract_wfs_cbin as the sequence of the statements that decide WHICH samples / table rows go to WHICH job
_CBIN_EVENTS = [
    [r'^s0_arr = np\.arange\((.*), (.*), (.*)\)$', 'arange', [r'\1', r'\2', r'\3'], 'stmt'],
    [r'^s1_arr = s0_arr \+ (.*)$', 'ends', [r'\1'], 'stmt'],
    [r'^s1_arr\[-1\] = (.*)$', 'setlast', [r'\1'], 'stmt'],
    # slices = [slice(*np.searchsorted(wf_flat['sample'], [lo, hi]).astype(int)) for i in range(n)]
    [r"^slices = \[slice\(\*np\.searchsorted\(wf_flat\['sample'\], \[(.*), (.*)\]\)(?:\.astype\(int\))?\) for i in range\((.*)\)\]$",
     'slices', [r'\1', r'\2', r'\3'], 'stmt'],
    # Parallel(...)(delayed(write_wfs_chunk)(i, bin_file, wfs, h, labels, neighbors, wf_flat.iloc[slices[i]], (lo, hi), cs, off, len, ...) for i in range(n))
    [r"^_ = Parallel\(n_jobs=n_jobs\)\(\(delayed\(write_wfs_chunk\)\(i, bin_file, wfs, h, channel_labels, channel_neighbors, "
     r"wf_flat\.iloc\[slices\[i\]\], \((.*), (.*)\), (.*), (.*), (.*), reader_kwargs, preprocess_steps\) for i in range\((.*)\)\)\)$",
     'jobs', [r'\1', r'\2', r'\3', r'\4', r'\5', r'\6'], 'stmt'],
]

SPEC = {
    'items': [
        {'name': 'wfs_allowed', 'module': _WE, 'function': '_make_wfs_table', 'kind': 'expr',
         'target': 'allowed_idx', 'predicate': True, 'value': 'Bool', 'elementwise': True,
         'params': ['spike_samples', 'trough_offset', 'sr_ns', 'spike_length_samples']},
        {'name': 'wfs_count', 'module': _WE, 'function': '_make_wfs_table', 'kind': 'subexpr',
         'pattern': r'min\(max_wf, nspikes\)', 'params': ['max_wf', 'nspikes']},
        {'name': 'wfs_pad', 'module': _WE, 'function': '_make_wfs_table', 'kind': 'expr', 'target': 'unit_wf_idx', 'occurrence': 0,
         'opaque': {r'np\.zeros\(\(nu, max_wf\), (int|np\.int64)\)': 'zeros'}, 'params': ['zeros']},
        {'name': 'cbin_chunks', 'module': _WE, 'function': 'extract_wfs_cbin', 'kind': 'events', 'until': r'^templates_fn = ',
         'free': ['s0_arr', 's1_arr', 'i'],
         'assume': {r"'car' in preprocess_steps and 'kfilt' in preprocess_steps": False, 'h is None': False, r'sr\.is_mtscomp': False},
         'events': _CBIN_EVENTS,
         'params': ['sr_ns', 'chunksize_samples', 'trough_offset', 'spike_length_samples', 's0_arr_i', 's1_arr_i', 's0_arr_shape_0']},
        {'name': 'cbin_template_stop', 'module': _WE, 'function': 'extract_wfs_cbin', 'kind': 'subexpr',
         'pattern': r'rec\.last_index \+ 1', 'params': ['rec_last_index']},
        {'name': 'chidx_within', 'module': 'ibldsp/utils.py', 'function': 'make_channel_index', 'kind': 'expr', 'target': 'neighbors',
         'predicate': True, 'value': 'Bool', 'elementwise': True,
         'opaque': {r'scipy\.spatial\.distance\.squareform\(scipy\.spatial\.distance\.pdist\(geom\)\)': 'dist'},
         'params': ['dist', 'radius']},
        {'name': 'chidx_pad', 'module': 'ibldsp/utils.py', 'function': 'make_channel_index', 'kind': 'expr', 'target': 'pad_val',
         'params': ['geom_shape_0']},
        {'name': 'chidx_rows', 'module': 'ibldsp/utils.py', 'function': 'make_channel_index', 'kind': 'events',
         'assume': {'pad_val is None': True},
         'events': [[r'^channel_idx\[c, :(.*)\] = ch_idx$', 'row', ['c', r'\1'], 'stmt']],
         'params': ['geom_shape_0', 'ch_idx_shape_0']},
    ],
    'theorems': ['IblVerif.Tie.C13.allowed_eq', 'IblVerif.Tie.C13.count_eq', 'IblVerif.Tie.C13.pad_eq',
                 'IblVerif.Tie.C13.chunk_bounds_eq', 'IblVerif.Tie.C13.chunk_events_eq', 'IblVerif.Tie.C13.template_stop_eq',
                 'IblVerif.Tie.C13.within_eq', 'IblVerif.Tie.C13.chidx_pad_eq', 'IblVerif.Tie.C13.chidx_rows_eq'],
    'covers': '_make_wfs_table: the mask of spikes whose extraction window lies inside the recording, min(max_wf, nspikes), the padding '
              'value -1 of the index table; extract_wfs_cbin: the chunk bounds (np.arange(0, ns, cs), + cs, last end = ns) under their NumPy '
              'meaning = chunkStarts / chunkEnd of the model, the same bounds handed to np.searchsorted and to job i, the end of the '
              'template slice; make_channel_index: the comparison <= radius, the default pad value, one row assignment per channel in order',
}
