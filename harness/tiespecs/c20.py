"""C20 tie: the integer expressions of the anchored denoising / smoothing / counting functions, re-translated from the current
source on every run (see harness/ties.py for the item format, lean/IblVerif/Tie/C20.lean for the theorems).

What is NOT translatable with the current translator subset (and is therefore covered by the correspondence run only):
  * slice bounds that only occur inside a subscript of a `return` (rolling_window's `y[round(wl/2 - 1): round(-(wl/2))]`,
    lp's `ts_[lpad:-lpad]`, the reflected padding `x[wl-1:0:-1]`),
  * loops written `range(a, b, 1)` (every loop of non_uniform_savgol), `for ch in tqdm.tqdm(range(n))` (_spikes_venn),
    `for firstx in np.arange(nwinx) * step` (cadzow_np1), `for col in np.unique(collection)` (svd_denoise_npx),
  * `rank = rank or nc // 4` (a name that is not an argument default idiom of the translator: `x = x or d` is read as "given"),
    and the keyword argument `rank=int(rank * ind.size / nc)` of a call inside such a loop.
"""
SPEC = {
    'items': [
        # smooth.lp: lpad = int(np.ceil(ts.shape[0] * pad)); `pad` is a fraction pad_num / pad_den
        {'name': 'lp_lpad', 'module': 'ibldsp/smooth.py', 'function': 'lp', 'kind': 'expr', 'target': 'lpad',
         'fractions': {'pad': ['pad_num', 'pad_den']}, 'params': ['ts_shape_0', 'pad_num', 'pad_den']},
        # smooth.non_uniform_savgol: half_window = window // 2
        {'name': 'savgol_half', 'module': 'ibldsp/smooth.py', 'function': 'non_uniform_savgol', 'kind': 'expr',
         'target': 'half_window', 'params': ['window']},
        # cadzow.traj_matrix_indices: the shape of the one-dimensional trajectory index matrix
        {'name': 'traj_nrows', 'module': 'ibldsp/cadzow.py', 'function': 'traj_matrix_indices', 'kind': 'expr', 'target': 'nrows',
         'params': ['n']},
        {'name': 'traj_ncols', 'module': 'ibldsp/cadzow.py', 'function': 'traj_matrix_indices', 'kind': 'expr', 'target': 'ncols',
         'params': ['n']},
        # cadzow.denoise: imax = np.minimum(WAV.shape[-1], imax) if imax else WAV.shape[-1]   (both readings of the truth test)
        {'name': 'denoise_imax_given', 'module': 'ibldsp/cadzow.py', 'function': 'denoise', 'kind': 'expr', 'target': 'imax',
         'free': ['imax'], 'assume': {'imax': True}, 'params': ['WAV_shape_m1', 'imax']},
        {'name': 'denoise_imax_none', 'module': 'ibldsp/cadzow.py', 'function': 'denoise', 'kind': 'expr', 'target': 'imax',
         'free': ['imax'], 'assume': {'imax': False}, 'params': ['WAV_shape_m1', 'imax']},
        # cadzow.cadzow_np1: number of channel windows and the end of a window
        {'name': 'np1_nwinx', 'module': 'ibldsp/cadzow.py', 'function': 'cadzow_np1', 'kind': 'expr', 'target': 'nwinx',
         'free': ['ntr', 'ns'], 'params': ['ntr', 'npad', 'ovx', 'nswx']},
        {'name': 'np1_lastx', 'module': 'ibldsp/cadzow.py', 'function': 'cadzow_np1', 'kind': 'expr', 'target': 'lastx',
         'free': ['ntr', 'ns', 'firstx'], 'params': ['firstx', 'nswx']},
        # spiketrains._spikes_venn: default bin size, number of chunks, start of chunk `ch`
        {'name': 'venn_default_sbin', 'module': 'ibldsp/spiketrains.py', 'function': '_spikes_venn', 'kind': 'expr',
         'target': 'samples_binsize', 'free': ['samples_binsize'], 'params': ['fs']},
        {'name': 'venn_num_chunks', 'module': 'ibldsp/spiketrains.py', 'function': '_spikes_venn', 'kind': 'expr',
         'target': 'num_chunks', 'free': ['chunk_size', 'samples_binsize', 'max_samples'], 'params': ['max_samples', 'chunk_size']},
        {'name': 'venn_offset', 'module': 'ibldsp/spiketrains.py', 'function': '_spikes_venn', 'kind': 'expr',
         'target': 'sample_offset', 'free': ['chunk_size', 'samples_binsize', 'max_samples', 'ch'], 'params': ['ch', 'chunk_size']},
    ],
    'theorems': [
        'IblVerif.Tie.C20.lp_lpad_eq', 'IblVerif.Tie.C20.savgol_half_eq',
        'IblVerif.Tie.C20.traj_nrows_eq', 'IblVerif.Tie.C20.traj_ncols_eq',
        'IblVerif.Tie.C20.denoise_imax_given_eq', 'IblVerif.Tie.C20.denoise_imax_none_eq',
        'IblVerif.Tie.C20.np1_nwinx_eq', 'IblVerif.Tie.C20.np1_lastx_eq',
        'IblVerif.Tie.C20.venn_default_sbin_eq', 'IblVerif.Tie.C20.venn_num_chunks_eq', 'IblVerif.Tie.C20.venn_offset_eq',
    ],
    'covers': 'smooth.lp (lpad), non_uniform_savgol (half window), cadzow.traj_matrix_indices (nrows, ncols), cadzow.denoise (imax), '
              'cadzow.cadzow_np1 (number of channel windows, window end), spiketrains._spikes_venn (default bin size, number of chunks, '
              'chunk offset)',
}
