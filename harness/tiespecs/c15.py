"""C15 tie: the integer / decision skeleton of the bad-channel detection that the translator can express (see harness/ties.py
for the item format).  `interpolate_bad_channels` (array arithmetic inside `for i in bad_channels`), the label stores
`ichannels[idx] = k` and the `np.linspace` loop of `detect_bad_channels_cbin` are outside the translator's subset: their tie is
the correspondence run of harness/props/c15.py alone."""
SPEC = {
    'items': [
        # detect_bad_channels, "make recommendation": the label vector has nc entries; the label-3 rule is entered exactly when
        # `ioutside.size > 0 and ioutside[-1] == (nc - 1)`; the two literals of np.cumsum(np.r_[0, np.diff(ioutside) - 1])
        {'name': 'detect_events', 'module': 'ibldsp/voltage.py', 'function': 'detect_bad_channels', 'kind': 'events',
         'free': ['ioutside', 'nc'], 'params': ['nc', 'ioutside_size', 'ioutside_m1'],
         'events': [
             [r'^np\.zeros\((.*)\)$', 'init', [r'\1']],
             [r'^np\.cumsum\(np\.r_\[(.*), np\.diff\(ioutside\) - (.*)\]\)$', 'gaps', [r'\1', r'\2']],
         ]},
        # detect_bad_channels.detrend: number of edge samples replicated on each side before the median filter
        {'name': 'detrend_ntap', 'module': 'ibldsp/voltage.py', 'function': 'detect_bad_channels.detrend', 'kind': 'expr',
         'target': 'ntap', 'params': ['nmed']},
        # detect_bad_channels_cbin: the analysed channels are the non-sync channels
        {'name': 'cbin_nc', 'module': 'ibldsp/voltage.py', 'function': 'detect_bad_channels_cbin', 'kind': 'expr',
         'target': 'nc', 'params': ['sr_nc', 'sr_nsync']},
    ],
    'theorems': ['IblVerif.Tie.C15.detect_events_eq', 'IblVerif.Tie.C15.detrend_ntap_eq', 'IblVerif.Tie.C15.detrend_ntap_covers',
                 'IblVerif.Tie.C15.cbin_nc_eq'],
    'covers': 'detect_bad_channels: size of the label vector, the guard of the outside-brain rule (non-empty low-coherence set whose '
              'last index is nc - 1) and the literals of the gap count; detect_bad_channels.detrend: edge padding length; '
              'detect_bad_channels_cbin: analysed channel count',
}
