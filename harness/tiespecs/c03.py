"""C03 tie, second part: one iteration of NP2Converter._writemetadata_ap as the sequence of metadata assignments."""
_EV = [
    [r"^meta_shank\['acqApLfSy'\]\[0\] = (.*)$", 'acq0', [r'\1'], 'stmt'],
    [r"^meta_shank\['snsApLfSy'\]\[0\] = (.*)$", 'sns0', [r'\1'], 'stmt'],
    [r"^meta_shank\['nSavedChans'\] = (.*)$", 'nsaved', [r'\1'], 'stmt'],
    [r"^meta_shank\['fileSizeBytes'\] = (.*)$", 'size', [r'\1'], 'stmt'],
    [r"^meta_shank\['snsSaveChanSubset_orig'\] = spikeglx\._get_savedChans_subset\(self\.shank_info\[sh\]\['chns'\]\)$", 'subset_orig', [], 'stmt'],
    [r"^meta_shank\['snsSaveChanSubset'\] = f'0:\{(.*)\}'$", 'subset_to', [r'\1'], 'stmt'],
    [r"^meta_shank\['original_meta'\] = False$", 'not_original', [], 'stmt'],
    [r"^meta_shank\[f'\{self\.np_version\}_shank'\] = (.*)$", 'shank', [r'\1'], 'stmt'],
]
_OPAQUE = {r"len\(self\.shank_info\[sh\]\['chns'\]\)": 'n_chns_len',
           r"self\.shank_info\[sh\]\['ap_file'\]\.stat\(\)\.st_size": 'ap_size',
           r"int\(sh\[-1\]\)": 'shank_no'}

_EV_R = [
    [r"^meta_shank\['acqApLfSy'\]\[0\] = (.*)$", 'acq0', [r'\1'], 'stmt'],
    [r"^meta_shank\['snsApLfSy'\]\[0\] = (.*)$", 'sns0', [r'\1'], 'stmt'],
    [r"^meta_shank\['nSavedChans'\] = (.*)$", 'nsaved', [r'\1'], 'stmt'],
    [r"^meta_shank\['fileSizeBytes'\] = (.*)$", 'size', [r'\1'], 'stmt'],
    [r"^meta_shank\['snsSaveChanSubset'\] = f'0:\{(.*)\}'$", 'subset_to', [r'\1'], 'stmt'],
    [r"^meta_shank\.pop\(f'\{self\.np_version\}_shank'\)$", 'pop_shank', []],
    [r"^meta_shank\.pop\('snsSaveChanSubset_orig'\)$", 'pop_orig', []],
]

SPEC = {
    'items': [{'name': 'ap_meta', 'module': 'neuropixel.py', 'function': 'NP2Converter._writemetadata_ap', 'kind': 'events',
               'loop_body': True, 'opaque': _OPAQUE, 'events': _EV, 'params': ['n_chns_len', 'ap_size', 'shank_no']},
              {'name': 'recon_meta', 'module': 'neuropixel.py', 'function': 'NP2Reconstructor.write_metadata', 'kind': 'events',
               'assume': {r'meta_file\.exists\(\)': False}, 'opaque': {r'self\.save_file\.stat\(\)\.st_size': 'save_size'},
               'events': _EV_R, 'params': ['self_nch', 'save_size']}],
    'theorems': ['IblVerif.Tie.C03.ap_meta_eq', 'IblVerif.Tie.C03.recon_meta_eq'],
    'covers': "NP2Converter._writemetadata_ap: the metadata keys one shank's AP header gets (each from that shank's own channel list / file); NP2Reconstructor.write_metadata (keys rewritten / removed for the re-assembled file)",
}
