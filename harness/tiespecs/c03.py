"""C03 tie, second part: one iteration of NP2Converter._writemetadata_ap as the sequence of metadata assignments."""
_EV = [
    [r"^meta_shank\['acqApLfSy'\]\[0\] = (.*)$", 'acq0', [r'\1'], 'stmt'],
    [r"^meta_shank\['snsApLfSy'\]\[0\] = (.*)$", 'sns0', [r'\1'], 'stmt'],
    [r"^meta_shank\['nSavedChans'\] = (.*)$", 'nsaved', [r'\1'], 'stmt'],
    [r"^meta_shank\['fileSizeBytes'\] = (.*)$", 'size', [r'\1'], 'stmt'],
    [r"^meta_shank\['snsSaveChanSubset_orig'\] = spikeglx\._get_savedChans_subset\(self\.shank_info\[sh\]\['chns'\]\)$", 'subset_orig', [], 'stmt'],
    [r"^meta_shank\['snsSaveChanSubset'\] = f'0:\{(.*)\}'$", 'subset_to', [r'\1'], 'stmt'],
    [r"^meta_shank\['original_meta'\] = False$", 'not_original', [], 'stmt'],
    [r"^meta_shank\[f'\{self\.np_version\}_shank'\] = (.*)$", 'shank', [r'\1'], 'stmt'],
]
_OPAQUE = {r"len\(self\.shank_info\[sh\]\['chns'\]\)": 'n_chns_len',
           r"self\.shank_info\[sh\]\['ap_file'\]\.stat\(\)\.st_size": 'ap_size',
           r"int\(sh\[-1\]\)": 'shank_no'}

_EV_R = [
    [r"^meta_shank\['acqApLfSy'\]\[0\] = (.*)$", 'acq0', [r'\1'], 'stmt'],
    [r"^meta_shank\['snsApLfSy'\]\[0\] = (.*)$", 'sns0', [r'\1'], 'stmt'],
    [r"^meta_shank\['nSavedChans'\] = (.*)$", 'nsaved', [r'\1'], 'stmt'],
    [r"^meta_shank\['fileSizeBytes'\] = (.*)$", 'size', [r'\1'], 'stmt'],
    [r"^meta_shank\['snsSaveChanSubset'\] = f'0:\{(.*)\}'$", 'subset_to', [r'\1'], 'stmt'],
    [r"^meta_shank\.pop\(f'\{self\.np_version\}_shank'\)$", 'pop_shank', []],
    [r"^meta_shank\.pop\('snsSaveChanSubset_orig'\)$", 'pop_orig', []],
]

SPEC = {
    'items': [{'name': 'ap_meta', 'module': 'neuropixel.py', 'function': 'NP2Converter._writemetadata_ap', 'kind': 'events',
               'loop_body': True, 'opaque': _OPAQUE, 'events': _EV, 'params': ['n_chns_len', 'ap_size', 'shank_no']},
              {'name': 'recon_meta', 'module': 'neuropixel.py', 'function': 'NP2Reconstructor.write_metadata', 'kind': 'events',
               'assume': {r'meta_file\.exists\(\)': False}, 'opaque': {r'self\.save_file\.stat\(\)\.st_size': 'save_size'},
               'events': _EV_R, 'params': ['self_nch', 'save_size']}],
    'theorems': ['IblVerif.Tie.C03.ap_meta_eq', 'IblVerif.Tie.C03.recon_meta_eq'],
    'covers': "NP2Converter._writemetadata_ap: the metadata keys one shank's AP header gets (each from that shank's own channel list / file); NP2Reconstructor.write_metadata (keys rewritten / removed for the re-assembled file)",
}


# ---------------------------------------------------------------------------------------------------------------------
# round h, second part: channel list / folder of one shank (_prepare_files_NP24), the window loop of _process_NP24 (what is
# read, which rows are kept, what is appended, per window), NP2Reconstructor.process / get_params, the `+ 1` of _get_chans
# ---------------------------------------------------------------------------------------------------------------------
_EV_PREP = [
    [r"^_shank_info\['chns'\] = np\.r_\[np\.where\(chn_info\['shank'\] == (\w+)\)\[0\], "
     r"np\.array\(spikeglx\._get_sync_trace_indices_from_meta\(self\.sr\.meta\)\)\]$", 'chns_where_then_sync', [r'\1'], 'stmt'],
    [r"^probe_path = self\.ap_file\.parent\.parent\.joinpath\(label \+ chr\((.*)\) \+ self\.extra\)$", 'folder_chr', [r'\1'], 'stmt'],
    [r"^probe_path\.mkdir\(.*\)$", 'mkdir', []],
    [r"^_shank_info\['ap_open_file'\] = open\(_shank_info\['ap_file'\], 'wb'\)$", 'open_ap', [], 'stmt'],
    [r"^_shank_info\['lf_open_file'\] = open\(_shank_info\['lf_file'\], 'wb'\)$", 'open_lf', [], 'stmt'],
    [r"^shank_info\[f'shank\{(\w+)\}'\] = _shank_info$", 'register', [r'\1'], 'stmt'],
]
_ET = r"(?:etype=)?'%s'"
_EV_P24 = [
    [r"^WindowGenerator\((.*), (.*), (.*)\)$", 'wg', [r'\1', r'\2', r'\3']],
    [r"^chunk_ap = self\.sr\[(\w+):(\w+), :(.*)\]\.T$", 'read_ap', [r'\1', r'\2', r'\3'], 'stmt'],
    [r"^chunk_ap_sync = self\.sr\[(\w+):(\w+), (.*):\]\.T$", 'read_sync', [r'\1', r'\2', r'\3'], 'stmt'],
    [r"^self\._ind2save\(chunk_ap, chunk_ap_sync, wg, (?:ratio=)?(.*), " + _ET % 'ap' + r"\)$", 'ind2save_ap', [r'\1']],
    [r"^self\._split2shanks\(chunk_ap2save, " + _ET % 'ap' + r"\)$", 'append_ap', []],
    [r"^self\._closefiles\(" + _ET % 'ap' + r"\)$", 'close_ap', []],
    [r"^self\._writemetadata_ap\(\)$", 'meta_ap', []],
]
_A_P24 = {r"self\.already_processed": False, r"self\.already_exists": False, r"self\.post_check": False,
          r"self\.compress": False, r"self\.delete_original": False}
_EV_RP = [
    [r"^self\._prepare_files\(\)$", 'prepare', []],
    [r"^self\.get_params\(\)$", 'params', []],
    [r"^self\._reconstruct\(\)$", 'reconstruct', []],
    [r"^self\.write_metadata\(\)$", 'meta', []],
    [r"^self\.compress_file\(\)$", 'compress', []],
]

SPEC['items'] += [
    {'name': 'prep_shank', 'module': 'neuropixel.py', 'function': 'NP2Converter._prepare_files_NP24', 'kind': 'events',
     'loop_body': True, 'events': _EV_PREP, 'assume': {r"not probe_path\.exists\(\) or overwrite": True}, 'params': ['sh']},
    {'name': 'wg_firstlast', 'module': 'ibldsp/utils.py', 'function': 'WindowGenerator.firstlast', 'kind': 'fn',
     'generator': True, 'as': 'wg_firstlast', 'elem': '(Int × Int)', 'params': ['self_ns', 'self_nswin', 'self_overlap']},
    {'name': 'p24_windows', 'module': 'neuropixel.py', 'function': 'NP2Converter._process_NP24', 'kind': 'events',
     'events': _EV_P24, 'assume': _A_P24,
     'params': ['self_nsamples', 'self_samples_window', 'self_samples_overlap', 'self_napch', 'self_idxsyncch',
                'self_ns', 'self_nswin', 'self_overlap']},
    {'name': 'recon_process_plain', 'module': 'neuropixel.py', 'function': 'NP2Reconstructor.process', 'kind': 'events',
     'events': _EV_RP, 'assume': {r"self\.shank_info is None": False, r"self\.compress": False}},
    {'name': 'recon_process_compress', 'module': 'neuropixel.py', 'function': 'NP2Reconstructor.process', 'kind': 'events',
     'events': _EV_RP, 'assume': {r"self\.shank_info is None": False, r"self\.compress": True}},
    {'name': 'recon_nch', 'module': 'neuropixel.py', 'function': 'NP2Reconstructor.get_params', 'kind': 'expr', 'target': 'self_nch',
     'opaque': {r"np\.max\(self\.shank_info\['shank0'\]\['chns'\]\)": 'max_chns_shank0'}, 'params': ['max_chns_shank0']},
    {'name': 'recon_window', 'module': 'neuropixel.py', 'function': 'NP2Reconstructor.get_params', 'kind': 'expr',
     'target': 'self_samples_window'},
    {'name': 'get_chans_stop', 'module': 'neuropixel.py', 'function': 'NP2Reconstructor._get_chans', 'kind': 'subexpr',
     'pattern': r"int\(sub\[1\]\)( [+-] \d+)?", 'free': ['sub'], 'params': ['sub_1']},
    {'name': 'get_chans_start', 'module': 'neuropixel.py', 'function': 'NP2Reconstructor._get_chans', 'kind': 'subexpr',
     'pattern': r"int\(sub\[0\]\)", 'free': ['sub'], 'params': ['sub_0']},
]
SPEC['theorems'] += ['IblVerif.Tie.C03.prepare_eq', 'IblVerif.Tie.C03.firstlast_eq', 'IblVerif.Tie.C03.p24_windows_eq',
                     'IblVerif.Tie.C03.recon_process_eq', 'IblVerif.Tie.C03.recon_params_eq', 'IblVerif.Tie.C03.get_chans_range_eq']
SPEC['covers'] += ("; NP2Converter._prepare_files_NP24, one shank (channel list = where(shank == sh) then the sync indices, folder letter "
                   "chr(97 + sh), files opened before the entry is registered under its own number); the AP half of _process_NP24 as an "
                   "event sequence (window generator arguments, per window of WindowGenerator.firstlast: AP columns [0, napch) and sync "
                   "columns [idxsyncch, ...) of the same rows, _ind2save with ratio 1, append; close, then metadata); "
                   "NP2Reconstructor.process (step order, metadata after the file), get_params (nch = max + 1, window 2 * 30000), the "
                   "arange bounds of _get_chans")
