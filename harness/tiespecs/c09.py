"""C09 tie, second part: the decision / index skeleton of the _get_* helpers and of _conversion_sample2v_from_meta.

Conventions: a string test of the source is fixed per item by `assume` (one item per branch), `md.get(k, default)` is an opaque integer
whose name carries the key AND the default (a changed default no longer matches the regular expression: the item is then reported
untranslatable and the correspondence is escalated), `"NP2" in version` is the presence flag `<name>_has_NP2`.  The Lean side addresses
the parameters BY NAME (`Src.C09.fs_imec (md_imSampRate := x)`), so a changed metadata key breaks the elaboration of the tie theorem."""

_IMEC = r"md\.get\('typeThis'(, None)?\) == 'imec'"


def _type_item(name, nidq):
    return {'name': name, 'module': 'spikeglx.py', 'function': '_get_type_from_meta', 'kind': 'fn', 'option_return': True,
            'value': 'Option String', 'free': ['snsApLfSy'],
            'assume': {r"snsApLfSy == \[-1, -1, -1\] and md\.get\('typeThis', None\) == 'nidq'": nidq},
            'params': ['snsApLfSy_0', 'snsApLfSy_1']}


def _maxint_item(name, imec):
    return {'name': name, 'module': 'spikeglx.py', 'function': '_get_max_int_from_meta', 'kind': 'fn',
            'free': ['neuropixel_version'], 'assume': {_IMEC: imec},
            'opaque': {r"md\.get\('imMaxInt', 512\)": 'md_imMaxInt_or_512', r"md\.get\('imMaxInt', 32768\)": 'md_imMaxInt_or_32768'},
            'params': ['neuropixel_version_has_NP2', 'md_imMaxInt', 'md_imMaxInt_or_512', 'md_imMaxInt_or_32768']}


def _sync_item(name, nidq):
    return {'name': name, 'module': 'spikeglx.py', 'function': '_get_sync_trace_indices_from_meta', 'kind': 'block',
            'assume': {r"typ == 'nidq'": nidq, r"typ in \['lf', 'ap'\]": not nidq},
            'opaque': {r'_get_nchannels_from_meta\(md\)': 'nchannels'},
            'outputs': ['ntr - nsync', 'ntr', 'nsync'], 'value': 'Int × Int × Int',
            'params': ['nchannels', 'md_snsMnMaXaDw_m1', 'md_snsApLfSy_2']}


def _fs_item(name, imec):
    return {'name': name, 'module': 'spikeglx.py', 'function': '_get_fs_from_meta', 'kind': 'fn', 'assume': {_IMEC: imec}}


_CONV = {'module': 'spikeglx.py', 'function': '_conversion_sample2v_from_meta',
         'opaque': {r'_get_nchannels_from_meta\(meta_data\)': 'nchannels',
                    r'len\(_get_sync_trace_indices_from_meta\(meta_data\)\)': 'len_sync_indices',
                    r"meta_data\['snsApLfSy'\]\[-1\]": 'snsApLfSy_m1'}}

SPEC = {
    'items': [
        _type_item('stream_type_nidq', True), _type_item('stream_type_imec', False),
        _maxint_item('max_int_imec', True), _maxint_item('max_int_other', False),
        _sync_item('sync_range_nidq', True), _sync_item('sync_range_imec', False),
        _fs_item('fs_imec', True), _fs_item('fs_other', False),
        {'name': 'nchannels', 'module': 'spikeglx.py', 'function': '_get_nchannels_from_meta', 'kind': 'fn'},
        dict(_CONV, name='conv_nchn', kind='expr', target='n_chn', params=['nchannels', 'len_sync_indices']),
    ],
    'theorems': ['IblVerif.Tie.C09.stream_type_imec_eq', 'IblVerif.Tie.C09.stream_type_nidq_eq',
                 'IblVerif.Tie.C09.np2_flag_eq', 'IblVerif.Tie.C09.max_int_imec_eq', 'IblVerif.Tie.C09.max_int_other_eq',
                 'IblVerif.Tie.C09.sync_range_imec_eq', 'IblVerif.Tie.C09.sync_range_nidq_eq', 'IblVerif.Tie.C09.fs_eq',
                 'IblVerif.Tie.C09.nchannels_eq', 'IblVerif.Tie.C09.conv_nchn_eq', 'IblVerif.Tie.C09.conv_steps_eq',
                 'IblVerif.Tie.C09.conversion_runs_source_steps'],
    'covers': ('_get_type_from_meta (ap / lf / nidq from the first two entries of snsApLfSy); _get_max_int_from_meta (imec NP2 -> imMaxInt, '
               'imec NP1 -> default 512, other -> default 32768); _get_sync_trace_indices_from_meta (first index ntr - nsync, nsync = '
               'snsApLfSy[2] / snsMnMaXaDw[-1]); _get_fs_from_meta and _get_nchannels_from_meta (which key); _conversion_sample2v_from_meta as '
               'the ordered list of its array-building steps (sync block length, n_chn = nchannels - len(sync indices), the cut [:n_chn], '
               'IMRO field -1 -> lf / -2 -> ap, nidq block order 0,1,2,3): Meta.conversion = the interpretation of exactly these steps'),
}

# _conversion_sample2v_from_meta as the ordered list of its array-building steps (whole-statement events; the regular expressions fix
# the text of each step, the captured groups are the integers that decide its SHAPE: the length of the sync block, the count the
# per-channel part is cut to, which field of an IMRO row feeds which stream, which entry of snsMnMaXaDw sizes which nidq block)
_HS2 = r"np\.hstack\(\(int2volt / 80 \* np\.ones\((\w+)\)\.astype\(np\.float32\), sy_gain\)\)"
_HS1 = r"np\.hstack\(\(np\.array\(\[1 / np\.float32\(g\.split\(' '\)\[(-?\d+)\]\) for g in gain\]\) \* int2volt, sy_gain\)\)"
_ND = r"meta_data\['snsMnMaXaDw'\]\[(\d+)\]"
_CONV_EVENTS = [
    [r"^np\.ones\((int\(.+\)), dtype=np\.float32\)$", 'sync_ones', [r'\1']],
    [r"^out = \{'lf': " + _HS2 + r", 'ap': " + _HS2 + r"\}$", 'np2', [r'\1', r'\2'], 'stmt'],
    [r"^gain = re\.findall\('\(\[0-9\]\* \[0-9\]\* \[0-9\]\* \[0-9\]\* \[0-9\]\*\)', meta_data\['imroTbl'\]\)\[:(\w+)\]$", 'take', [r'\1'], 'stmt'],
    [r"^out = \{'lf': " + _HS1 + r", 'ap': " + _HS1 + r"\}$", 'np1', [r'\1', r'\2'], 'stmt'],
    [r"^gain = np\.r_\[np\.ones\(int\(" + _ND + r"\)\) / meta_data\['niMNGain'\] \* int2volt, np\.ones\(int\(" + _ND
     + r"\)\) / meta_data\['niMAGain'\] \* int2volt, np\.ones\(int\(" + _ND + r"\)\) \* int2volt, np\.ones\(int\(np\.sum\(" + _ND + r"\)\)\)\]$",
     'nidq', [r'\1', r'\2', r'\3', r'\4'], 'stmt'],
    # any later slice assignment into an array (e.g. `s2v[-nsync:] = 1`, which is the WHOLE array when nsync == 0) is a step too
    [r"^[\w\[\]'\".]+\[[^\]=]*:[^\]=]*\] = .+$", 'slice_assign', [], 'stmt'],
]
SPEC['items'].append(dict(_CONV, name='conv_steps', kind='events', events=_CONV_EVENTS, free=['version'],
                          params=['meta_data_has_imroTbl', 'meta_data_has_niMNGain', 'version_has_NP2', 'snsApLfSy_m1', 'nchannels',
                                  'len_sync_indices']))
