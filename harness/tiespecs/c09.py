"""C09 tie, second part: _get_type_from_meta (ap / lf / nidq decision on snsApLfSy)."""
def _item(name, nidq):
    return {'name': name, 'module': 'spikeglx.py', 'function': '_get_type_from_meta', 'kind': 'fn', 'option_return': True,
            'value': 'Option String', 'free': ['snsApLfSy'],
            'assume': {r"snsApLfSy == \[-1, -1, -1\] and md\.get\('typeThis', None\) == 'nidq'": nidq},
            'params': ['snsApLfSy_0', 'snsApLfSy_1']}


SPEC = {
    'items': [_item('stream_type_nidq', True), _item('stream_type_imec', False)],
    'theorems': ['IblVerif.Tie.C09.stream_type_imec_eq', 'IblVerif.Tie.C09.stream_type_nidq_eq'],
    'covers': '_get_type_from_meta (ap / lf / nidq from the first two entries of snsApLfSy)',
}
