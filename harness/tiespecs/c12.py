"""C12 tie, second part: one iteration of NP2Converter._writemetadata_lf as the sequence of metadata assignments (NP2.4 and NP2.1)."""
_EV = [
    [r"^meta_shank\['acqApLfSy'\]\[0\] = (.*)$", 'acq0', [r'\1'], 'stmt'],
    [r"^meta_shank\['acqApLfSy'\]\[1\] = (.*)$", 'acq1', [r'\1'], 'stmt'],
    [r"^meta_shank\['snsApLfSy'\]\[0\] = (.*)$", 'sns0', [r'\1'], 'stmt'],
    [r"^meta_shank\['snsApLfSy'\]\[1\] = (.*)$", 'sns1', [r'\1'], 'stmt'],
    [r"^meta_shank\['fileSizeBytes'\] = (.*)$", 'size', [r'\1'], 'stmt'],
    [r"^meta_shank\['imSampRate'\] = (.*)$", 'rate', [r'\1'], 'stmt'],
    [r"^meta_shank\['snsSaveChanSubset_orig'\] = spikeglx\._get_savedChans_subset\(self\.shank_info\[sh\]\['chns'\]\)$", 'subset_orig', [], 'stmt'],
    [r"^meta_shank\['snsSaveChanSubset'\] = f'0:\{(.*)\}'$", 'subset_to', [r'\1'], 'stmt'],
    [r"^meta_shank\['nSavedChans'\] = (.*)$", 'nsaved', [r'\1'], 'stmt'],
    [r"^meta_shank\['original_meta'\] = False$", 'not_original', [], 'stmt'],
    [r"^meta_shank\[f'\{self\.np_version\}_shank'\] = (.*)$", 'shank', [r'\1'], 'stmt'],
]
_OPAQUE = {r"len\(self\.shank_info\[sh\]\['chns'\]\)": 'n_chns_len',
           r"self\.shank_info\[sh\]\['lf_file'\]\.stat\(\)\.st_size": 'lf_size',
           r"int\(sh\[-1\]\)": 'shank_no'}


def _item(name, np24):
    return {'name': name, 'module': 'neuropixel.py', 'function': 'NP2Converter._writemetadata_lf', 'kind': 'events', 'loop_body': True,
            'assume': {r"self\.np_version == 'NP2\.4'": np24}, 'opaque': _OPAQUE, 'events': _EV,
            'params': ['n_chns_len', 'lf_size', 'self_fs_lf', 'shank_no']}


SPEC = {
    'items': [_item('lf_meta_np24', True), _item('lf_meta_np21', False)],
    'theorems': ['IblVerif.Tie.C12.lf_meta_np24_eq', 'IblVerif.Tie.C12.lf_meta_np21_eq'],
    'covers': 'NP2Converter._writemetadata_lf: the metadata keys one shank\'s LF header gets, each from that shank\'s own channel list / file',
}
