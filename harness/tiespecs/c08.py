"""C08 tie, round h: decision / event-order skeleton of neuropixel.adc_shifts, dense_layout, split_trace_header and of
spikeglx._map_channels_from_meta, _split_geometry_into_shanks, geometry_from_meta (item format: harness/ties.py).

Tests of the source that are not integer comparisons (`version == "NPultra"`, `sort`, `return_index`, `cm is None or ...`) are fixed
per item by `assume` (recorded in the evidence); every combination that matters is its own item.  Array statements are read as
EVENTS: the whole statement (or call) must have the spelling given by the regular expression, its integer literals are the event's
arguments; `Tie/C08.lean` gives each event its NumPy meaning on the model's columns (`IblVerif.GeomStages.step`) and proves that
running the source's event list is the hand model (`geometryFromMeta`'s stages, `mapChannels`, `restrict`, `adcParams`, ...)."""

_TUPLE_RX = r"'\(\[0-9\]\*:\[0-9\]\*:\[0-9\]\*:\[0-9\]\*\)'"

_ADC_EVENTS = [
    [r'^adc_channels = n_cycles = (\d+)$', 'both', [r'\1'], 'stmt'],
    [r'^adc_channels = (\d+)$', 'adc_channels', [r'\1'], 'stmt'],
    [r'^n_cycles = (\d+)$', 'n_cycles', [r'\1'], 'stmt'],
]


def _adc(name, ultra):
    # the statements up to (not including) `adc = ...`: the per-version decision
    return {'name': name, 'module': 'neuropixel.py', 'function': 'adc_shifts', 'kind': 'events', 'events': _ADC_EVENTS,
            'until': r'^adc = ', 'assume': {r"version == 'NPultra'": ultra}, 'params': ['version']}


_MAP_EVENTS = [
    [r'^re\.findall\(' + _TUPLE_RX + r", meta_data\['snsShankMap'\]\)$", 'scan_shankmap', []],
    [r'^re\.findall\(' + _TUPLE_RX + r", meta_data\['snsGeomMap'\]\)$", 'scan_geommap', []],
    [r"^key_names = \{'shank': (\d+), 'col': (\d+), 'row': (\d+), 'flag': (\d+)\}$", 'keys_shank_col_row_flag', [r'\1', r'\2', r'\3', r'\4'], 'stmt'],
    [r"^key_names = \{'shank': (\d+), 'x': (\d+), 'y': (\d+), 'flag': (\d+)\}$", 'keys_shank_x_y_flag', [r'\1', r'\2', r'\3', r'\4'], 'stmt'],
]

_SPLIT_EVENTS = [
    [r"^shank_idx = np\.where\(th\['shank'\] == int\(meta_data\['NP2\.4_shank'\]\)\)\[0\]$", 'where_shank_eq_key', [], 'stmt'],
    [r'^th = \{key: th\[key\]\[shank_idx\] for key in th\.keys\(\)\}$', 'gather_every_key', [], 'stmt'],
]
_SPLITH_EVENTS = [
    [r"^shank_idx = np\.where\(h\['shank'\] == shank\)\[0\]$", 'where_shank_eq_arg', [], 'stmt'],
    [r'^h_shank = \{key: h\[key\]\[shank_idx\] for key in h\.keys\(\)\}$', 'gather_every_key', [], 'stmt'],
]

_GEOM_EVENTS = [
    [r'^cm = _map_channels_from_meta\(meta_data\)$', 'map_channels', [], 'stmt'],
    [r'^th = cm\.copy\(\)$', 'copy', [], 'stmt'],
    [r"^th\['x'\] = (\d+) - th\['x'\]$", 'flip_x', [r'\1'], 'stmt'],
    [r"^th\['y'\] \+= (\d+)$", 'add_y', [r'\1'], 'stmt'],
    [r"^th\.update\(neuropixel\.xy2rc\(th\['x'\], th\['y'\], version=major_version\)\)$", 'xy2rc', []],
    [r"^th\['col'\] = -cm\['col'\] \* (\d+) \+ (\d+) \+ np\.mod\(cm\['row'\], (\d+)\)$", 'flip_col', [r'\1', r'\2', r'\3'], 'stmt'],
    [r"^th\.update\(neuropixel\.rc2xy\(th\['row'\], th\['col'\], version=major_version\)\)$", 'rc2xy', []],
    [r"^\(?th\['sample_shift'\], th\['adc'\]\)? = neuropixel\.adc_shifts\(version=major_version, nc=th\['col'\]\.size\)$", 'adc_shifts', [], 'stmt'],
    [r'^th = _split_geometry_into_shanks\(th, meta_data\)$', 'split', [], 'stmt'],
    [r"^th\['ind'\] = np\.arange\(th\['col'\]\.size\)$", 'ind', [], 'stmt'],
    [r"^sort_keys = np\.c_\[-th\['col'\], th\['row'\], th\['shank'\]\]$", 'keys_negcol_row_shank', [], 'stmt'],
    [r'^inds = np\.lexsort\(sort_keys\.T\)$', 'lexsort', [], 'stmt'],
    [r'^th = \{k: v\[inds\] for k, v in th\.items\(\)\}$', 'gather_every_key', [], 'stmt'],
    [r"^inds = np\.arange\(th\['col'\]\.size\)$", 'inds_range', [], 'stmt'],
]


def _geom(name, sort):
    # a metadata with a site table (the no-map default branch is not part of this item), return_index=True
    return {'name': name, 'module': 'spikeglx.py', 'function': 'geometry_from_meta', 'kind': 'events', 'events': _GEOM_EVENTS,
            'free': ['cm', 'th', 'major_version', 'inds'],
            'assume': {r'cm is None or all\(.*\)': False, 'sort': sort, 'return_index': True},
            'params': ['cm_has_x', 'major_version']}


_DENSE_EVENTS = [
    [r"^ch\.update\(\{'col': np\.tile\(np\.array\(\[(\d+), (\d+), (\d+), (\d+)\]\), int\(NC / (\d+)\)\)\}\)$", 'col_tile4', [r'\1', r'\2', r'\3', r'\4', r'\5']],
    [r"^ch\.update\(\{'row': np\.floor\(np\.arange\(NC\) / (\d+)\)\}\)$", 'row_floor_div', [r'\1']],
    [r"^ch\.update\(\{'col': np\.tile\(np\.arange\((\d+)\), int\(NC / (\d+)\)\)\}\)$", 'col_tile_arange', [r'\1', r'\2']],
    [r"^ch\.update\(\{'col': np\.tile\(np\.array\(\[(\d+), (\d+)\]\), int\(NC / (\d+)\)\)\}\)$", 'col_tile2', [r'\1', r'\2', r'\3']],
    [r'^shank_row = np\.tile\(np\.arange\(NC / (\d+)\), \((\d+), 1\)\)\.T\[:, np\.newaxis\]\.flatten\(\)$', 'srow_repeat_arange', [r'\1', r'\2'], 'stmt'],
    [r'^shank_row = np\.tile\(shank_row, (\d+)\)$', 'srow_tile', [r'\1'], 'stmt'],
    [r'^shank_row \+= np\.tile\(np\.array\(\[(\d+), (\d+), (\d+), (\d+), (\d+), (\d+), (\d+), (\d+)\]\)\[:, np\.newaxis\], \(1, int\(NC / (\d+)\)\)\)\.flatten\(\) \* (\d+)$',
     'srow_add_repeat8', [r'\1', r'\2', r'\3', r'\4', r'\5', r'\6', r'\7', r'\8', r'\9', r'\10'], 'stmt'],
    [r"^ch\.update\(\{'col': np\.tile\(np\.array\(\[(\d+), (\d+)\]\), int\(NC / (\d+)\)\), "
     r"'shank': np\.tile\(np\.array\(\[(\d+), (\d+), (\d+), (\d+), (\d+), (\d+), (\d+), (\d+)\]\)\[:, np\.newaxis\], \(1, int\(NC / (\d+)\)\)\)\.flatten\(\), "
     r"'row': shank_row\}\)$", 'col_shank_row4', [r'\1', r'\2', r'\3', r'\4', r'\5', r'\6', r'\7', r'\8', r'\9', r'\10', r'\11', r'\12']],
    [r"^ch\.update\(rc2xy\(ch\['row'\], ch\['col'\], version=version\)\)$", 'rc2xy', []],
]


def _dense(name, ultra):
    return {'name': name, 'module': 'neuropixel.py', 'function': 'dense_layout', 'kind': 'events', 'events': _DENSE_EVENTS,
            'free': ['shank_row', 'ch'], 'assume': {r"version == 'NPultra'": ultra}, 'params': ['version', 'nshank']}


SPEC = {
    'items': [
        _adc('adc_params_num', False),
        _adc('adc_params_ultra', True),
        # one iteration of `for a in adc:` — the Boolean-mask assignment of the sampling ranks
        {'name': 'adc_loop_body', 'module': 'neuropixel.py', 'function': 'adc_shifts', 'kind': 'events', 'loop_body': True,
         'events': [[r'^sample_shift\[adc == a\] = np\.arange\(adc_channels\) / n_cycles$', 'fill_where_adc_eq_a_arange_over',
                     ['adc_channels', 'n_cycles'], 'stmt']],
         'free': ['adc_channels', 'n_cycles', 'adc', 'sample_shift'], 'params': ['adc_channels', 'n_cycles']},
        # the default rows of dense_layout (two sites per row), read element-wise
        {'name': 'dense_row_default', 'module': 'neuropixel.py', 'function': 'dense_layout', 'kind': 'subexpr', 'elementwise': True,
         'pattern': r'np\.floor\(np\.arange\(NC\) / 2\)', 'params': ['i']},
        {'name': 'map_channels_plan', 'module': 'spikeglx.py', 'function': '_map_channels_from_meta', 'kind': 'events',
         'events': _MAP_EVENTS, 'until': r'^if not chmap', 'params': ['meta_data_has_snsShankMap', 'meta_data_has_snsGeomMap']},
        {'name': 'split_geometry_plan', 'module': 'spikeglx.py', 'function': '_split_geometry_into_shanks', 'kind': 'events',
         'events': _SPLIT_EVENTS, 'free': ['th', 'shank_idx'], 'params': ['meta_data_has_NP2_4_shank']},
        {'name': 'split_header_plan', 'module': 'neuropixel.py', 'function': 'split_trace_header', 'kind': 'events',
         'events': _SPLITH_EVENTS, 'free': ['h', 'shank_idx', 'h_shank']},
        _geom('geometry_stages_sorted', True),
        _geom('geometry_stages_unsorted', False),
        _dense('dense_stages_num', False),
        _dense('dense_stages_ultra', True),
    ],
    'theorems': ['IblVerif.Tie.C08.adc_params_eq', 'IblVerif.Tie.C08.adc_loop_body_eq', 'IblVerif.Tie.C08.map_channels_eq',
                 'IblVerif.Tie.C08.split_geometry_eq', 'IblVerif.Tie.C08.split_header_eq', 'IblVerif.Tie.C08.geometry_stages_eq',
                 'IblVerif.Tie.C08.geometry_from_meta_eq', 'IblVerif.Tie.C08.dense_row_default_eq', 'IblVerif.Tie.C08.dense_v1',
                 'IblVerif.Tie.C08.dense_ultra', 'IblVerif.Tie.C08.dense_v2'],
    'covers': 'adc_shifts (channels per ADC / cycles per probe generation, the mask assignment of the loop body), '
              '_map_channels_from_meta (shank map first, then geometry map; field positions of shank / col / row / x / y / flag), '
              '_split_geometry_into_shanks and split_trace_header (restriction of EVERY key to the sites of the shank), '
              'geometry_from_meta with a site table (order of copy / flip / +20 / xy2rc | column flip / rc2xy, ADC columns, shank split, '
              'ind, lexsort keys (-col, row, shank) and the joint gather), dense_layout (per-version dispatch and tile / repeat parameters)',
}
