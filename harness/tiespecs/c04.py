"""
Translator tie of C04 (DESIGN §12): the decision / call-order skeleton of `neuropixel.NP2Converter` re-translated from the
current source text on every run (-> lean/IblVerif/Generated/SrcC04.lean) and proved equal to the step order of the hand
model (`IblVerif.Converter.steps24 / steps21 / dispatch / deleteGuard`, Model/ConverterSteps.lean) in lean/IblVerif/Tie/C04.lean.

The converter's tests are on boolean attributes (`if self.post_check:`), which the translator only reads through a per-item
assumption; so every function is translated once per combination of the flags it consults (the specialisation of the source
under that combination) and the tie theorems are stated over ALL combinations (a total decision table), all window
configurations and all fuels.
"""

NP = 'neuropixel.py'

# calls of `_process_NP24` / `_process_NP21` that are events, in the spelling `ast.unparse` gives them
_ET = r"(?:etype=)?'%s'"
EV_PROCESS = [
    [r"^self\._prepare_files_NP24\((?:overwrite=)?overwrite\)$", 'prepare', ['overwrite']],
    [r"^self\._prepare_files_NP21\((?:overwrite=)?overwrite(?:, \*\*kwargs)?\)$", 'prepare', ['overwrite']],
    [r"^WindowGenerator\((.*), (.*), (.*)\)$", 'wg', [r'\1', r'\2', r'\3']],
    [r"^self\._split2shanks\(\w+, " + _ET % 'ap' + r"\)$", 'split_ap', ['first', 'last']],
    [r"^self\._split2shanks\(\w+, " + _ET % 'lf' + r"\)$", 'split_lf', ['first', 'last']],
    [r"^self\._closefiles\(" + _ET % 'ap' + r"\)$", 'close_ap', []],
    [r"^self\._closefiles\(" + _ET % 'lf' + r"\)$", 'close_lf', []],
    [r"^self\._writemetadata_ap\(\)$", 'meta_ap', []],
    [r"^self\._writemetadata_lf\(\)$", 'meta_lf', []],
    [r"^self\.check_NP24\(\)$", 'check', []],
    [r"^self\.compress_NP24\((?:overwrite=)?overwrite\)$", 'compress', ['overwrite']],
    [r"^self\.compress_NP21\((?:overwrite=)?overwrite\)$", 'compress', ['overwrite']],
    [r"^self\.delete_NP24\(\)$", 'delete', []],
]
EV_DISPATCH = [
    [r"^self\._process_NP24\((?:overwrite=)?overwrite\)$", 'p24', ['overwrite']],
    [r"^self\._process_NP21\((?:overwrite=)?overwrite\)$", 'p21', ['overwrite']],
]
EV_DELETE = [
    [r"^self\.sr\.close\(\)$", 'close_orig', []],
    [r"^self\.ap_file\.unlink\((?:missing_ok=\w+)?\)$", 'unlink_orig', []],
]

A_EXISTS = r"self\.ap_file\.exists\(\)"
A_IS24 = r"self\.np_version == 'NP2\.4'"
A_IS21 = r"self\.np_version == 'NP2\.1'"
A_AP = r"self\.already_processed"
A_AE = r"self\.already_exists"
A_PC = r"self\.post_check"
A_CP = r"self\.compress"
A_DL = r"self\.delete_original"
A_CC = r"self\.check_completed"

WG_PARAMS = ['self_nsamples', 'self_samples_window', 'self_samples_overlap', 'self_ns', 'self_nswin', 'self_overlap']


def _b(x):
    return '1' if x else '0'


def _items():
    it = [
        # the window generator both loops iterate over (`for first, last in wg.firstlast`)
        {'name': 'wg_firstlast', 'module': 'ibldsp/utils.py', 'function': 'WindowGenerator.firstlast', 'kind': 'fn',
         'generator': True, 'as': 'wg_firstlast', 'elem': '(Int × Int)', 'params': ['self_ns', 'self_nswin', 'self_overlap']},
    ]
    fn = 'NP2Converter.process'
    # process(): the dispatch.  status of the two branches that do not dispatch, and which branch is taken
    it.append({'name': 'proc_status_missing', 'module': NP, 'function': fn, 'kind': 'fn',
               'assume': {A_EXISTS: False, A_IS24: False, A_IS21: False}})
    it.append({'name': 'proc_status_other', 'module': NP, 'function': fn, 'kind': 'fn',
               'assume': {A_EXISTS: True, A_IS24: False, A_IS21: False}})
    for ex in (0, 1):
        for k, (a24, a21) in (('24', (True, False)), ('21', (False, True)), ('xx', (False, False))):
            it.append({'name': f'proc_ev_{ex}{k}', 'module': NP, 'function': fn, 'kind': 'events', 'events': EV_DISPATCH,
                       'assume': {A_EXISTS: bool(ex), A_IS24: a24, A_IS21: a21}, 'params': ['overwrite']})
    # _process_NP24: early returns (status) and the event order under every flag combination
    fn = 'NP2Converter._process_NP24'
    it.append({'name': 'p24_status_processed', 'module': NP, 'function': fn, 'kind': 'fn', 'assume': {A_AP: True}})
    it.append({'name': 'p24_status_exists', 'module': NP, 'function': fn, 'kind': 'fn', 'assume': {A_AP: False, A_AE: True}})
    it.append({'name': 'p24_ev_processed', 'module': NP, 'function': fn, 'kind': 'events', 'events': EV_PROCESS,
               'assume': {A_AP: True}, 'params': ['overwrite']})
    it.append({'name': 'p24_ev_exists', 'module': NP, 'function': fn, 'kind': 'events', 'events': EV_PROCESS,
               'assume': {A_AP: False, A_AE: True}, 'params': ['overwrite']})
    for pc in (0, 1):
        for cp in (0, 1):
            for dl in (0, 1):
                it.append({'name': f'p24_ev_{pc}{cp}{dl}', 'module': NP, 'function': fn, 'kind': 'events', 'events': EV_PROCESS,
                           'assume': {A_AP: False, A_AE: False, A_PC: bool(pc), A_CP: bool(cp), A_DL: bool(dl)},
                           'params': ['overwrite'] + WG_PARAMS})
    # _process_NP21
    fn = 'NP2Converter._process_NP21'
    it.append({'name': 'p21_status_exists', 'module': NP, 'function': fn, 'kind': 'fn', 'assume': {A_AE: True}})
    it.append({'name': 'p21_ev_exists', 'module': NP, 'function': fn, 'kind': 'events', 'events': EV_PROCESS,
               'assume': {A_AE: True}, 'params': ['overwrite']})
    for cp in (0, 1):
        it.append({'name': f'p21_ev_{cp}', 'module': NP, 'function': fn, 'kind': 'events', 'events': EV_PROCESS,
                   'assume': {A_AE: False, A_CP: bool(cp)}, 'params': ['overwrite', 'offset'] + WG_PARAMS})
    # delete_NP24: the guard of the only statement that removes the original
    for cc in (0, 1):
        for dl in (0, 1):
            it.append({'name': f'del_ev_{cc}{dl}', 'module': NP, 'function': 'NP2Converter.delete_NP24', 'kind': 'events',
                       'events': EV_DELETE, 'assume': {A_CC: bool(cc), A_DL: bool(dl)}})
    return it


SPEC = {
    'items': _items(),
    'theorems': [
        'IblVerif.Tie.C04.firstlast_eq',
        'IblVerif.Tie.C04.dispatch_eq',
        'IblVerif.Tie.C04.dispatch_status_eq',
        'IblVerif.Tie.C04.process24_steps_eq',
        'IblVerif.Tie.C04.process24_early_status_eq',
        'IblVerif.Tie.C04.process21_steps_eq',
        'IblVerif.Tie.C04.process21_early_status_eq',
        'IblVerif.Tie.C04.delete_guard_eq',
    ],
    'covers': 'NP2Converter.process (dispatch on file presence / probe version, statuses 0 and -1), _process_NP24 and _process_NP21 '
              '(which steps run, in which order, under every combination of already_processed / already_exists / post_check / '
              'compress / delete_original; window loop over WindowGenerator(nsamples, samples_window, samples_overlap).firstlast; '
              'overwrite passed on; early-return statuses), delete_NP24 (guard check_completed and delete_original)',
}
