"""C14 tie: the integer / event-order skeleton of ibldsp.waveforms.compute_spike_features and of the derived-column helpers
(see harness/ties.py for the item format).  Array statements (argmax, masks, fancy indexing) are outside the translator's subset;
what is translated is (1) the order of the pipeline stages and the recovery offset handed to recovery_point, (2) the branch
structure of find_tip_trough, (3) the index the recovery point falls back to, (4) the pandas column arithmetic of the duration /
slope columns, read pointwise (one row of the data frame; `df["c"]` -> parameter df_c)."""

_M = 'ibldsp/waveforms.py'
_DF = ['df']

SPEC = {
    'items': [
        # (1) compute_spike_features as the sequence of stage calls, with the offset expression of the recovery stage
        {'name': 'pipeline', 'module': _M, 'function': 'compute_spike_features', 'kind': 'events',
         'assume': {'return_peak_channel': False},
         'fractions': {'recovery_duration_ms': ['rd_num', 'rd_den']},
         'params': ['rd_num', 'rd_den', 'fs'],
         'events': [
             [r'^find_peak\(', 'find_peak', []],
             [r'^get_array_peak\(', 'get_array_peak', []],
             [r'^invert_peak_waveform\(', 'invert_peak_waveform', []],
             [r'^find_tip_trough\(', 'find_tip_trough', []],
             [r'^peak_to_trough_duration\(', 'peak_to_trough_duration', []],
             [r'^half_peak_point\(', 'half_peak_point', []],
             [r'^half_peak_duration\(', 'half_peak_duration', []],
             [r'^recovery_point\([^,]+,[^,]+,\s*(?:idx_from_trough\s*=\s*)?(.*)\)$', 'recovery_point', [r'\1']],
             [r'^polarisation_slopes\(', 'polarisation_slopes', []],
             [r'^recovery_slope\(', 'recovery_slope', []],
         ]},
        # (2) find_tip_trough: trough, ratio, then the swap block exactly when some row is selected, then the tip
        {'name': 'tip_trough', 'module': _M, 'function': 'find_tip_trough', 'kind': 'events', 'free': ['df_index'],
         'params': ['len_df_index'],
         'events': [
             [r'^find_trough\(', 'find_trough', []],
             [r'^peak_to_trough_ratio\(', 'peak_to_trough_ratio', []],
             [r'^invert_peak_waveform\(', 'invert_peak_waveform', []],
             [r'^find_tip\(', 'find_tip', []],
         ]},
        # (3) recovery_point: the index written where trough + offset runs past the end
        {'name': 'recovery_last', 'module': _M, 'function': 'recovery_point', 'kind': 'expr', 'target': 'idx_all[idx_over]',
         'params': ['arr_peak_shape_1']},
        # (4) derived columns, pointwise
        {'name': 'pt_duration', 'module': _M, 'function': 'peak_to_trough_duration', 'kind': 'expr',
         'target': "df['peak_to_trough_duration']", 'fraction': True, 'value': 'Int × Int',
         'params': ['df_peak_time_idx', 'df_trough_time_idx', 'fs']},
        {'name': 'hp_duration', 'module': _M, 'function': 'half_peak_duration', 'kind': 'expr',
         'target': "df['half_peak_duration']", 'fraction': True, 'value': 'Int × Int',
         'params': ['df_half_peak_post_time_idx', 'df_half_peak_pre_time_idx', 'fs']},
        {'name': 'depol_duration', 'module': _M, 'function': 'polarisation_slopes', 'kind': 'expr', 'target': 'depolarise_duration',
         'fraction': True, 'value': 'Int × Int', 'params': ['df_peak_time_idx', 'df_tip_time_idx', 'fs']},
        {'name': 'depol_volt', 'module': _M, 'function': 'polarisation_slopes', 'kind': 'expr', 'target': 'depolarise_volt',
         'params': ['df_peak_val', 'df_tip_val']},
        {'name': 'depol_slope', 'module': _M, 'function': 'polarisation_slopes', 'kind': 'expr', 'target': "df['depolarisation_slope']",
         'free': ['depolarise_volt', 'depolarise_duration'], 'fractions': {'depolarise_duration': ['dur_num', 'dur_den']},
         'fraction': True, 'value': 'Int × Int', 'params': ['depolarise_volt', 'dur_num', 'dur_den']},
        {'name': 'repol_duration', 'module': _M, 'function': 'polarisation_slopes', 'kind': 'expr', 'target': 'repolarise_duration',
         'fraction': True, 'value': 'Int × Int', 'params': ['df_peak_time_idx', 'df_trough_time_idx', 'fs']},
        {'name': 'repol_volt', 'module': _M, 'function': 'polarisation_slopes', 'kind': 'expr', 'target': 'repolarise_volt',
         'params': ['df_peak_val', 'df_trough_val']},
        {'name': 'repol_slope', 'module': _M, 'function': 'polarisation_slopes', 'kind': 'expr', 'target': "df['repolarisation_slope']",
         'free': ['repolarise_volt', 'repolarise_duration'], 'fractions': {'repolarise_duration': ['dur_num', 'dur_den']},
         'fraction': True, 'value': 'Int × Int', 'params': ['repolarise_volt', 'dur_num', 'dur_den']},
        {'name': 'rec_duration', 'module': _M, 'function': 'recovery_slope', 'kind': 'expr', 'target': 'recovery_duration',
         'fraction': True, 'value': 'Int × Int', 'params': ['df_recovery_time_idx', 'df_trough_time_idx', 'fs']},
        {'name': 'rec_volt', 'module': _M, 'function': 'recovery_slope', 'kind': 'expr', 'target': 'recovery_volt',
         'params': ['df_recovery_val', 'df_trough_val']},
        {'name': 'rec_slope', 'module': _M, 'function': 'recovery_slope', 'kind': 'expr', 'target': "df['recovery_slope']",
         'free': ['recovery_volt', 'recovery_duration'], 'fractions': {'recovery_duration': ['dur_num', 'dur_den']},
         'fraction': True, 'value': 'Int × Int', 'params': ['recovery_volt', 'dur_num', 'dur_den']},
    ],
    'theorems': ['IblVerif.Tie.C14.pipeline_eq', 'IblVerif.Tie.C14.tip_trough_eq', 'IblVerif.Tie.C14.recovery_last_eq',
                 'IblVerif.Tie.C14.recovery_fallback_src', 'IblVerif.Tie.C14.pt_duration_eq', 'IblVerif.Tie.C14.hp_duration_eq',
                 'IblVerif.Tie.C14.depol_slope_eq', 'IblVerif.Tie.C14.repol_slope_eq', 'IblVerif.Tie.C14.rec_slope_eq'],
    'covers': 'waveforms.compute_spike_features (order of the stage calls + the recovery offset int(round(recovery_duration_ms * fs / 1000)) '
              '= the stage list the call model interprets), find_tip_trough (call order, swap block iff len(df_index) > 0), recovery_point '
              '(fallback index shape[1] - 1), peak_to_trough_duration / half_peak_duration / polarisation_slopes / recovery_slope '
              '(column arithmetic, pointwise); NOT covered (outside the translator subset): argmax / NaN-mask / np.where array statements, '
              'the 1.5 ratio test, the two raise guards',
}
