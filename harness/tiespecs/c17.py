"""C17 tie, second part: WindowGenerator.firstlast_splicing as the sequence of amplitude-vector operations per window
(ones(n); fade-in over [0, overlap) unless first window; fade-out from n - overlap unless last window; yield)."""
SPEC = {
    'items': [
        {'name': 'wg_splicing', 'module': 'ibldsp/utils.py', 'function': 'WindowGenerator.firstlast_splicing', 'kind': 'events',
         'params': ['self_ns', 'self_nswin', 'self_overlap'],
         'events': [
             [r'^amp = np\.ones\((.*)\)$', 'ones', [r'\1'], 'stmt'],
             [r'^amp\[:(.*)\] = w$', 'fadein', [r'\1'], 'stmt'],
             [r'^amp\[(.*):\] = np\.flipud\(w\)$', 'fadeout', [r'\1'], 'stmt'],
             [r'^yield \(first, last, amp\)$', 'yield', ['first', 'last'], 'stmt'],
         ]},
    ],
    'theorems': ['IblVerif.Tie.C17.splicing_eq'],
    'covers': 'WindowGenerator.firstlast_splicing (which part of each amplitude vector gets the rising / the falling Hann ramp)',
}
